(* Properties_C12.v -- C12: device selection agrees with enumeration; bad input gives errors, not crashes.
   Only statements (closed by [exact]), their Print Assumptions, and non-vacuity Examples.

   Quantification: ALL byte strings (lists of N, any length), ALL kinds, ALL indices, ALL driver tables (any number of
   slots, any presence subset, any device tables).  The regex engine is universally quantified in the generic
   theorems (std::regex is external); the *_regex / whole_name / case_fold theorems are about the executable instance:
   fragment parser (ParseModel) + derivative matcher proved correct against the denotational semantics (Regex). *)
From Coq Require Import NArith List Bool String Ascii.
From Select Require Import RegexModel ParseModel SelectModel Regex Select.
Import ListNotations.
Local Open Scope N_scope.

(* ------------------------------------------------------------------ the matcher *)
Theorem Regex_matchb_correct : forall r s, matchb r s = true <-> matches r s.
Proof. exact matchb_correct. Qed.
Print Assumptions Regex_matchb_correct.

(* ------------------------------------------------------------------ first match (any engine) *)
Theorem C12_first_match :
  forall (R : Type) (compile : list N -> option R) (exec : R -> list N -> option bool) ids k p d,
    select R compile exec ids k p = Ok d <->
    exists r, compile (cut_nul (prep p)) = Some r /\
    exists pre post, ids = pre ++ d :: post /\ ikind d = k /\
                     (prep p = [] \/ exec r (iname d) = Some true) /\
                     Forall (fun x => ikind x = k -> prep p <> [] /\ exec r (iname x) = Some false) pre.
Proof. exact first_match. Qed.
Print Assumptions C12_first_match.

(* first match, with the Regex instance: "whose whole name matches" is membership in the language *)
Theorem C12_first_match_regex : forall ids k p d,
    select_frag ids k p = Ok d <->
    exists r, parse (cut_nul (prep p)) = POk r /\
    exists pre post, ids = pre ++ d :: post /\ ikind d = k /\
                     (prep p = [] \/ matches r (iname d)) /\
                     Forall (fun x => ikind x = k -> prep p <> [] /\ ~ matches r (iname x)) pre.
Proof. exact first_match_regex. Qed.
Print Assumptions C12_first_match_regex.

(* ------------------------------------------------------------------ whole name *)
Theorem C12_whole_name : forall ids k p r d,
    parse (cut_nul (prep p)) = POk r -> prep p <> [] ->
    select_frag ids k p = Ok d -> matches r (iname d).
Proof. exact whole_name. Qed.
Print Assumptions C12_whole_name.

Theorem C12_whole_name_plain : forall ids k p d pre post,
    forallb plainb p = true -> p <> [] ->
    select_frag ids k p = Ok d -> eqfl (pre ++ p ++ post) (iname d) = true -> pre = [] /\ post = [].
Proof. exact whole_name_plain. Qed.
Print Assumptions C12_whole_name_plain.

(* ------------------------------------------------------------------ case folding *)
Theorem C12_case_fold :
  (forall r s s', Forall2 (fun a b => lower a = lower b) s s' -> matchb r s = matchb r s') /\
  (forall ids k p p', forallb plainb p = true -> forallb plainb p' = true -> p <> [] -> eqfl p p' = true ->
                      select_frag ids k p = select_frag ids k p') /\
  (forall ids k p, forallb plainb p = true -> p <> [] ->
                   select_frag ids k p = first_of (fun d => (ikind d =? k) && eqfl p (iname d)) ids).
Proof. exact case_fold. Qed.
Print Assumptions C12_case_fold.

(* ------------------------------------------------------------------ NUL padding (any engine) *)
Theorem C12_nul_padding :
  forall (R : Type) (compile : list N -> option R) (exec : R -> list N -> option bool) ids k p n,
    pad_ok p -> select R compile exec ids k (p ++ repeat 0 n) = select R compile exec ids k p.
Proof. exact nul_padding. Qed.
Print Assumptions C12_nul_padding.

(* ------------------------------------------------------------------ opening agrees with enumeration *)
Theorem C12_open_agrees : forall slots i id,
    get (enumerate slots) i = Ok id ->
    open_dev slots (idrv id) (idev id) = Some (mkopened (idev id) (ikind id) (iname id)).
Proof. exact open_agrees. Qed.
Print Assumptions C12_open_agrees.

Theorem C12_select_open_agrees :
  forall (R : Type) (compile : list N -> option R) (exec : R -> list N -> option bool) slots k p d,
    select R compile exec (enumerate slots) k p = Ok d ->
    ikind d = k /\ open_dev slots (idrv d) (idev d) = Some (mkopened (idev d) (ikind d) (iname d)).
Proof. exact select_open_agrees. Qed.
Print Assumptions C12_select_open_agrees.

(* ------------------------------------------------------------------ errors, totality (any engine) *)
Theorem C12_errors_total :
  forall (R : Type) (compile : list N -> option R) (exec : R -> list N -> option bool),
    (forall ids k p, select R compile exec ids k p = Err \/
                     exists d, select R compile exec ids k p = Ok d /\ In d ids /\ ikind d = k) /\
    (forall ids k p, (forall d, In d ids -> ikind d <> k) -> select R compile exec ids k p = Err) /\
    (forall ids k p, compile (cut_nul (prep p)) = None -> select R compile exec ids k p = Err) /\
    (forall ids k p r, compile (cut_nul (prep p)) = Some r -> prep p <> [] ->
                       (forall d, In d ids -> ikind d = k -> exec r (iname d) <> Some true) ->
                       select R compile exec ids k p = Err) /\
    (forall ids k n, n <> 0 -> select_nullname R compile exec ids k n = Err) /\
    (forall ids k, k <> 1 -> k <> 2 -> select_default R compile exec ids k = Err) /\
    (forall ids i, count ids <= i -> get ids i = Err) /\
    (forall slots, (forall s, In s slots -> s = None) ->
                   count (enumerate slots) = 0 /\ (forall i, get (enumerate slots) i = Err) /\
                   (forall k p, select R compile exec (enumerate slots) k p = Err) /\
                   (forall drv dv, open_dev slots drv dv = None)) /\
    (forall (slots : list (option driver)) drv dv,
        nthN slots drv = None \/ nthN slots drv = Some None -> open_dev slots drv dv = None) /\
    (forall (slots : list (option driver)) drv dv (d : driver),
        nthN slots drv = Some (Some d) -> N.of_nat (List.length d) <= dv -> open_dev slots drv dv = None).
Proof. exact errors_total. Qed.
Print Assumptions C12_errors_total.

(* ================================================================== non-vacuity: concrete, reachable instances *)
Definition bytes (s : string) : list N := List.map N_of_ascii (list_ascii_of_string s).

(* the device table of acquire-driver-common (basics.driver.c:84-92) and a one-device stand-in for a second library *)
Definition common : driver :=
  [ mkdev 1 (bytes "simulated: uniform random"); mkdev 1 (bytes "simulated: radial sin"); mkdev 1 (bytes "simulated: empty");
    mkdev 2 (bytes "raw"); mkdev 2 (bytes "tiff"); mkdev 2 (bytes "trash"); mkdev 2 (bytes "tiff-json") ].
Definition slots3 : list (option driver) := [Some common; None; Some [mkdev 2 (bytes "Zarr")]].
Definition ids3 : list ident := enumerate slots3.

(* an absent library contributes nothing but keeps its driver_id slot *)
Example ex_enumerate : count ids3 = 8 /\ get ids3 7 = Ok (mkid 2 0 2 (bytes "Zarr")) /\ get ids3 8 = Err.
Proof. vm_compute. auto. Qed.

(* first match: t.* is matched by tiff, trash and tiff-json; the first one is returned *)
Example ex_first_match : select_frag ids3 2 (bytes "t.*") = Ok (mkid 0 4 2 (bytes "tiff")).
Proof. vm_compute. reflexivity. Qed.

(* the hypotheses of C12_first_match_regex / C12_whole_name are met: in the fragment, non-empty, selected *)
Example ex_whole_name :
  (exists r, parse (cut_nul (prep (bytes "tiff"))) = POk r) /\ prep (bytes "tiff") <> [] /\
  select_frag ids3 2 (bytes "tiff") = Ok (mkid 0 4 2 (bytes "tiff")) /\
  select_frag ids3 2 (bytes "iff") = Err /\                    (* matches only a proper substring of tiff *)
  select_frag ids3 2 (bytes "tiff-j") = Err /\
  select_frag ids3 2 (bytes "tiff-json") = Ok (mkid 0 6 2 (bytes "tiff-json")).
Proof. vm_compute. repeat split; eauto; discriminate. Qed.

(* case folding on both sides; plain, non-empty patterns exist *)
Example ex_case_fold :
  forallb plainb (bytes "ZARR") = true /\ bytes "ZARR" <> [] /\ eqfl (bytes "ZARR") (bytes "zarr") = true /\
  select_frag ids3 2 (bytes "ZARR") = Ok (mkid 2 0 2 (bytes "Zarr")) /\
  select_frag ids3 2 (bytes "zArR") = Ok (mkid 2 0 2 (bytes "Zarr")) /\
  select_frag ids3 1 (bytes ".*RANDOM.*") = Ok (mkid 0 0 1 (bytes "simulated: uniform random")) /\
  select_frag ids3 2 (bytes "[s-u]R[^b]sH") = Ok (mkid 0 5 2 (bytes "trash")).
Proof. vm_compute. repeat split; discriminate. Qed.

(* NUL padding: pad_ok holds for an ordinary name; the padded query gives the same non-trivial answer *)
Example ex_nul_padding :
  pad_ok (bytes "raw") /\ select_frag ids3 2 (bytes "raw" ++ [0; 0; 0]) = Ok (mkid 0 3 2 (bytes "raw")) /\
  select_frag ids3 2 ([0; 0]) = Ok (mkid 0 3 2 (bytes "raw")).
Proof. split; [right; left; vm_compute; discriminate | vm_compute; auto]. Qed.

(* ... and the side condition of C12_nul_padding is needed: a buffer that starts with NUL and does not end with one
   is the empty regex (matches only an empty name) unpadded, and "any name" padded *)
Example ex_nul_padding_side_condition :
  ~ pad_ok [0; 97] /\ select_frag ids3 2 [0; 97] = Err /\ select_frag ids3 2 ([0; 97] ++ [0]) = Ok (mkid 0 3 2 (bytes "raw")).
Proof.
  split; [|vm_compute; auto].
  intros [H | [H | H]]; [discriminate H | apply H; reflexivity | discriminate H].
Qed.

(* embedded NUL without a trailing one: the regex is the C string before it, the name is not "empty" *)
Example ex_embedded_nul : select_frag ids3 2 (bytes "raw" ++ [0] ++ bytes "(") = Ok (mkid 0 3 2 (bytes "raw")).
Proof. vm_compute. reflexivity. Qed.

(* errors: each hypothesis of C12_errors_total is satisfiable on the reachable enumeration ids3 *)
Example ex_errors :
  (forall d, In d ids3 -> ikind d <> 6) /\                                   (* DeviceKind_Unknown is not enumerated *)
  select_frag ids3 6 [] = Err /\
  frag_compile (cut_nul (prep (bytes "(tiff"))) = None /\ select_frag ids3 2 (bytes "(tiff") = Err /\
  select_x ids3 2 (bytes "(tiff") = Some Err /\ select_x ids3 2 (bytes "tiff)") = Some Err /\
  select_x ids3 2 (bytes "*tiff") = Some Err /\ select_x ids3 2 (bytes "[tiff") = Some Err /\
  select_x ids3 2 (bytes "tiff\") = Some Err /\ select_x ids3 2 (bytes "[z-a]") = Some Err /\
  select_x ids3 2 (bytes "\d+") = None /\                                    (* outside the fragment: no exact prediction *)
  select_frag ids3 2 (bytes "no such device") = Err /\
  select_nullname re frag_compile frag_exec ids3 2 10 = Err /\
  select_default re frag_compile frag_exec ids3 3 = Err /\
  select_default re frag_compile frag_exec ids3 1 = Ok (mkid 0 0 1 (bytes "simulated: uniform random")) /\
  select_default re frag_compile frag_exec ids3 2 = Ok (mkid 0 5 2 (bytes "trash")) /\
  count ids3 <= 8 /\ get ids3 8 = Err /\
  (forall s, In s [@None driver; None] -> s = None) /\ enumerate [@None driver; None] = [] /\
  open_dev slots3 1 0 = None /\ open_dev slots3 9 0 = None /\ open_dev slots3 0 7 = None.
Proof.
  split.
  { intros d H. vm_compute in H. repeat (destruct H as [H | H]; [subst d; vm_compute; discriminate|]). contradiction. }
  vm_compute. repeat split; auto; try discriminate.
  intros s [H | [H | H]]; auto; contradiction.
Qed.

(* opening: the hypothesis of C12_open_agrees is met by every index below count *)
Example ex_open :
  get ids3 5 = Ok (mkid 0 5 2 (bytes "trash")) /\
  open_dev slots3 0 5 = Some (mkopened 5 2 (bytes "trash")) /\
  open_dev slots3 2 0 = Some (mkopened 0 2 (bytes "Zarr")).
Proof. vm_compute. auto. Qed.

(* the derivative matcher on a pattern with every construct of the fragment *)
Definition frag_matchb (p s : list N) : option bool :=
  match parse p with
  | POk r => Some (matchb r s)
  | _ => None
  end.

Example ex_matchb :
  frag_matchb (bytes "(?:ab|c)*[x-z]+\.d?") (bytes "ABcabZY.") = Some true /\
  frag_matchb (bytes "(?:ab|c)*[x-z]+\.d?") (bytes "abzy.dd") = Some false /\
  frag_matchb (bytes "(?:ab|c)*[x-z]+\.d?") (bytes "ab.") = Some false /\
  frag_matchb (bytes "(a|b)*abb|") (bytes "") = Some true /\
  frag_matchb (bytes "(a|b)*abb|") (bytes "babAbb") = Some true /\
  frag_matchb (bytes "(a|b)*abb|") (bytes "bab") = Some false.
Proof. vm_compute. repeat split. Qed.
