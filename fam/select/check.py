"""Select family: C12 (device selection agrees with enumeration; bad input gives errors, not crashes).  DESIGN 6.12.

prove -> build -> corpus -> correspond -> independent property oracle -> violations with minimised replay.

Implementation under test: the REAL device.manager.cpp, loader.c, driver.c, props/device.c, linux/platform.c and logger.c
of the working tree, linked into harness/h_select.cpp; the real acquire-driver-common built into
libacquire-driver-common.so; small stub drivers (harness/stub_driver.c) for the optional libraries.  One directory per
presence configuration under .build/C12/cfg/ (the real lib_open_by_name looks next to the executable).
"""
import json
import os
import re
import shutil
import subprocess
import warnings

import vlib

CORE = "acquire-core-libs/src"
HAL = CORE + "/acquire-device-hal/device/hal"
DRV = "acquire-driver-common/src"
INC_DIRS = [CORE + "/acquire-core-logger", CORE + "/acquire-core-platform/linux", CORE + "/acquire-device-properties",
            CORE + "/acquire-device-kit", CORE + "/acquire-device-hal", DRV, DRV + "/simcams/3rdParty/pcg-c-basic-0.9"]
COMMON = "acquire-driver-common"
DEFAULT_LIBS = [COMMON, "acquire-driver-hdcam", "acquire-driver-zarr", "acquire-driver-egrabber",
                "acquire-driver-spinnaker", "acquire-driver-pvcam"]

# Device tables of the stub drivers (kind, name).  Kinds: 0 None, 1 Camera, 2 Storage, 3 StageAxis, 4 Signals.
# Chosen to make first-match order, case folding, whole-name matching and metacharacters in names matter:
# names equal up to case to names of other drivers, names that are prefixes / extensions of others, duplicates across
# drivers, regex metacharacters, a non-ASCII name, an empty name, a long name, short names over {a,b}.
STUBS = {
    "acquire-driver-hdcam": [(1, b"Hamamatsu C15440-20UP S/N: 000123"), (1, b"cam(2)"), (1, b"SIMULATED: RADIAL SIN"),
                             (1, b"cam\xc3\xa9ra")],
    "acquire-driver-zarr": [(2, b"Zarr"), (2, b"ZarrBlosc1ZstdByteShuffle"), (2, b"ZarrBlosc1Lz4ByteShuffle"), (2, b"TIFF"),
                            (2, b"tiff-json-v2"), (2, b"Raw")],
    "acquire-driver-egrabber": [(1, b"VIEWORKS VP-151MX-M6H0"), (3, b"stage.x"), (3, b"stage+y"), (1, b"random"),
                                (3, b"Stage.X")],
    "acquire-driver-spinnaker": [(1, b"random"), (4, b"signals[0]"), (1, b"Blackfly S BFS-U3-200S6M"), (2, b"a|b"),
                                 (1, b"x"), (2, b"trash")],
    "acquire-driver-pvcam": [(4, b"DAQ: dev1/ao0"), (1, b"Kinetix 22"), (2, b"raw"), (0, b"a device of kind None"),
                             (1, b""), (1, b"abab"), (1, b"abba"), (1, b"aab"),
                             (2, b"a rather long storage device name, 64 bytes long, for the matcher..")],
}
ABSENT_FLAVOURS = ["missing", "missing", "garbage", "noentry", "initfail"]
SAN = ["-fsanitize=address,undefined", "-fno-sanitize-recover=all", "-fno-omit-frame-pointer"]
# -fno-sanitize=signed-integer-overflow: libstdc++'s own _Compiler::_M_cur_int_value (bits/regex_compiler.tcc:589) overflows a
#   long on a{99999999999999999999}; it is a header template instantiated inside device.manager.cpp, harmless without UBSan
#   (the call still ends in Device_Err) and not a defect of the repository.
# -fno-sanitize=enum: the harness passes kinds outside 0..7 on purpose ("unknown kinds").
NOSAN = ["-fno-sanitize=signed-integer-overflow,enum"]
UNKNOWN_KINDS = [5, 6, 7, 99, 255, 256, 2 ** 31, 2 ** 32 - 1]
BIG_INDEX = [255, 256, 65535, 65536, 2 ** 31, 2 ** 32 - 1]
SPECIAL = b"^$\\.*+?()[]{}|"


# ============================================================================= build
def lib_order(ctx):
    """The fixed driver order is read from the source: the driver_load("...") calls of DeviceManagerV0::init."""
    src = open(os.path.join(vlib.REPO, HAL, "device.manager.cpp")).read()
    names = re.findall(r'driver_load\(\s*"([^"]+)"', src)
    if not names:
        ctx.broken_tie("cannot find the driver_load(...) calls in device.manager.cpp; using the recorded library order", "")
        return list(DEFAULT_LIBS)
    return names


def write_tables(path, table):
    rows = []
    for kind, name in table:
        body = ",".join("0x%02x" % b for b in name) + ("," if name else "") + "0"
        rows.append("  { %du, { %s } }" % (kind, body))
    with open(path, "w") as f:
        f.write("static const struct stub_dev stub_devs[] = {\n%s\n};\nstatic const unsigned stub_n = %d;\n"
                % (",\n".join(rows), len(table)))


def cc_shared(ctx, sources, out, flags=(), timeout=600):
    """Compile and link a shared library with the same flags ctx.cc uses (plus -fPIC -shared)."""
    objs, procs = [], []
    tag = os.path.basename(out)
    for i, s in enumerate(sources):
        o = os.path.join(ctx.bdir, "%s.%d.o" % (tag, i))
        iscxx = s.endswith((".cpp", ".cc", ".cxx"))
        cmd = (["g++", "-std=gnu++20"] if iscxx else ["gcc", "-std=gnu11"]) + ["-O1", "-g", "-mavx2", "-w", "-fPIC"] + SAN + \
            list(flags) + ["-c", s, "-o", o]
        procs.append((subprocess.Popen(cmd, stdout=subprocess.PIPE, stderr=subprocess.PIPE, text=True), s))
        objs.append(o)
    for p, s in procs:
        try:
            o, e = p.communicate(timeout=timeout)
        except subprocess.TimeoutExpired:
            p.kill()
            raise vlib.BuildError("compile timeout: " + s)
        if p.returncode != 0:
            raise vlib.BuildError("compiling %s failed:\n%s" % (s, (o + e)[-3000:]))
    rc, o, e = vlib.sh(["g++", "-shared"] + SAN + objs + ["-o", out, "-lm", "-pthread", "-ldl"], timeout=timeout)
    if rc != 0:
        raise vlib.BuildError("link of %s failed:\n%s" % (out, (o + e)[-3000:]))
    return out


def common_sources():
    R = vlib.REPO
    srcs = [os.path.join(R, DRV, "basics.driver.c"),
            os.path.join(R, DRV, "simcams/3rdParty/pcg-c-basic-0.9/pcg_basic.c"),
            os.path.join(R, CORE, "acquire-core-logger/logger.c"),
            os.path.join(R, CORE, "acquire-core-platform/linux/platform.c")]
    for d, skip in ((DRV + "/simcams", ("bin2.",)), (DRV + "/storage", ()), (CORE + "/acquire-device-properties/device/props", ())):
        for fn in sorted(os.listdir(os.path.join(R, d))):
            if fn.endswith((".c", ".cpp")) and not fn.startswith(skip):
                srcs.append(os.path.join(R, d, fn))
    return srcs


def build(ctx, libs):
    here = os.path.join(ctx.famdir, "harness")
    inc = ["-I" + os.path.join(vlib.REPO, d) for d in INC_DIRS]
    libdir = os.path.join(ctx.bdir, "libs")
    os.makedirs(libdir, exist_ok=True)
    jobs = []
    res = {}

    def j_orac():
        res["orac"] = ctx.oracle_build()

    def j_exe():
        res["exe"] = ctx.cc([os.path.join(here, "h_select.cpp"), HAL + "/device.manager.cpp", HAL + "/loader.c", HAL + "/driver.c",
                             CORE + "/acquire-device-properties/device/props/device.c",
                             CORE + "/acquire-core-platform/linux/platform.c", CORE + "/acquire-core-logger/logger.c"],
                            "h_select", flags=inc + NOSAN)

    def j_probe():
        res["probe"] = ctx.cc([os.path.join(here, "probe.c")], "probe", flags=inc)

    def j_common():
        cc_shared(ctx, common_sources(), os.path.join(libdir, COMMON + ".so"), flags=inc)

    jobs += [j_orac, j_exe, j_probe, j_common]
    stub_c = os.path.join(here, "stub_driver.c")
    for lib in libs:
        if lib in STUBS:
            tdir = os.path.join(ctx.bdir, "tables", lib)
            os.makedirs(tdir, exist_ok=True)
            write_tables(os.path.join(tdir, "stub_tables.h"), STUBS[lib])
            for variant, d in (("", []), (".empty", ["-DSTUB_EMPTY"])):
                jobs.append(lambda lib=lib, variant=variant, d=d, tdir=tdir:
                            cc_shared(ctx, [stub_c], os.path.join(libdir, lib + variant + ".so"), flags=inc + ["-I" + tdir] + d))
    anyt = os.path.join(ctx.bdir, "tables", "_any")
    os.makedirs(anyt, exist_ok=True)
    write_tables(os.path.join(anyt, "stub_tables.h"), [(1, b"unused")])
    for variant, d in (("noentry", ["-DSTUB_NOENTRY"]), ("initfail", ["-DSTUB_INITFAIL"])):
        jobs.append(lambda variant=variant, d=d: cc_shared(ctx, [stub_c], os.path.join(libdir, "_" + variant + ".so"),
                                                             flags=inc + ["-I" + anyt] + d))
    with open(os.path.join(libdir, "_garbage.so"), "w") as f:
        f.write("this is not an ELF shared object\n")
    with open(os.path.join(ctx.bdir, "lsan.supp"), "w") as f:
        # devices are owned by the drivers; what a driver leaks when a device is opened and closed is not C12's business
        # (side_by_side_tiff_destroy never frees its object).  The loader's and the manager's own allocations stay checked.
        f.write("leak:driver_open_device\n")
    vlib.parallel(lambda j: j(), jobs)
    return res["orac"], res["exe"], res["probe"], libdir


def run_env(ctx, watchdog):
    return {"ASAN_OPTIONS": "detect_leaks=1:exitcode=1:allocator_may_return_null=1",
            "LSAN_OPTIONS": "suppressions=%s:print_suppressions=0" % os.path.join(ctx.bdir, "lsan.supp"),
            "UBSAN_OPTIONS": "print_stacktrace=1", "H_SELECT_WATCHDOG_S": str(watchdog)}


def probe_lib(ctx, probe, path):
    rc, o, e = vlib.sh([probe, path], timeout=60, env={"ASAN_OPTIONS": "detect_leaks=0"})
    lines = o.split("\n")
    if rc != 0 or not lines or not lines[0].startswith("N "):
        return None, (o + e)[-1500:]
    devs = []
    for l in lines[1:]:
        w = l.split()
        if w and w[0] == "D":
            devs.append({"i": int(w[1]), "st": int(w[2]), "dev": int(w[3]), "kind": int(w[4]),
                         "name": b"" if w[5] == "-" else bytes.fromhex(w[5])})
    return devs, ""


def hexs(b):
    return b.hex() if b else "-"


class Config:
    """One presence configuration: library name -> flavour (present | empty | missing | garbage | noentry | initfail)."""

    def __init__(self, libs, flav, tables):
        self.libs = libs
        self.flav = dict(flav)
        self.tables = tables
        self.mask = sum(1 << i for i, l in enumerate(libs) if self.flav[l] in ("present", "empty"))
        self.name = "m%02d-" % self.mask + "".join({"present": "P", "empty": "E", "missing": "-", "garbage": "g", "noentry": "n",
                                                    "initfail": "i"}[self.flav[l]] for l in libs)
        self.dir = None
        # expected enumeration, computed directly from the per-library probes: concatenation in library order
        self.enum = []
        self.slot_tables = []
        for s, l in enumerate(libs):
            if self.flav[l] == "present":
                t = tables[l]
                self.slot_tables.append(t)
                for d in t:
                    self.enum.append((s, d["dev"], d["kind"], d["name"]))
            elif self.flav[l] == "empty":
                self.slot_tables.append([])
            else:
                self.slot_tables.append(None)

    def model_lines(self):
        out = ["reset"]
        for t in self.slot_tables:
            if t is None:
                out.append("slot absent")
            else:
                out.append("slot %d" % len(t) + "".join(" %d %s" % (d["kind"], hexs(d["name"])) for d in t))
        return out

    def describe(self):
        return {l: self.flav[l] for l in self.libs}

    def materialise(self, ctx, exe, libdir):
        d = os.path.join(ctx.bdir, "cfg", self.name)
        if os.path.isdir(d):
            self.dir = d
            return
        os.makedirs(d)
        link(exe, os.path.join(d, "h_select"))
        for l in self.libs:
            f = self.flav[l]
            src = {"present": l + ".so", "empty": l + ".empty.so", "garbage": "_garbage.so", "noentry": "_noentry.so",
                   "initfail": "_initfail.so"}.get(f)
            if src:
                link(os.path.join(libdir, src), os.path.join(d, "lib" + l + ".so"))
        self.dir = d


def link(src, dst):
    try:
        os.link(src, dst)       # a hard link: realpath() in path_to_current_module keeps the configuration directory
    except OSError:
        shutil.copy2(src, dst)


def make_config(libs, tables, mask, rng):
    flav = {}
    for i, l in enumerate(libs):
        if (mask >> i) & 1 and l in tables:
            flav[l] = "empty" if (l != COMMON and rng.random() < 0.12) else "present"
        else:
            flav[l] = rng.choice(ABSENT_FLAVOURS)
    return Config(libs, flav, tables)


# ============================================================================= regex ASTs and their ECMAScript syntax
def esc_lit(bs):
    out = bytearray()
    for c in bs:
        if c in SPECIAL:
            out += b"\\"
        out.append(c)
    return bytes(out)


def esc_cls(c):
    return (b"\\" if c in b"\\]^[-" else b"") + bytes([c])


def is_atom(a):
    return a[0] in ("any", "cls", "grp") or (a[0] == "lit" and len(a[1]) == 1)


def pr(a):
    t = a[0]
    if t == "lit":
        return esc_lit(a[1])
    if t == "any":
        return b"."
    if t == "cls":
        return b"[" + (b"^" if a[1] else b"") + b"".join(esc_cls(lo) if lo == hi else esc_cls(lo) + b"-" + esc_cls(hi)
                                                           for lo, hi in a[2]) + b"]"
    if t == "cat":
        return b"".join(pr(("grp", x, False)) if x[0] == "alt" else pr(x) for x in a[1])
    if t == "alt":
        return b"|".join(pr(x) for x in a[1])
    if t == "grp":
        return (b"(" if a[2] else b"(?:") + pr(a[1]) + b")"
    if t in ("star", "plus", "opt"):
        x = a[1]
        if not is_atom(x):
            x = ("grp", x, False)
        return pr(x) + {"star": b"*", "plus": b"+", "opt": b"?"}[t]
    raise ValueError(t)


def randcase(rng, bs):
    return bytes((c ^ 0x20) if (65 <= (c & 0xDF) <= 90 and c < 128 and rng.random() < 0.4) else c for c in bs)


def foldb(c):
    return c + 32 if 65 <= c <= 90 else c


JUNK = b"qQzZ7_#@~"


def gen_cls(rng, c):
    """A bracket expression that contains byte c (or a negated one that does not)."""
    if c >= 127 or c < 32:
        return ("any",)
    r = rng.random()
    if r < 0.35:
        items = [(c ^ 0x20, c ^ 0x20) if (65 <= (c & 0xDF) <= 90 and rng.random() < 0.5) else (c, c)]
        for _ in range(rng.randint(0, 3)):
            x = rng.randint(33, 126)
            items.append((x, x))
        rng.shuffle(items)
        return ("cls", False, items)
    if r < 0.75:
        lo = max(32, c - rng.randint(0, 6))
        hi = min(126, c + rng.randint(0, 6))
        if 65 <= (c & 0xDF) <= 90 and rng.random() < 0.4:       # a range in the other case: folding must find it
            lo, hi = max(32, min(lo ^ 0x20, hi ^ 0x20)), min(126, max(lo ^ 0x20, hi ^ 0x20))
            if not (lo <= (c ^ 0x20) <= hi):
                lo, hi = c ^ 0x20, c ^ 0x20
        items = [(lo, hi)]
        if rng.random() < 0.3:
            x = rng.randint(33, 126)
            items.insert(rng.randint(0, 1), (x, x))
        return ("cls", False, items)
    items = []
    for _ in range(rng.randint(1, 3)):
        x = rng.randint(33, 126)
        if foldb(x) != foldb(c):
            y = min(126, x + rng.randint(0, 2))
            if all(foldb(z) != foldb(c) for z in range(x, y + 1)):
                items.append((x, y))
    if not items:
        return ("any",)
    return ("cls", True, items)


def gen_from_name(rng, name, tame=False):
    """Generalise a device name into a pattern that matches it (and possibly others).  tame: no wide quantifiers."""
    parts = []
    i, n, wide = 0, len(name), 0
    while i < n:
        r = rng.random()
        c = name[i]
        if r < 0.40:
            j = min(n, i + rng.randint(1, 6))
            parts.append(("lit", randcase(rng, name[i:j])))
            i = j
        elif r < 0.50:
            parts.append(("any",))
            i += 1
        elif r < 0.60:
            if wide < 3 and not tame:
                wide += 1
                if rng.random() < 0.7:
                    parts.append(("star", ("any",)))
                    i += rng.randint(0, n - i)
                else:
                    parts.append(("plus", ("any",)))
                    i += rng.randint(1, n - i)
            else:
                parts.append(("any",))
                i += 1
        elif r < 0.72:
            parts.append(gen_cls(rng, c))
            i += 1
        elif r < 0.80:
            j = min(n, i + rng.randint(1, 4))
            alts = [("lit", randcase(rng, name[i:j])), ("lit", bytes(rng.choice(JUNK) for _ in range(rng.randint(0, 3))))]
            rng.shuffle(alts)
            parts.append(("grp", ("alt", alts), rng.random() < 0.5))
            i = j
        elif r < 0.86:
            parts.append(("opt", ("lit", bytes([rng.choice(JUNK)]))))
        elif r < 0.92:
            j = i
            while j < n and foldb(name[j]) == foldb(c):
                j += 1
            parts.append((rng.choice(["plus", "star"]), ("lit", randcase(rng, bytes([c])))))
            i = j
        elif r < 0.96:
            parts.append(("star", ("lit", bytes([rng.choice(JUNK)]))))
        else:
            j = min(n, i + rng.randint(1, 3))
            parts.append((rng.choice(["star", "plus", "opt"]) if not tame else "opt", ("grp", ("lit", randcase(rng, name[i:j])), False)))
            i = j
    return ("cat", parts)


def damage(rng, ast, names):
    """Turn a matching pattern into one that (probably) matches only a part of the name, or something else."""
    parts = list(ast[1])
    r = rng.random()
    if not parts:
        return ast
    if r < 0.2:
        parts = parts[1:]
    elif r < 0.4:
        parts = parts[:-1]
    elif r < 0.55 and len(parts) > 2:
        del parts[rng.randrange(1, len(parts) - 1)]
    elif r < 0.7:
        parts.insert(rng.randint(0, len(parts)), ("lit", bytes([rng.choice(JUNK)])))
    elif r < 0.85 and names:
        other = rng.choice(names)
        alts = [("cat", parts), ("lit", randcase(rng, other))]
        rng.shuffle(alts)
        return ("cat", [("alt", alts)])
    else:
        parts = parts + [("lit", bytes([rng.choice(JUNK)]))] if rng.random() < 0.5 else [("any",)] + parts
    return ("cat", parts)


def gen_ab(rng, depth, qdepth=0):
    """Random expressions over {a,b}: alternation / star nesting against the short names abab, abba, aab."""
    r = rng.random()
    if depth == 0 or r < 0.3:
        return ("lit", bytes(rng.choice(b"abAB") for _ in range(rng.randint(1, 2))))
    if r < 0.45:
        return ("cat", [gen_ab(rng, depth - 1, qdepth) for _ in range(rng.randint(2, 3))])
    if r < 0.6:
        return ("grp", ("alt", [gen_ab(rng, depth - 1, qdepth) for _ in range(rng.randint(2, 3))]), rng.random() < 0.5)
    if r < 0.75:
        return ("star", gen_ab(rng, depth - 1, qdepth + 1))
    if r < 0.85:
        return ("plus", gen_ab(rng, depth - 1, qdepth + 1))
    if r < 0.92:
        return ("opt", gen_ab(rng, depth - 1, qdepth + 1))
    if r < 0.96 or qdepth > 0:
        return ("cls", False, [(97, 98)] if rng.random() < 0.5 else [(65, 65), (98, 98)])
    return ("any",)


def safe_lit(bs):
    """No regex metacharacter, no NUL: the pattern is a literal in every regex dialect."""
    return all(c != 0 and c not in SPECIAL for c in bs)


# ============================================================================= operation generators
def mk_sel(kind, pat, stream, py=None):
    return {"op": "sel %d %s" % (kind, hexs(pat)), "kind": kind, "pat": pat, "py": py, "stream": stream}


def pick_kind(rng, cfg):
    kinds = sorted({e[2] for e in cfg.enum})
    r = rng.random()
    if r < 0.07 or not kinds:
        return rng.choice(UNKNOWN_KINDS + [0, 3, 4])
    return rng.choice(kinds)


def all_names(tables):
    return sorted({d["name"] for t in tables.values() for d in t})


def stream_i(rng, cfg, names_all):
    kind = pick_kind(rng, cfg)
    of_kind = [e[3] for e in cfg.enum if e[2] == kind]
    r = rng.random()
    if r < 0.12:
        ast = gen_ab(rng, 3)
        kind = 1 if rng.random() < 0.8 else kind
    else:
        name = rng.choice(of_kind) if of_kind and rng.random() < 0.85 else rng.choice(names_all)
        ast = gen_from_name(rng, name)
        if rng.random() < 0.35:
            ast = damage(rng, ast, of_kind or names_all)
    pat = pr(ast)[:255]
    if len(pr(ast)) > 255:
        return None
    return mk_sel(kind, pat, "i:ast", py=pat)


def stream_ii(rng, cfg, names_all):
    kind = pick_kind(rng, cfg)
    of_kind = [e[3] for e in cfg.enum if e[2] == kind]
    name = rng.choice(of_kind) if of_kind and rng.random() < 0.85 else rng.choice(names_all)
    n = len(name)
    r = rng.random()
    py = "auto"
    if r < 0.10:
        p, what = name, "name"
    elif r < 0.22:
        p, what = rng.choice([name.swapcase(), name.upper(), name.lower(), randcase(rng, name)]), "case"
    elif r < 0.36 and n > 1:
        i = rng.randint(0, n - 1)
        j = rng.randint(i + 1, n)
        p, what = randcase(rng, name[i:j]) if rng.random() < 0.5 else name[i:j], "substring"
    elif r < 0.42:
        k = rng.randint(0, n)
        p, what = name[:k] + bytes([rng.choice(JUNK)]) + name[k:], "extra-char"
    elif r < 0.47 and n > 0:
        k = rng.randrange(n)
        p, what = name[:k] + name[k + 1:], "dropped-char"
    elif r < 0.60:
        base = name if rng.random() < 0.6 else randcase(rng, name)
        p, what = base + b"\0" * rng.randint(1, 4), "nul-padded"
    elif r < 0.66:
        k = rng.randint(0, n)
        p, what = name[:k] + b"\0" + name[k:], "nul-embedded"
        py = None
    elif r < 0.71:
        k = rng.randint(0, n)
        p, what = name[:k] + b"\0" + name[k:] + b"\0" * rng.randint(1, 2), "nul-embedded-and-padded"
        py = None
    elif r < 0.76:
        p, what = name + b"\0" + bytes(rng.choice(b"()[*\\ab") for _ in range(rng.randint(1, 6))), "nul-then-garbage"
        py = None
    elif r < 0.80:
        p, what = b"\0" * rng.randint(1, 3) + (name if rng.random() < 0.5 else b""), "nul-first"
        py = None
    elif r < 0.88:
        p, what = esc_lit(randcase(rng, name)) + (b"\0" * rng.randint(0, 2)), "escaped-name"
        py = p.rstrip(b"\0")
    elif r < 0.94 and n > 0:
        i = rng.randint(0, n - 1)
        j = rng.randint(i + 1, n)
        sub = esc_lit(randcase(rng, name[i:j]))
        p = rng.choice([b".*" + sub + b".*", sub + b".*", b".*" + sub])
        what, py = "dotstar-substring", p
    else:
        other = rng.choice(names_all)
        p = esc_lit(name) + b"|" + esc_lit(other)
        what, py = "two-names", p
    p = p[:255]
    if py == "auto":
        q = p.rstrip(b"\0") if p.endswith(b"\0") else p
        py = q if safe_lit(q) else None
    elif py is not None and len(py) > 255:
        py = None
    return mk_sel(kind, p, "ii:" + what, py=py)


MALFORMATIONS = ["drop-close", "drop-open", "add-open", "add-close", "drop-rbracket", "add-lbracket", "lead-quant", "quant-after-open",
                 "trail-backslash", "bad-hex", "bad-u", "trail-c", "brace", "bad-group", "rev-range", "empty-class", "dash-class",
                 "posix-class", "backref", "stacked-quant", "huge-count", "anchor"]


def stream_iii(rng, cfg, names_all):
    kind = pick_kind(rng, cfg)
    of_kind = [e[3] for e in cfg.enum if e[2] == kind]
    name = rng.choice(of_kind) if of_kind and rng.random() < 0.8 else rng.choice(names_all)
    p = bytearray(pr(gen_from_name(rng, name, tame=True)))
    what = rng.choice(MALFORMATIONS)

    def pos(chars):
        c = [k for k, x in enumerate(p) if x in chars and (k == 0 or p[k - 1] != 0x5c)]
        return rng.choice(c) if c else None

    ins = rng.randint(0, len(p))
    if what == "drop-close":
        k = pos(b")")
        if k is None:
            p[ins:ins] = b"("
        else:
            del p[k]
    elif what == "drop-open":
        k = pos(b"(")
        if k is None:
            p[ins:ins] = b")"
        else:
            del p[k]
            if p[k:k + 2] == b"?:":
                del p[k:k + 2]
    elif what == "add-open":
        p[ins:ins] = rng.choice([b"(", b"(?:", b"(("])
    elif what == "add-close":
        p[ins:ins] = b")"
    elif what == "drop-rbracket":
        k = pos(b"]")
        if k is None:
            p[ins:ins] = b"[ab"
        else:
            del p[k]
    elif what == "add-lbracket":
        p[ins:ins] = rng.choice([b"[", b"[^", b"[a-"])
    elif what == "lead-quant":
        p[0:0] = rng.choice([b"*", b"+", b"?"])
    elif what == "quant-after-open":
        p += rng.choice([b"(*a)", b"|+", b"(?:?)", b"a|*b", b"(|*)"])
    elif what == "trail-backslash":
        p += b"\\"
    elif what == "bad-hex":
        p[ins:ins] = rng.choice([b"\\xZZ", b"\\x4", b"\\x", b"\\xg0"])
    elif what == "bad-u":
        p[ins:ins] = rng.choice([b"\\u12", b"\\u", b"\\u00g0"])
    elif what == "trail-c":
        p += b"\\c"
    elif what == "brace":
        p += rng.choice([b"{", b"a{", b"a{2", b"a{2,1}", b"a{,}", b"a{x}", b"{2}", b"a{2}{3}", b"a{1,2}", b"}", b"a{0}"])
    elif what == "bad-group":
        p[ins:ins] = rng.choice([b"(?", b"(?<n>a)", b"(?i)", b"(?#c)", b"(?=a)", b"(?!a)", b"(?P<n>a)", b"(?x"])
    elif what == "rev-range":
        p[ins:ins] = rng.choice([b"[z-a]", b"[9-0]", b"[b-a]", b"[a-Z]"])
    elif what == "empty-class":
        p[ins:ins] = rng.choice([b"[]", b"[^]", b"[]a]", b"[^]a]"])
    elif what == "dash-class":
        p[ins:ins] = rng.choice([b"[a-]", b"[-a]", b"[a-c-e]", b"[--/]", b"[a\\-z]", b"[\\w-z]", b"[a-\\d]"])
    elif what == "posix-class":
        p[ins:ins] = rng.choice([b"[[:alpha:]]", b"[[:foo:]]", b"[[.a.]]", b"[[.xyz.]]", b"[[=a=]]", b"[[:alpha:]", b"[[", b"[[.x"])
    elif what == "backref":
        p[ins:ins] = rng.choice([b"\\1", b"\\9", b"(a)\\1", b"\\0", b"\\99999999999999999999", b"\\d", b"\\w+", b"\\b", b"\\S"])
    elif what == "stacked-quant":
        # only after a single ordinary character: stacked quantifiers over wide atoms backtrack exponentially in std::regex
        p += rng.choice([b"q**", b"q+?", b"q?+", b"q*?", b"q??", b"q+*"])
    elif what == "huge-count":
        p += rng.choice([b"a{99999999999999999999}", b"a{2147483647}", b"(a{1000}){1000}", b"a{65535}", b"a{0,99999999999}"])
    elif what == "anchor":
        p[ins:ins] = rng.choice([b"^", b"$", b"^$", b"\\B"])
    return mk_sel(kind, bytes(p[:255]), "iii:" + what, py=None)


def stream_iv(rng, cfg, names_all):
    kind = pick_kind(rng, cfg)
    r = rng.random()
    n = rng.choice([rng.randint(0, 8), rng.randint(0, 40), rng.randint(0, 255), 255, 254])
    if r < 0.3:
        p, what = bytes(rng.randrange(256) for _ in range(n)), "uniform"
    elif r < 0.5:
        p, what = bytes(rng.randrange(1, 256) for _ in range(n)), "uniform-nonzero"
    elif r < 0.8:
        alpha = b"()[]{}|*+?.\\^$-ab01,:=!" + (b"\0" if rng.random() < 0.2 else b"")
        p, what = bytes(rng.choice(alpha) for _ in range(min(n, rng.randint(0, 24)))), "specials"
    else:
        unit = rng.choice([b"(", b")", b"[", b"]", b"\\", b"a|", b"(a)", b"(?:", b"[a", b"a-", b"|", b".", b"\\\\", b"[^", b"{", b"a{1}",
                           b"()", b"(a|b)", b"\\("])
        p, what = (unit * 300)[:n], "repeated"
        if rng.random() < 0.3 and unit == b"(":
            k = min(n // 2, 126)
            p = b"(" * k + b"a" + b")" * k
    return mk_sel(kind, p, "iv:" + what, py=None)


def phase_a_ops(cfg):
    ops = [{"op": "count"}]
    n = len(cfg.enum)
    for i in list(range(n + 3)) + BIG_INDEX:
        ops.append({"op": "get %d" % i})
    for i in list(range(n + 2)) + [255, 2 ** 32 - 1]:
        ops.append({"op": "open %d" % i})
    for s in list(range(len(cfg.libs) + 2)) + [255]:
        t = cfg.slot_tables[s] if s < len(cfg.slot_tables) else None
        m = len(t) if t else 0
        for dv in sorted({0, max(0, m - 1), m, m + 1, 255}):
            ops.append({"op": "openid %d %d" % (s, dv)})
    for k in list(range(8)) + UNKNOWN_KINDS:
        ops.append({"op": "first %d" % k, "kind": k, "py": b""})
        ops.append({"op": "default %d" % k, "kind": k})
        ops.append({"op": "seln %d 0" % k, "kind": k, "py": b""})
        ops.append({"op": "seln %d %d" % (k, 1 + k % 7), "kind": k})
        ops.append({"op": "sel %d -" % k, "kind": k, "pat": b"", "py": b"", "stream": "empty"})
    return ops


def gen_sel_ops(rng, cfg, names_all, n, ctx):
    ops = []
    while len(ops) < n:
        r = rng.random()
        g = stream_i if r < 0.45 else stream_ii if r < 0.70 else stream_iii if r < 0.85 else stream_iv
        o = g(rng, cfg, names_all)
        if o is None:
            continue
        ops.append(o)
        ctx.count("stream:" + o["stream"].split(":")[0])
        ctx.count("gen:" + o["stream"])
        ctx.count("len:%s" % ("0" if not o["pat"] else "1-8" if len(o["pat"]) <= 8 else "9-40" if len(o["pat"]) <= 40 else
                              "41-254" if len(o["pat"]) < 255 else "255"))
        ctx.count("kind:%s" % (o["kind"] if o["kind"] < 8 else "big"))
    return ops


# ============================================================================= runners
def run_model(orac, cfg, ops):
    rc, o, e = vlib.sh([orac], inp="\n".join(cfg.model_lines() + [x["op"] for x in ops]) + "\n", timeout=600)
    lines = o.split("\n")
    if lines and lines[-1] == "":
        lines.pop()
    return rc, lines, e


def run_impl(ctx, cfg, ops, watchdog=5, timeout=900, two=False):
    """Feed ops to the harness in the configuration directory.  Returns (result lines, incidents).
    A crash / terminate / watchdog is attributed to the first operation without output; the rest is re-run in a fresh child."""
    exe = os.path.join(cfg.dir, "h_select")
    res = [None] * len(ops)
    incidents = []
    start = 0
    env = run_env(ctx, watchdog)
    if two:
        env["H_SELECT_TWO_MANAGERS"] = "1"      # manager A created and destroyed around the creation of B; the ops go to B
    for _ in range(12):
        if start >= len(ops):
            break
        rc, o, e = vlib.sh([exe], inp="\n".join(x["op"] for x in ops[start:]) + "\n", timeout=timeout, env=env, cwd=cfg.dir)
        lines = o.split("\n")
        if lines and lines[-1] == "":
            lines.pop()
        if not lines or lines[0] != "INIT ok":
            incidents.append({"at": None, "what": "init", "rc": rc, "detail": "\n".join(lines[:3]) + "\n" + (e or "")[-2000:]})
            break
        k = 0
        stop = None
        destroy = None
        for l in lines[1:]:
            if l.startswith("DESTROY"):
                destroy = l
                break
            if l == "TIMEOUT":
                stop = "timeout"
                break
            if l.startswith("TERMINATE"):
                stop = "terminate"
                break
            if k >= len(ops) - start:
                break
            res[start + k] = l
            k += 1
        if k == len(ops) - start and stop is None:
            if rc != 0 or destroy is None or not destroy.startswith("DESTROY ok"):
                incidents.append({"at": None, "what": "exit", "rc": rc, "detail": (destroy or "(no DESTROY line)") + "\n" + (e or "")[-3000:]})
            break
        if stop is None:
            stop = "timeout" if rc == 124 else "crash"
        incidents.append({"at": start + k, "what": stop, "rc": rc, "detail": (e or "")[-3000:]})
        start = start + k + 1
    return res, incidents


# ============================================================================= the independent property oracle
def parse_s(line):
    w = line.split()
    if len(w) == 2 and w[0] == "S" and w[1] == "err":
        return "err", None
    if len(w) == 6 and w[0] == "S" and w[1] == "ok":
        return "ok", (int(w[2]), int(w[3]), int(w[4]), b"" if w[5] == "-" else bytes.fromhex(w[5]))
    return "bad", None


def py_match(py, name):
    with warnings.catch_warnings():
        warnings.simplefilter("ignore")
        return re.fullmatch(py, name, re.IGNORECASE) is not None


def prop_oracle(cfg, o, line):
    """C12 stated directly over the implementation's output line for one operation.  Expected values come from the
    per-library probes (cfg.enum) and, for patterns in the common fragment, from Python's re.fullmatch(..., IGNORECASE).
    Returns [(key, message)]."""
    v = []
    if line is None:
        return v
    w = line.split()
    op = o["op"].split()
    if len(w) > 1 and w[1] == "exception":
        return [("exception-escaped", "a C++ exception crossed the C API: %s -> %s" % (o["op"], line))]
    enum = cfg.enum
    if op[0] == "count":
        if line != "C %d" % len(enum):
            v.append(("enumeration-count", "device_manager_count says '%s'; the present libraries describe %d devices" % (line, len(enum))))
    elif op[0] == "get":
        i = int(op[1])
        exp = "G ok %d %d %d %s" % (enum[i][0], enum[i][1], enum[i][2], hexs(enum[i][3])) if i < len(enum) else "G err"
        if line != exp:
            v.append(("get-out-of-range" if i >= len(enum) else "enumeration-get",
                      "device_manager_get(%d) gave '%s', expected '%s' (concatenation of the present drivers' describe())" % (i, line, exp)))
    elif op[0] in ("sel", "seln", "first", "default"):
        k = o["kind"]
        st, d = parse_s(line)
        if st == "bad":
            return [("bad-status", "%s -> unexpected result '%s'" % (o["op"], line))]
        if st == "ok" and (d not in enum or d[2] != k):
            v.append(("select-not-enumerated", "%s returned (%d,%d,kind %d,%r): not an enumerated identifier of kind %d"
                      % (o["op"], d[0], d[1], d[2], d[3], k)))
            return v
        if op[0] == "seln" and int(op[2]) != 0 and st != "err":
            v.append(("null-name", "NULL name with bytes_of_name=%s did not fail: %s" % (op[2], line)))
        py = o.get("py")
        if py is not None and not (op[0] == "seln" and int(op[2]) != 0):
            try:
                exp = next((e for e in enum if e[2] == k and (py == b"" or py_match(py, e[3]))), None)
            except re.error:
                return v
            if (exp is None and st == "ok") or (exp is not None and (st != "ok" or d != exp)):
                cls = "mismatch"
                pat = o.get("pat") or b""
                if pat.endswith(b"\0"):
                    cls = "nul-padding"
                elif st == "ok" and exp is not None and py != b"" and py_match(py, d[3]):
                    cls = "not-first"
                elif st == "ok" and py != b"" and re.search(py, d[3], re.IGNORECASE):
                    cls = "substring"
                elif st == "err" and exp is not None and py != b"" and re.fullmatch(py, exp[3]) is None:
                    cls = "case"
                elif py == b"":
                    cls = "empty-pattern"
                v.append(("first-match:" + cls,
                          "%s (pattern %r, kind %d): implementation says '%s'; the first enumerated identifier of that kind whose whole name "
                          "matches case-insensitively is %s" % (o["op"], pat, k, line, "none" if exp is None else repr(exp))))
    elif op[0] == "open":
        i = int(op[1])
        exp = "O ok %d %d %s" % (enum[i][1], enum[i][2], hexs(enum[i][3])) if i < len(enum) else "O err"
        if line != exp:
            v.append(("open-disagrees", "opening what device_manager_get(%d) returned gave '%s', expected '%s'" % (i, line, exp)))
    elif op[0] == "openid":
        s, dv = int(op[1]), int(op[2])
        t = cfg.slot_tables[s] if s < len(cfg.slot_tables) else None
        exp = "O ok %d %d %s" % (t[dv]["dev"], t[dv]["kind"], hexs(t[dv]["name"])) if t and dv < len(t) else "O err"
        if line != exp:
            v.append(("open-bad-id", "opening the identifier (driver %d, device %d) gave '%s', expected '%s'" % (s, dv, line, exp)))
    return v


def weak_ok(cfg, o, line):
    st, d = parse_s(line)
    return st == "err" or (st == "ok" and d in cfg.enum and d[2] == o["kind"])


# ============================================================================= folding one configuration
def replay_obj(ctx, cfg, o, line, extra=None):
    r = {"configuration": cfg.describe(), "directory": os.path.relpath(cfg.dir, vlib.VERIF), "op": o["op"],
         "pattern": repr(o.get("pat")), "stream": o.get("stream"), "impl_output": line,
         "how": "printf '%s\\n' | H_SELECT_WATCHDOG_S=20 %s/h_select   (built by this check from the repo under test; libraries next to it); if that "
                "passes, the failure needs a second device manager in the process: add H_SELECT_TWO_MANAGERS=1 (manager A is created first and "
                "destroyed once B exists; the operation goes to B)" % (o["op"], os.path.relpath(cfg.dir, vlib.VERIF))}
    if extra:
        r.update(extra)
    return r


def single(ctx, orac, cfg, o):
    res, inc = run_impl(ctx, cfg, [o], watchdog=20, timeout=60)
    return res[0], inc


def minimise(ctx, orac, cfg, o, key):
    """Shrink the pattern bytes of a failing sel operation, keeping the same failure class."""
    if not o["op"].startswith("sel ") or not o.get("pat"):
        return o
    incident = key in ("crash", "terminate", "exception-escaped")

    def mk(bs):
        bs = bytes(bs)
        py = None
        if o.get("py") is not None:
            py = bs.rstrip(b"\0") if bs.endswith(b"\0") else bs
        return mk_sel(o["kind"], bs, o.get("stream"), py=py)

    def fails(bs):
        c = mk(bs)
        line, inc = single(ctx, orac, cfg, c)
        if incident:
            return any(i["what"] == key for i in inc) or (line is not None and key == "exception-escaped" and "exception" in line)
        if line is None:
            return False
        if c["py"] is not None:
            # keep the shrunk pattern inside the fragment on which Python's re and ECMAScript agree (the model's parser decides)
            rc, m, _ = run_model(orac, cfg, [c])
            if rc != 0 or not m or m[0] == "S weak":
                return False
            try:
                with warnings.catch_warnings():
                    warnings.simplefilter("ignore")
                    re.compile(c["py"])
            except re.error:
                return False
        return any(k == key for k, _ in prop_oracle(cfg, c, line))

    try:
        small = vlib.ddmin(list(o["pat"]), fails, max_tests=120)
        return mk(small)
    except Exception:
        return o


def fold(ctx, orac, cfg, ops, mres, ires, incidents, label):
    rcm, mo, em = mres
    if rcm != 0 or len(mo) != len(ops):
        ctx.broken_tie("the extracted model failed on a batch", (em or "")[-600:] + " (%d lines for %d ops)" % (len(mo), len(ops)))
        mo = (mo + ["?"] * len(ops))[:len(ops)]
    for inc in incidents:
        if inc["what"] == "timeout":
            ctx.count("incident:watchdog(backtracking time, not a C12 observable)")
            if inc["at"] is not None and len(ctx.extra.setdefault("watchdog_patterns", [])) < 20:
                ctx.extra["watchdog_patterns"].append(repr(ops[inc["at"]].get("pat")))
            continue
        o = ops[inc["at"]] if inc["at"] is not None else {"op": "(process start/exit)"}
        key = {"crash": "crash", "terminate": "terminate", "init": "init-failed", "exit": "exit-status"}[inc["what"]]
        if not ctx.has_violation(key):
            if inc["at"] is not None:
                o = minimise(ctx, orac, cfg, o, key)
            what = {"crash": "the process died (sanitizer report or signal) during an operation",
                    "terminate": "std::terminate was called (an exception escaped a noexcept/C boundary)",
                    "init-failed": "device_manager_init failed or the harness died before the first operation",
                    "exit-status": "the process did not end cleanly after the last operation (leak report, failed destroy, non-zero exit)"}[key]
            ctx.violation("%s: %s [%s] rc=%s :: %s" % (what, o["op"], cfg.name, inc["rc"], inc["detail"][-700:]),
                          replay_obj(ctx, cfg, o, None, {"stderr": inc["detail"], "exit_status": inc["rc"]}), key=key)
        else:
            ctx.violation("", None, key=key)
    for o, m, line in zip(ops, mo, ires):
        if line is None:
            continue
        tag = o["op"].split()[0]
        is_sel = tag == "sel"
        weak = (m == "S weak")
        agree = weak_ok(cfg, o, line) if weak else (m == line)
        nontrivial = is_sel and bool(o.get("pat")) and (line.startswith("S ok") or any(e[2] == o["kind"] for e in cfg.enum))
        ctx.case(cfg.name + "|" + o["op"], nontrivial=nontrivial)
        ctx.count("op:" + tag)
        if is_sel:
            ctx.count("model:" + ("weak(outside fragment)" if weak else "exact-ok" if m.startswith("S ok") else "exact-err"))
            ctx.count("impl:" + ("ok" if line.startswith("S ok") else "err" if line == "S err" else "other"))
        viol = prop_oracle(cfg, o, line)
        for key, msg in viol:
            if not ctx.has_violation(key):
                small = minimise(ctx, orac, cfg, o, key)
                sl, _ = single(ctx, orac, cfg, small)
                ctx.violation(msg if small is o else "%s  [minimised to %s -> %s]" % (msg, small["op"], sl),
                              replay_obj(ctx, cfg, small, sl, {"original_op": o["op"], "original_output": line,
                                                               "model_prediction": m}), key=key)
            else:
                ctx.violation(msg, None, key=key)
        if agree:
            ctx.traces_validated += 1
        else:
            ctx.broken_tie("model/implementation disagreement on %s (%s)" % (tag, label),
                           {"configuration": cfg.describe(), "op": o["op"], "pattern": repr(o.get("pat")), "model": m, "impl": line,
                            "oracle": [k for k, _ in viol]})


# ============================================================================= run
def load_corpus(libs, tables):
    cdir = os.path.join(vlib.VERIF, "corpus", "C12")
    items = []
    if os.path.isdir(cdir):
        for fn in sorted(os.listdir(cdir)):
            if not fn.endswith(".json"):
                continue
            c = json.load(open(os.path.join(cdir, fn)))
            flav = {l: c["libs"].get(l, "missing") for l in libs}
            for l in libs:
                if flav[l] in ("present", "empty") and l not in tables:
                    flav[l] = "missing"
            ops = []
            for x in c["ops"]:
                o = {"op": x["op"]}
                w = x["op"].split()
                if w[0] in ("sel", "seln", "first", "default"):
                    o["kind"] = int(w[1])
                if w[0] == "sel":
                    o["pat"] = b"" if w[2] == "-" else bytes.fromhex(w[2])
                    o["stream"] = "corpus"
                if "py" in x and x["py"] is not None:
                    o["py"] = bytes.fromhex(x["py"])
                elif w[0] in ("first",) or (w[0] == "seln" and w[2] == "0"):
                    o["py"] = b""
                ops.append(o)
            items.append((fn, flav, ops))
    return items


def run(ctx):
    ctx.coq_prove(["Properties_C12"])
    thorough = ctx.tier == "thorough"
    libs = lib_order(ctx)
    orac, exe, probe, libdir = build(ctx, libs)
    ctx.log("built oracle, harness, probe, %d libraries" % len(os.listdir(libdir)))

    # ground truth per library, without the repository's loader and device manager
    tables = {}
    for l in libs:
        path = os.path.join(libdir, l + ".so")
        if not os.path.exists(path):
            continue
        devs, err = probe_lib(ctx, probe, path)
        if devs is None:
            ctx.broken_tie("the probe could not load %s" % l, err)
            continue
        tables[l] = devs
        bad = [d for d in devs if d["st"] != 0 or d["dev"] != d["i"]]
        if bad:
            ctx.violation("driver %s breaks the driver contract the model assumes: describe(%d) -> status %d, device_id %d"
                          % (l, bad[0]["i"], bad[0]["st"], bad[0]["dev"]), {"library": l, "probe": [dict(d, name=repr(d["name"])) for d in devs]},
                          key="describe-contract")
        if l in STUBS and [(d["kind"], d["name"]) for d in devs] != STUBS[l]:
            ctx.broken_tie("stub driver %s does not report its table (harness problem)" % l, "")
        if any(b in d["name"] for d in devs for b in (b"\n", b"\r")):
            ctx.notes.append("a device name of %s contains CR/LF: Python's '.' and ECMAScript's '.' differ there" % l)
    names_all = all_names(tables)
    if COMMON not in tables:
        raise vlib.BuildError("the common driver built from the working tree could not be probed")

    ctx.rule = ("per presence configuration (each library present / present-with-0-devices / missing / not-an-ELF / no entry point / init "
                "fails): count, get(i) for all in-range and out-of-range i, open of every enumerated identifier and of made-up ones, "
                "select_first/default/NULL-name for known and unknown kinds, then device_manager_select on four pattern streams: "
                "(i) printed from a regex AST derived from an enumerated name (literals with case changes, '.', bracket sets/ranges, "
                "* + ?, alternation, groups), optionally damaged so that it matches only a part; (ii) mutated names (case, substrings, "
                "NUL padding, embedded NULs, escaped); (iii) malformed (unbalanced, dangling/stacked quantifiers, bad escapes, braces, "
                "bad groups, reversed ranges); (iv) arbitrary bytes up to 255.  non-trivial = a select with a non-empty pattern on a "
                "configuration that has a device of the requested kind (or that succeeded); distinct = configuration + op text")
    ctx.assumptions = ["drivers honour the driver contract: describe(i) succeeds for i < device_count() with device_id = i (checked by a probe for "
                       "every library used); fewer than 256 devices per driver and at most 256 driver slots (uint8_t ids are not modelled as wrapping)",
                       "std::regex (libstdc++, ECMAScript, icase, \"C\" locale) is an oracle in the generic theorems; its agreement with the "
                       "verified matcher is TESTED here on the fragment, not proved",
                       "backtracking time of std::regex is not modelled: operations exceeding the per-operation watchdog are counted, not judged",
                       "device names contain no CR/LF (ECMAScript '.' excludes both, Python's only LF)",
                       "the harness is built with -fno-sanitize=signed-integer-overflow,enum (libstdc++'s own _M_cur_int_value overflows on "
                       "a{99999999999999999999}; kinds outside the enumeration are passed on purpose)"]
    ctx.trusted = vlib.default_trusted() + [
        "harness/probe.c (dlopen + describe) as ground truth for what each library enumerates; harness/stub_driver.c as the optional libraries",
        "Python's re module as the independent reference for whole-name, case-insensitive matching on the common fragment",
        "modelled, not verified: libstdc++ std::regex, dlopen/dlsym, the drivers' open()/describe()"]
    ctx.extra["library_order_from_source"] = libs
    ctx.extra["libraries_probed"] = {l: [[d["kind"], d["name"].decode("latin-1")] for d in t] for l, t in tables.items()}

    # ---------------------------------------------------------------- configurations
    nlib = len(libs)
    allmasks = list(range(1 << nlib))
    if thorough:
        masks = allmasks
    else:
        full = (1 << nlib) - 1
        masks = [full, 1, 0]
        rest = [m for m in allmasks if m not in masks]
        ctx.rng.shuffle(rest)
        masks += rest[:5]
    configs = [make_config(libs, tables, m, ctx.rng) for m in masks]
    if thorough:
        # a second round with other absent/empty flavours for a sample of masks
        extra = list(allmasks)
        ctx.rng.shuffle(extra)
        configs += [make_config(libs, tables, m, ctx.rng) for m in extra[:16]]
    seen = set()
    uniq = []
    for c in configs:
        if c.name not in seen:
            seen.add(c.name)
            uniq.append(c)
    configs = uniq
    for c in configs:
        c.materialise(ctx, exe, libdir)
        for l in libs:
            ctx.count("lib:%s=%s" % (l.replace("acquire-driver-", ""), c.flav[l]))
    ctx.extra["configurations"] = [c.name for c in configs]
    ctx.extra["presence_subsets_exercised"] = len({c.mask for c in configs})

    # ---------------------------------------------------------------- corpus first
    for fn, flav, ops in load_corpus(libs, tables):
        cfg = Config(libs, flav, tables)
        cfg.materialise(ctx, exe, libdir)
        mres = run_model(orac, cfg, ops)
        ires, inc = run_impl(ctx, cfg, ops, watchdog=20)
        fold(ctx, orac, cfg, ops, mres, ires, inc, "corpus " + fn)
        ctx.count("corpus-files")

    # ---------------------------------------------------------------- correspond + oracle
    nsel = 3200 if thorough else 1300
    chunk = 400
    work = []
    for cfg in configs:
        a = phase_a_ops(cfg)
        s = gen_sel_ops(ctx.rng, cfg, names_all, nsel, ctx)
        work.append((cfg, a + s))
    for cfg, ops in work[:2]:
        for o in [x for x in ops if x["op"].startswith("sel ") and x.get("pat")][:2]:
            ctx.sample({"configuration": cfg.name, "op": o["op"], "pattern": repr(o["pat"]), "stream": o["stream"]})

    jobs = []
    for ci, (cfg, ops) in enumerate(work):
        jobs.append(("m", ci, 0, len(ops)))
        for s in range(0, len(ops), chunk):
            jobs.append(("i", ci, s, min(len(ops), s + chunk)))

    def runjob(j):
        kind, ci, s, e = j
        cfg, ops = work[ci]
        if kind == "m":
            return run_model(orac, cfg, ops)
        return run_impl(ctx, cfg, ops[s:e], watchdog=4 if not thorough else 6, two=(ci + s // max(1, chunk)) % 2 == 1)

    results = vlib.parallel(runjob, jobs)
    ctx.extra["two_managers"] = "every second batch of operations (by configuration and chunk) runs in a process that created a second device manager and destroyed the first"
    ctx.log("ran %d operations on %d configurations" % (sum(len(o) for _, o in work), len(work)))
    by_cfg = {}
    for j, r in zip(jobs, results):
        by_cfg.setdefault(j[1], []).append((j, r))
    for ci, (cfg, ops) in enumerate(work):
        mres = None
        ires = [None] * len(ops)
        incidents = []
        for (kind, _, s, e), r in by_cfg[ci]:
            if kind == "m":
                mres = r
            else:
                lines, inc = r
                ires[s:e] = lines
                for x in inc:
                    if x["at"] is not None:
                        x = dict(x, at=x["at"] + s)
                    incidents.append(x)
        fold(ctx, orac, cfg, ops, mres, ires, incidents, "generated")
    ctx.notes.append("stateless API: every operation is an independent case; a replay is one configuration directory + one operation line")
