(* Line-protocol driver around the extracted Select model (same protocol as harness/h_select.cpp).

   configuration lines (no output):
     reset
     slot absent                               a library that driver_load does not deliver (NULL in drivers_)
     slot <n> <kind> <hexname> ... (n pairs)   a loaded driver and what describe(0..n-1) reports
   operation lines (one output line each):
     count                    -> C <n>
     get <i>                  -> G ok <drv> <dev> <kind> <hexname> | G err
     sel <kind> <hexpat>      -> S ok <drv> <dev> <kind> <hexname> | S err | S weak     (hexpat "-" = zero bytes, non-NULL pointer)
     seln <kind> <nbytes>     -> S ...                                                  (name == NULL)
     first <kind>             -> S ...
     default <kind>           -> S ...
     open <i>                 -> O ok <dev> <kind> <hexname> | O err                     (get(i), get_driver, driver_open_device)
     openid <drv> <dev>       -> O ok <dev> <kind> <hexname> | O err                     (a made-up identifier)
   "S weak": the pattern is outside the modelled regex fragment; the model only predicts
   "Err, or Ok with an enumerated identifier of that kind". *)
open Selectmodel

let rec pos_of_int n = if n = 1 then XH else if n land 1 = 0 then XO (pos_of_int (n lsr 1)) else XI (pos_of_int (n lsr 1))
let n_of_int n = if n <= 0 then N0 else Npos (pos_of_int n)
let rec int_of_pos = function XH -> 1 | XO p -> 2 * int_of_pos p | XI p -> 2 * int_of_pos p + 1
let int_of_n = function N0 -> 0 | Npos p -> int_of_pos p

let unhex (s : string) : n list =
  if s = "-" then [] else begin
    let l = String.length s / 2 in
    List.init l (fun i -> n_of_int (int_of_string ("0x" ^ String.sub s (2 * i) 2)))
  end

let hex (l : n list) : string =
  if l = [] then "-" else String.concat "" (List.map (fun c -> Printf.sprintf "%02x" (int_of_n c)) l)

let slots : driver option list ref = ref []
let ids : ident list option ref = ref None

let get_ids () =
  match !ids with
  | Some l -> l
  | None -> let l = enumerate (List.rev !slots) in ids := Some l; l

let print_sel = function
  | None -> print_string "S weak\n"
  | Some Err -> print_string "S err\n"
  | Some (Ok d) -> Printf.printf "S ok %d %d %d %s\n" (int_of_n d.idrv) (int_of_n d.idev) (int_of_n d.ikind) (hex d.iname)

let print_open = function
  | None -> print_string "O err\n"
  | Some o -> Printf.printf "O ok %d %d %s\n" (int_of_n o.odev) (int_of_n o.okind) (hex o.oname)

let () =
  try
    while true do
      let line = String.trim (input_line stdin) in
      let w = List.filter (fun x -> x <> "") (String.split_on_char ' ' line) in
      (match w with
       | [] -> ()
       | ["reset"] -> slots := []; ids := None
       | ["slot"; "absent"] -> slots := None :: !slots; ids := None
       | "slot" :: n :: rest ->
         let n = int_of_string n in
         let rec devs k l = if k = 0 then [] else
             match l with
             | kind :: name :: t -> { dkind = n_of_int (int_of_string kind); dname = unhex name } :: devs (k - 1) t
             | _ -> failwith "bad slot line" in
         slots := Some (devs n rest) :: !slots; ids := None
       | ["count"] -> Printf.printf "C %d\n" (int_of_n (count (get_ids ())))
       | ["get"; i] ->
         (match get (get_ids ()) (n_of_int (int_of_string i)) with
          | Err -> print_string "G err\n"
          | Ok d -> Printf.printf "G ok %d %d %d %s\n" (int_of_n d.idrv) (int_of_n d.idev) (int_of_n d.ikind) (hex d.iname))
       | ["sel"; k; p] -> print_sel (select_x (get_ids ()) (n_of_int (int_of_string k)) (unhex p))
       | ["seln"; k; n] -> print_sel (select_nullname_x (get_ids ()) (n_of_int (int_of_string k)) (n_of_int (int_of_string n)))
       | ["first"; k] -> print_sel (select_x (get_ids ()) (n_of_int (int_of_string k)) [])
       | ["default"; k] -> print_sel (select_default_x (get_ids ()) (n_of_int (int_of_string k)))
       | ["open"; i] ->
         (match get (get_ids ()) (n_of_int (int_of_string i)) with
          | Err -> print_string "O err\n"
          | Ok d -> print_open (open_dev (List.rev !slots) d.idrv d.idev))
       | ["openid"; drv; dv] -> print_open (open_dev (List.rev !slots) (n_of_int (int_of_string drv)) (n_of_int (int_of_string dv)))
       | _ -> Printf.printf "BADOP %s\n" line);
      ()
    done
  with End_of_file -> ()
