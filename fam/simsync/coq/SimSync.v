(* SimSync.v -- executable small-step model of the simulated camera's thread protocol (C18, DESIGN 6.18).
   NO proofs in this file (it must extract even when a proof breaks).

   Code modelled: acquire-driver-common/src/simcams/simulated.camera.c (streamer thread, simcam_start,
   simcam_stop, simcam_execute_trigger, simcam_set, simcam_get_frame) behind the HAL wrappers of
   acquire-core-libs/src/acquire-device-hal/device/hal/camera.c, driven by the two script threads of
   fam/simsync/harness/h_simsync.c.  One transition = one BLOCK = the code a thread executes from one
   scheduling point of /verif/harness/vplatform to the next (DESIGN Appendix A):

     lock     lock_acquire               enabled iff the lock is free
     prewait  entry of condition_variable_wait, the lock is still held        always enabled
     wait     parked on the condition, lock released; leaves when notified (or spuriously, if the
              configuration allows it) AND the lock is free; re-acquires the lock
     sleep    clock_sleep_ms             always enabled (time is virtual)
     join     thread_join of a live thread: enabled iff the target has finished
     dev      explicit point of the harness at the beginning of every script op
     create   a created thread parked at its start;   exit   a thread about to finish
   lock_release, condition_variable_notify_all and thread_create are NOT scheduling points.

   The label of a step names the point that is LEFT (this is what vsched prints: "S <tid> <kind> <label>")
   and the events the block emits ("E <tid> ..." lines of the harness).

   The lock has no field of its own: a block that acquires im.lock releases it before its next scheduling
   point EXCEPT when it parks at `prewait`; hence  "the lock is held"  <=>  some thread is parked at prewait.

   Unsynchronised variables (Appendix B): `running` (written by the controller without the lock, read by the
   streamer at its loop test / before the sleep and by get_frame), `wanted` (tested by the streamer without
   the lock).  Every block below reads each of them at most once, or re-reads it with no scheduling point in
   between, so a block-level interleaving semantics is adequate under sequential consistency at block
   granularity (this is the stated limit of the model, see notes.md).

   A set the device REJECTS (script op b: binning 3, not a power of two) is modelled as the code has it:
     simcam_set returns Device_Err at its very top -- no lock, no field touched (lines 379-382);
     camera_set (hal/camera.c:93-96), case Device_Err:  camera_stop(self);  self->state = AwaitingConfiguration;
       camera_stop does something only when the HAL state is Running: then it is simcam_stop, the SAME blocks as the
       script op X (is_running = 0 | lock: trigger, notify, notify | join), pcs KStopLock true / KStopJoin true;
       the Armed that camera_stop stores is overwritten by AwaitingConfiguration in the same block (no scheduling point
       in between), and camera_set returns Device_Err (rc 1).
     From AwaitingConfiguration the harness (like acquire_start) refuses S; a set the device accepts (e / d) stores
     Armed again (camera_set: Device_Ok -> Armed unless Running).

   What `simcam_start` resets (fixes/01-simcam-start-clears-stale-trigger.patch applied; fix9 = true):
     is_running := 1; last_emitted_frame_id := -1; frame_id := -1; software_trigger.triggered := 0.
   It does NOT reset frame_wanted (and must not: a get_frame that is pending across a restart relies on it).
   With fix9 = false the model is the code before the repair (D9), for which C18_gated is refuted. *)
From Coq Require Import ZArith List Bool.
Import ListNotations.
Open Scope Z_scope.

Inductive HalState := HAwait | HArmed | HRunning.                 (* DeviceState_AwaitingConfiguration / Armed / Running *)

(* controller script: S start, X stop, T execute_trigger, e/d set with enable = true/false, p pause,
   b set with settings the device REJECTS (binning 3: not a power of two; everything else as in force) *)
Inductive KOp := KStart | KStop | KTrig | KSet (e : bool) | KPause | KRej.
(* caller script: G get_frame, W wait until the HAL state is Running or the controller has finished *)
Inductive COp := CGet | CWaitRun.

Inductive Tid := Ctl | Cal | Str.                            (* harness threads 1, 2, and 2 + runs *)
Inductive Kind := PCreate | PDev | PLock | PPre | PWait | PSleep | PJoin | PExit.
Inductive Obj := ONone | OLock | OFrameReady | OTrigReady | OOpK (o : KOp) | OOpC (o : COp) | OStreamer.

(* where the streamer thread is parked *)
Inductive SPc :=
| SNone        (* no streamer thread has ever been created *)
| SCreate      (* created by simcam_start, not yet run *)
| SLock1       (* lock_acquire at the top of the loop body (line 240) *)
| SPre         (* prewait on trigger_ready, holding the lock (line 243) *)
| SWait        (* waiting on trigger_ready *)
| SSleep       (* clock_sleep_ms (line 294) *)
| SLock2       (* lock_acquire before publishing (line 298) *)
| SExit        (* left the loop *)
| SDone.       (* finished *)

Inductive CPc :=
| CNew | CIdle (* parked at the point of the next script op *)
| CLock        (* get_frame: lock_acquire (line 521) *)
| CPre         (* get_frame: prewait on frame_ready, holding the lock (line 526) *)
| CWait        (* get_frame: waiting on frame_ready *)
| CExit | CDone
| CTrap.       (* get_frame failed inside the device while the HAL state was Running: the HAL would now call
                  camera_stop from the caller's thread.  Outside the modelled domain; proved unreachable. *)

Inductive KPc :=
| KNew | KIdle
| KTrigLock                  (* execute_trigger: lock_acquire (line 482) *)
| KSetTrigLock (e : bool)    (* set, switching triggering off: the lock_acquire of the trigger it fires (line 388) *)
| KSetLock (e : bool)        (* set: lock_acquire (line 393) *)
| KStopLock (rej : bool)     (* stop: is_running already cleared; lock_acquire of its trigger (line 482, called from line 497) *)
| KStopJoin (rej : bool)     (* stop: thread_join (line 501) *)
                             (* rej = false: camera_stop called by the script op X;
                                rej = true: camera_stop called by camera_set's Device_Err branch (script op b, hal/camera.c:93-96) *)
| KExit | KDone.

Inductive Ev :=
| EvBegin (o : KOp)                         (* E 1 B <op> *)
| EvRet (o : KOp) (rc : Z)                  (* E 1 R <op> rc=<rc> *)
| EvSkip                                    (* E 1 R S skip      (start refused by the harness: HAL state not Armed) *)
| EvGet (rc : Z) (delivered : bool) (id : Z)(* E 2 R G rc=.. deliv=.. id=..   rc=0,delivered=false: shutdown exit *)
| EvWait                                    (* E 2 R W *)
| EvTrap.

Record Label := mkLabel { l_tid : Tid; l_kind : Kind; l_obj : Obj; l_spurious : bool; l_evs : list Ev }.

Record St := mkSt {
  running : bool;   (* streamer.is_running (written by start/stop WITHOUT the lock; read by the streamer and by get_frame) *)
  enable : bool;   (* properties.input_triggers.frame_start.enable *)
  triggered : bool;   (* software_trigger.triggered *)
  wanted : bool;   (* im.frame_wanted (the streamer tests it WITHOUT the lock) *)
  fid : Z;   (* im.frame_id: id of the published frame (-1 after start) *)
  last : Z;   (* im.last_emitted_frame_id *)
  live : bool;   (* streamer.thread.is_live_ (thread_join is a no-op when 0) *)
  hal : HalState;   (* camera.state, maintained by the HAL wrappers of device/hal/camera.c *)
  spc : SPc;   (* streamer thread: where it is parked *)
  sloc : Z;   (* streamer thread: its local `frame_id` *)
  snot : bool;   (* streamer thread: notified since it entered its wait on trigger_ready *)
  cpc : CPc;   (* caller thread *)
  cnot : bool;   (* caller thread: notified since it entered its wait on frame_ready *)
  cscript : list COp;   (* caller: ops not yet begun *)
  kpc : KPc;   (* controller thread *)
  kscript : list KOp;   (* controller: ops not yet begun *)
  spur : bool;   (* configuration: condition waits may wake spuriously *)
  fix9 : bool;   (* configuration: simcam_start clears `triggered` (the repaired code, fixes/01); false = the code before the repair *)
  gen : Z;   (* GHOST frames generated (++frame_id executed) in this run *)
  ext : Z;   (* GHOST external triggers (execute_trigger through the HAL) of this run *)
  deliv : list Z;   (* GHOST hardware ids handed out by get_frame in this run, newest first *)
  gated : bool;   (* GHOST frame_start.enable has been 1 during the whole run so far *)
  fbuf : Z;   (* GHOST generation index (within this run) of the frame now in frame_data *)
  runs : Z    (* GHOST number of successful starts so far (the streamer of run k is thread 2+k of the harness) *)
}.

Definition set_running (v : bool) (s : St) : St := mkSt v (enable s) (triggered s) (wanted s) (fid s) (last s) (live s) (hal s) (spc s) (sloc s) (snot s) (cpc s) (cnot s) (cscript s) (kpc s) (kscript s) (spur s) (fix9 s) (gen s) (ext s) (deliv s) (gated s) (fbuf s) (runs s).
Definition set_enable (v : bool) (s : St) : St := mkSt (running s) v (triggered s) (wanted s) (fid s) (last s) (live s) (hal s) (spc s) (sloc s) (snot s) (cpc s) (cnot s) (cscript s) (kpc s) (kscript s) (spur s) (fix9 s) (gen s) (ext s) (deliv s) (gated s) (fbuf s) (runs s).
Definition set_triggered (v : bool) (s : St) : St := mkSt (running s) (enable s) v (wanted s) (fid s) (last s) (live s) (hal s) (spc s) (sloc s) (snot s) (cpc s) (cnot s) (cscript s) (kpc s) (kscript s) (spur s) (fix9 s) (gen s) (ext s) (deliv s) (gated s) (fbuf s) (runs s).
Definition set_wanted (v : bool) (s : St) : St := mkSt (running s) (enable s) (triggered s) v (fid s) (last s) (live s) (hal s) (spc s) (sloc s) (snot s) (cpc s) (cnot s) (cscript s) (kpc s) (kscript s) (spur s) (fix9 s) (gen s) (ext s) (deliv s) (gated s) (fbuf s) (runs s).
Definition set_fid (v : Z) (s : St) : St := mkSt (running s) (enable s) (triggered s) (wanted s) v (last s) (live s) (hal s) (spc s) (sloc s) (snot s) (cpc s) (cnot s) (cscript s) (kpc s) (kscript s) (spur s) (fix9 s) (gen s) (ext s) (deliv s) (gated s) (fbuf s) (runs s).
Definition set_last (v : Z) (s : St) : St := mkSt (running s) (enable s) (triggered s) (wanted s) (fid s) v (live s) (hal s) (spc s) (sloc s) (snot s) (cpc s) (cnot s) (cscript s) (kpc s) (kscript s) (spur s) (fix9 s) (gen s) (ext s) (deliv s) (gated s) (fbuf s) (runs s).
Definition set_live (v : bool) (s : St) : St := mkSt (running s) (enable s) (triggered s) (wanted s) (fid s) (last s) v (hal s) (spc s) (sloc s) (snot s) (cpc s) (cnot s) (cscript s) (kpc s) (kscript s) (spur s) (fix9 s) (gen s) (ext s) (deliv s) (gated s) (fbuf s) (runs s).
Definition set_hal (v : HalState) (s : St) : St := mkSt (running s) (enable s) (triggered s) (wanted s) (fid s) (last s) (live s) v (spc s) (sloc s) (snot s) (cpc s) (cnot s) (cscript s) (kpc s) (kscript s) (spur s) (fix9 s) (gen s) (ext s) (deliv s) (gated s) (fbuf s) (runs s).
Definition set_spc (v : SPc) (s : St) : St := mkSt (running s) (enable s) (triggered s) (wanted s) (fid s) (last s) (live s) (hal s) v (sloc s) (snot s) (cpc s) (cnot s) (cscript s) (kpc s) (kscript s) (spur s) (fix9 s) (gen s) (ext s) (deliv s) (gated s) (fbuf s) (runs s).
Definition set_sloc (v : Z) (s : St) : St := mkSt (running s) (enable s) (triggered s) (wanted s) (fid s) (last s) (live s) (hal s) (spc s) v (snot s) (cpc s) (cnot s) (cscript s) (kpc s) (kscript s) (spur s) (fix9 s) (gen s) (ext s) (deliv s) (gated s) (fbuf s) (runs s).
Definition set_snot (v : bool) (s : St) : St := mkSt (running s) (enable s) (triggered s) (wanted s) (fid s) (last s) (live s) (hal s) (spc s) (sloc s) v (cpc s) (cnot s) (cscript s) (kpc s) (kscript s) (spur s) (fix9 s) (gen s) (ext s) (deliv s) (gated s) (fbuf s) (runs s).
Definition set_cpc (v : CPc) (s : St) : St := mkSt (running s) (enable s) (triggered s) (wanted s) (fid s) (last s) (live s) (hal s) (spc s) (sloc s) (snot s) v (cnot s) (cscript s) (kpc s) (kscript s) (spur s) (fix9 s) (gen s) (ext s) (deliv s) (gated s) (fbuf s) (runs s).
Definition set_cnot (v : bool) (s : St) : St := mkSt (running s) (enable s) (triggered s) (wanted s) (fid s) (last s) (live s) (hal s) (spc s) (sloc s) (snot s) (cpc s) v (cscript s) (kpc s) (kscript s) (spur s) (fix9 s) (gen s) (ext s) (deliv s) (gated s) (fbuf s) (runs s).
Definition set_cscript (v : list COp) (s : St) : St := mkSt (running s) (enable s) (triggered s) (wanted s) (fid s) (last s) (live s) (hal s) (spc s) (sloc s) (snot s) (cpc s) (cnot s) v (kpc s) (kscript s) (spur s) (fix9 s) (gen s) (ext s) (deliv s) (gated s) (fbuf s) (runs s).
Definition set_kpc (v : KPc) (s : St) : St := mkSt (running s) (enable s) (triggered s) (wanted s) (fid s) (last s) (live s) (hal s) (spc s) (sloc s) (snot s) (cpc s) (cnot s) (cscript s) v (kscript s) (spur s) (fix9 s) (gen s) (ext s) (deliv s) (gated s) (fbuf s) (runs s).
Definition set_kscript (v : list KOp) (s : St) : St := mkSt (running s) (enable s) (triggered s) (wanted s) (fid s) (last s) (live s) (hal s) (spc s) (sloc s) (snot s) (cpc s) (cnot s) (cscript s) (kpc s) v (spur s) (fix9 s) (gen s) (ext s) (deliv s) (gated s) (fbuf s) (runs s).
Definition set_spur (v : bool) (s : St) : St := mkSt (running s) (enable s) (triggered s) (wanted s) (fid s) (last s) (live s) (hal s) (spc s) (sloc s) (snot s) (cpc s) (cnot s) (cscript s) (kpc s) (kscript s) v (fix9 s) (gen s) (ext s) (deliv s) (gated s) (fbuf s) (runs s).
Definition set_fix9 (v : bool) (s : St) : St := mkSt (running s) (enable s) (triggered s) (wanted s) (fid s) (last s) (live s) (hal s) (spc s) (sloc s) (snot s) (cpc s) (cnot s) (cscript s) (kpc s) (kscript s) (spur s) v (gen s) (ext s) (deliv s) (gated s) (fbuf s) (runs s).
Definition set_gen (v : Z) (s : St) : St := mkSt (running s) (enable s) (triggered s) (wanted s) (fid s) (last s) (live s) (hal s) (spc s) (sloc s) (snot s) (cpc s) (cnot s) (cscript s) (kpc s) (kscript s) (spur s) (fix9 s) v (ext s) (deliv s) (gated s) (fbuf s) (runs s).
Definition set_ext (v : Z) (s : St) : St := mkSt (running s) (enable s) (triggered s) (wanted s) (fid s) (last s) (live s) (hal s) (spc s) (sloc s) (snot s) (cpc s) (cnot s) (cscript s) (kpc s) (kscript s) (spur s) (fix9 s) (gen s) v (deliv s) (gated s) (fbuf s) (runs s).
Definition set_deliv (v : list Z) (s : St) : St := mkSt (running s) (enable s) (triggered s) (wanted s) (fid s) (last s) (live s) (hal s) (spc s) (sloc s) (snot s) (cpc s) (cnot s) (cscript s) (kpc s) (kscript s) (spur s) (fix9 s) (gen s) (ext s) v (gated s) (fbuf s) (runs s).
Definition set_gated (v : bool) (s : St) : St := mkSt (running s) (enable s) (triggered s) (wanted s) (fid s) (last s) (live s) (hal s) (spc s) (sloc s) (snot s) (cpc s) (cnot s) (cscript s) (kpc s) (kscript s) (spur s) (fix9 s) (gen s) (ext s) (deliv s) v (fbuf s) (runs s).
Definition set_fbuf (v : Z) (s : St) : St := mkSt (running s) (enable s) (triggered s) (wanted s) (fid s) (last s) (live s) (hal s) (spc s) (sloc s) (snot s) (cpc s) (cnot s) (cscript s) (kpc s) (kscript s) (spur s) (fix9 s) (gen s) (ext s) (deliv s) (gated s) v (runs s).
Definition set_runs (v : Z) (s : St) : St := mkSt (running s) (enable s) (triggered s) (wanted s) (fid s) (last s) (live s) (hal s) (spc s) (sloc s) (snot s) (cpc s) (cnot s) (cscript s) (kpc s) (kscript s) (spur s) (fix9 s) (gen s) (ext s) (deliv s) (gated s) (fbuf s) v.

(* ------------------------------------------------------------------------------------------ helpers *)
Definition knext (ks : list KOp) : KPc := match ks with [] => KExit | _ :: _ => KIdle end.
Definition cnext (cs : list COp) : CPc := match cs with [] => CExit | _ :: _ => CIdle end.

(* im.lock is free  <=>  nobody is parked at a prewait *)
Definition lock_free (s : St) : bool :=
  match cpc s, spc s with
  | CPre, _ => false
  | _, SPre => false
  | _, _ => true
  end.

(* the controller is inside camera_stop (the harness flag g_stopping) *)
Definition in_stop (s : St) : bool := match kpc s with KStopLock _ | KStopJoin _ => true | _ => false end.
(* ... at the lock acquisition of stop's trigger, i.e. before its two notifications *)
Definition at_stop_lock (s : St) : bool := match kpc s with KStopLock _ => true | _ => false end.
(* How the camera_stop in progress ends.  rej = false (op X): camera_stop stores Armed and returns Device_Ok.
   rej = true (op b): camera_stop stores Armed, then camera_set's error branch stores AwaitingConfiguration (no
   scheduling point in between) and camera_set returns the device's Device_Err. *)
Definition stop_hal (rej : bool) : HalState := if rej then HAwait else HArmed.
Definition stop_ret (rej : bool) : Ev := if rej then EvRet KRej 1 else EvRet KStop 0.
(* the controller has finished its script (the harness flag g_ctl_done) *)
Definition ctl_done (s : St) : bool := match kpc s with KExit | KDone => true | _ => false end.
Definition hal_running (s : St) : bool := match hal s with HRunning => true | _ => false end.

(* simcam_execute_trigger's critical section: frame_wanted = 1; triggered = 1; notify_all(trigger_ready) *)
Definition do_trigger (s : St) : St := set_snot true (set_triggered true (set_wanted true s)).

Definition ghost_start (s : St) : St :=
  set_runs (runs s + 1) (set_fbuf (-1) (set_gated (enable s) (set_deliv [] (set_ext 0 (set_gen 0 s))))).

(* ------------------------------------------------------------------------------------------ controller *)
Definition kstep (s : St) : option (St * Label) :=
  match kpc s with
  | KNew => Some (set_kpc (knext (kscript s)) s, mkLabel Ctl PCreate ONone false [])
  | KIdle =>
    match kscript s with
    | [] => None
    | o :: r =>
      let s0 := set_kscript r s in
      let L := mkLabel Ctl PDev (OOpK o) false in
      match o with
      | KPause => Some (set_kpc (knext r) s0, L [])
      | KStart =>
        match hal s with
        | HArmed =>
          (* harness: state == Armed.  camera_start -> simcam_start (lines 459-474): *)
          let s1 := set_running true s0 in
          let s2 := set_last (-1) s1 in
          let s3 := set_fid (-1) s2 in
          let s4 := if fix9 s then set_triggered false s3 else s3 in     (* the repair of D9 *)
          let s5 := set_spc SCreate (set_live true s4) in                (* thread_create: not a scheduling point *)
          let s6 := set_hal HRunning s5 in                               (* camera_start: Device_Ok -> Running *)
          Some (set_kpc (knext r) (ghost_start s6), L [EvBegin o; EvRet o 0])
        | _ => Some (set_kpc (knext r) s0, L [EvBegin o; EvSkip])
        end
      | KTrig =>
        match hal s with
        | HRunning => Some (set_kpc KTrigLock s0, L [EvBegin o])         (* camera_execute_trigger forwards *)
        | _ => Some (set_kpc (knext r) s0, L [EvBegin o; EvRet o 0])     (* ... or returns Device_Ok at once *)
        end
      | KStop =>
        match hal s with
        | HRunning =>                                                    (* simcam_stop: is_running = 0 (no lock) *)
          Some (set_kpc (KStopLock false) (set_running false s0), L [EvBegin o])
        | _ => Some (set_kpc (knext r) s0, L [EvBegin o; EvRet o 0])
        end
      | KRej =>
        (* simcam_set: popcount(binning) != 1 -> Device_Err at its top, nothing touched, no lock taken (lines 379-382).
           camera_set, case Device_Err:  camera_stop(self); self->state = DeviceState_AwaitingConfiguration;  *)
        match hal s with
        | HRunning =>                                                    (* camera_stop -> simcam_stop: is_running = 0 *)
          Some (set_kpc (KStopLock true) (set_running false s0), L [EvBegin o])
        | _ =>                                                           (* camera_stop does nothing; state = Await *)
          Some (set_kpc (knext r) (set_hal HAwait s0), L [EvBegin o; EvRet o 1])
        end
      | KSet e =>
        let s1 := if e then s0 else set_gated false s0 in
        if enable s && negb e                                            (* lines 385-389 *)
        then Some (set_kpc (KSetTrigLock e) s1, L [EvBegin o])
        else Some (set_kpc (KSetLock e) s1, L [EvBegin o])
      end
    end
  | KTrigLock =>
    if lock_free s then
      Some (set_kpc (knext (kscript s)) (set_ext (ext s + 1) (do_trigger s)),
            mkLabel Ctl PLock OLock false [EvRet KTrig 0])
    else None
  | KSetTrigLock e =>
    if lock_free s then Some (set_kpc (KSetLock e) (do_trigger s), mkLabel Ctl PLock OLock false [])
    else None
  | KSetLock e =>
    if lock_free s then
      (* properties = *settings (lines 393-434); camera_set: Device_Ok -> Armed unless Running
         (in particular AwaitingConfiguration -> Armed: a successful set re-arms the camera after a rejected one) *)
      let s1 := set_enable e s in
      let s2 := match hal s with HRunning => s1 | _ => set_hal HArmed s1 end in
      Some (set_kpc (knext (kscript s)) s2, mkLabel Ctl PLock OLock false [EvRet (KSet e) 0])
    else None
  | KStopLock rej =>
    if lock_free s then
      (* the trigger's critical section; then notify_all(frame_ready) WITHOUT the lock; then thread_join *)
      let s1 := set_cnot true (do_trigger s) in
      if live s then Some (set_kpc (KStopJoin rej) s1, mkLabel Ctl PLock OLock false [])
      else Some (set_kpc (knext (kscript s)) (set_hal (stop_hal rej) s1), mkLabel Ctl PLock OLock false [stop_ret rej])
    else None
  | KStopJoin rej =>
    match spc s with
    | SDone => Some (set_kpc (knext (kscript s)) (set_hal (stop_hal rej) (set_live false s)),
                     mkLabel Ctl PJoin OStreamer false [stop_ret rej])
    | _ => None
    end
  | KExit => Some (set_kpc KDone s, mkLabel Ctl PExit ONone false [])
  | KDone => None
  end.

(* ------------------------------------------------------------------------------------------ caller *)
(* simcam_get_frame from the while loop on (lines 524-539), the lock being held *)
Definition c_loop (s : St) (L : list Ev -> Label) : St * Label :=
  if running s && (fid s <=? last s)
  then (set_cpc CPre s, L [])
  else
    let s1 := set_last (fid s) s in
    if running s
    then (set_cpc (cnext (cscript s)) (set_deliv (fid s :: deliv s) s1), L [EvGet 0 true (fid s)])
    else (set_cpc (cnext (cscript s)) s1, L [EvGet 0 false (-1)]).       (* Shutdown: buffer and info untouched *)

Definition cstep (s : St) : option (St * Label) :=
  match cpc s with
  | CNew => Some (set_cpc (cnext (cscript s)) s, mkLabel Cal PCreate ONone false [])
  | CIdle =>
    match cscript s with
    | [] => None
    | CWaitRun :: r =>
      if hal_running s || ctl_done s
      then Some (set_cpc (cnext r) (set_cscript r s), mkLabel Cal PDev (OOpC CWaitRun) false [EvWait])
      else None
    | CGet :: r =>
      if in_stop s then None                       (* harness: get_frame is not ENTERED while stop is in progress *)
      else
        let s0 := set_cscript r s in
        let L := mkLabel Cal PDev (OOpC CGet) false in
        match hal s with
        | HRunning =>                              (* camera_get_frame: state == Running *)
          if running s                             (* CHECK(self->streamer.is_running), line 516 *)
          then Some (set_cpc CLock s0, L [])
          else Some (set_cpc CTrap s0, L [EvTrap])
        | _ => Some (set_cpc (cnext r) s0, L [EvGet 1 false (-1)])
        end
    end
  | CLock =>
    if lock_free s
    then Some (c_loop (set_wanted true s) (mkLabel Cal PLock OLock false))
    else None
  | CPre => Some (set_cpc CWait (set_cnot false s), mkLabel Cal PPre OFrameReady false [])
  | CWait =>
    if lock_free s && (cnot s || spur s)
    then Some (c_loop s (mkLabel Cal PWait OFrameReady (negb (cnot s))))
    else None
  | CExit => Some (set_cpc CDone s, mkLabel Cal PExit ONone false [])
  | CDone => None
  | CTrap => None
  end.

(* ------------------------------------------------------------------------------------------ streamer *)
Definition s_loop_test (s : St) : SPc := if running s then SLock1 else SExit.       (* while (is_running) *)
Definition s_after_sleep (s : St) : SPc := if wanted s then SLock2 else s_loop_test s.  (* if (frame_wanted) *)

(* lines 241-295, the lock being held: trigger wait; clear triggered; unlock; render; ++frame_id; sleep *)
Definition s_iter (s : St) (L : list Ev -> Label) : St * Label :=
  if enable s && negb (triggered s)
  then (set_spc SPre s, L [])
  else
    let s1 := set_triggered false s in
    let s2 := set_gen (gen s + 1) (set_sloc (sloc s + 1) s1) in
    if running s
    then (set_spc SSleep s2, L [])
    else (set_spc (s_after_sleep s2) s2, L []).

Definition sstep (s : St) : option (St * Label) :=
  match spc s with
  | SNone => None
  | SCreate =>      (* clock_init; frame_id = im.frame_id; loop test *)
    let s1 := set_sloc (fid s) s in
    Some (set_spc (s_loop_test s1) s1, mkLabel Str PCreate ONone false [])
  | SLock1 => if lock_free s then Some (s_iter s (mkLabel Str PLock OLock false)) else None
  | SPre => Some (set_spc SWait (set_snot false s), mkLabel Str PPre OTrigReady false [])
  | SWait =>
    if lock_free s && (snot s || spur s)
    then Some (s_iter s (mkLabel Str PWait OTrigReady (negb (snot s))))
    else None
  | SSleep => Some (set_spc (s_after_sleep s) s, mkLabel Str PSleep ONone false [])
  | SLock2 =>
    if lock_free s then
      (* swap buffers; im.frame_id = frame_id; frame_wanted = 0; notify_all(frame_ready); unlock; loop test *)
      let s1 := set_fbuf (gen s - 1) (set_fid (sloc s) s) in
      let s2 := set_cnot true (set_wanted false s1) in
      Some (set_spc (s_loop_test s2) s2, mkLabel Str PLock OLock false [])
    else None
  | SExit => Some (set_spc SDone s, mkLabel Str PExit ONone false [])
  | SDone => None
  end.

(* ------------------------------------------------------------------------------------------ the system *)
Definition step (s : St) (c : Tid) : option (St * Label) :=
  match c with Ctl => kstep s | Cal => cstep s | Str => sstep s end.

Record Config := mkConfig {
  c_enable : bool;            (* frame_start.enable of the initial set (done by the harness before the threads start) *)
  c_spur : bool;
  c_fix9 : bool;
  c_ctl : list KOp;
  c_cal : list COp
}.

(* After simcam_make_camera (memset 0) and one successful camera_set: state Armed, frame ids 0, no thread. *)
Definition init (c : Config) : St :=
  mkSt false (c_enable c) false false 0 0 false HArmed
       SNone 0 false
       CNew false (c_cal c)
       KNew (c_ctl c)
       (c_spur c) (c_fix9 c)
       0 0 [] false 0 0.
