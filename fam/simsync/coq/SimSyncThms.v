(* SimSyncThms.v -- the lemmas behind Properties_C18.v, on top of the invariant of SimSyncProofs.v.

   reach c cs   = the state after running ANY schedule cs (any list of thread choices, any length; choices that
                  are not enabled are skipped) from the initial state of configuration c
   labels c cs  = the labels (scheduling point left + events) of the steps taken.

   Sections:  1 ghost state is a function of the observable trace      2 deliveries (increasing / counts / restart)
              3 gating      4 stop: bounded progress, no deadlock, release of a pending get_frame (the stop of op X and the
              stop the HAL performs inside a set the device rejects, op b)      5 rejected set / AwaitingConfiguration. *)
From Coq Require Import ZArith List Bool Lia Sorted.
From SimSync Require Import Sched SimSync SimSyncProofs.
Import ListNotations.
Open Scope Z_scope.

Definition reach (c : Config) (cs : list Tid) : St := final St Tid Label step (init c) cs.
Definition labels (c : Config) (cs : list Tid) : list Label := trace St Tid Label step (init c) cs.

Lemma reach_inv : forall c cs, c_fix9 c = true -> Inv (reach c cs).
Proof.
  intros c cs Hc. unfold reach.
  apply (invariant_rule St Tid Label step Inv (init c) (inv_init c Hc) inv_step).
Qed.

Lemma reach_app : forall c cs1 cs2, final St Tid Label step (reach c cs1) cs2 = reach c (cs1 ++ cs2).
Proof. intros. unfold reach. symmetry. apply final_app. Qed.

(* ------------------------------------------------------------------ 1. the ghost fields, read off the trace *)
(* What an observer of the events alone can compute: the trigger-enable flag (initial set + returned sets), whether
   triggering has been enabled during the whole current run, the external triggers that went through to the device
   in the current run, the hardware ids delivered in the current run (newest first). *)
Definition Obs := (bool * bool * Z * list Z)%type.

Definition ev_obs (o : Obs) (e : Ev) : Obs :=
  let '(en, g, x, dl) := o in
  match e with
  | EvRet (KSet v) Z0 => (v, g, x, dl)
  | EvBegin (KSet false) => (en, false, x, dl)
  | EvRet KStart Z0 => (en, en, 0, [])
  | EvGet _ true id => (en, g, x, id :: dl)
  | _ => o
  end.

(* a trigger that the HAL forwarded to the device returns from the block that holds the lock (a HAL no-op returns
   from the `dev` point of the script op) *)
Definition trig_done (l : Label) : bool :=
  match l_kind l, l_evs l with
  | PLock, [EvRet KTrig _] => true
  | _, _ => false
  end.

Definition lab_obs (o : Obs) (l : Label) : Obs :=
  let '(en, g, x, dl) := fold_left ev_obs (l_evs l) o in
  if trig_done l then (en, g, x + 1, dl) else (en, g, x, dl).

Definition obs_of (s : St) : Obs := (enable s, gated s, ext s, deliv s).

Lemma step_obs : forall s t s' l, step s t = Some (s', l) -> obs_of s' = lab_obs (obs_of s) l.
Proof.
  intros s t s' l Hs. destr s. unfold obs_of. simpl in *.
  cases Hs t.
  all: try reflexivity.
  all: try (destruct e; reflexivity).
Qed.

Lemma run_obs : forall cs s, obs_of (final St Tid Label step s cs) = fold_left lab_obs (trace St Tid Label step s cs) (obs_of s).
Proof.
  induction cs as [|t cs IH]; intros s.
  - reflexivity.
  - rewrite final_cons. unfold trace. simpl. destruct (step s t) as [[s' l]|] eqn:E.
    + specialize (IH s'). unfold trace in IH. destruct (run St Tid Label step s' cs) as [sf ls] eqn:R.
      simpl in *. rewrite IH. rewrite (step_obs _ _ _ _ E). reflexivity.
    + apply IH.
Qed.

Lemma ghost_is_trace : forall c cs,
  obs_of (reach c cs) = fold_left lab_obs (labels c cs) (c_enable c, false, 0, []).
Proof. intros. unfold reach, labels. rewrite run_obs. reflexivity. Qed.

(* ------------------------------------------------------------------ 2. deliveries *)
(* everything that is true of a step in which get_frame hands out a frame *)
Lemma deliver_step : forall s t s' l rc id,
  Inv s -> step s t = Some (s', l) -> In (EvGet rc true id) (l_evs l) ->
  t = Cal /\ rc = 0 /\ running s = true /\ id = fid s /\ id = fbuf s /\ last s < id /\ 0 <= id <= gen s - 1 /\
  deliv s' = id :: deliv s /\ gen s' = gen s /\ ext s' = ext s /\ gated s' = gated s.
Proof.
  intros s t s' l rc id [HL HW HD HG] Hs Hin. destr s. destruct HL, HD. simpl in *.
  cases Hs t; simpl in Hin.
  all: try (exfalso; intuition discriminate).
  all: destruct Hin as [Hin|[]]; inversion Hin; subst; clear Hin.
  all: destruct i_run1 as [Hh _]; [reflexivity|]; subst.
  all: specialize (i_live eq_refl); subst; specialize (i_live2 eq_refl).
  all: specialize (i_fid i_live2); specialize (i_fbuf i_live2).
  all: repeat split; try reflexivity; try lia.
Qed.

(* how a step changes the delivered list and the generation counter *)
Lemma step_ghost : forall s t s' l, step s t = Some (s', l) ->
  (deliv s' = deliv s /\ gen s <= gen s') \/
  (deliv s' = [] /\ gen s' = 0) \/
  (exists id, In (EvGet 0 true id) (l_evs l) /\ deliv s' = id :: deliv s /\ gen s' = gen s).
Proof.
  intros s t s' l Hs. destr s. simpl in *.
  cases Hs t; simpl.
  all: try (left; split; [reflexivity|lia]).
  all: try (right; left; split; reflexivity).
  all: try (right; right; eexists; split; [left; reflexivity|split; reflexivity]).
Qed.

(* every id delivered in the current run is the index of a frame generated in the current run *)
Definition Bnd (s : St) : Prop := Forall (fun d => 0 <= d <= gen s - 1) (deliv s).

Lemma bnd_step : forall s t s' l, Inv s -> Bnd s -> step s t = Some (s', l) -> Bnd s'.
Proof.
  intros s t s' l HI HB Hs. unfold Bnd in *.
  destruct (step_ghost _ _ _ _ Hs) as [[Hd Hg]|[[Hd Hg]|(id & Hin & Hd & Hg)]].
  - rewrite Hd. eapply Forall_impl; [|exact HB]. simpl. intros. lia.
  - rewrite Hd. constructor.
  - rewrite Hd, Hg. destruct (deliver_step _ _ _ _ _ _ HI Hs Hin) as (_ & _ & _ & _ & _ & _ & Hr & _).
    constructor; auto.
Qed.

Lemma reach_bnd : forall c cs, c_fix9 c = true -> Bnd (reach c cs).
Proof.
  intros c cs Hc. unfold reach.
  assert (H : (fun s => Inv s /\ Bnd s) (final St Tid Label step (init c) cs)).
  { apply invariant_rule.
    - split; [apply inv_init; exact Hc|constructor].
    - intros s t s' l [HI HB] Hs. split; [eapply inv_step; eauto|eapply bnd_step; eauto]. }
  exact (proj2 H).
Qed.

Lemma increasing_reach : forall c cs, c_fix9 c = true ->
  let s := reach c cs in
  StronglySorted Z.gt (deliv s) /\
  forall t s' l rc id, step s t = Some (s', l) -> In (EvGet rc true id) (l_evs l) ->
    rc = 0 /\ 0 <= id /\ Forall (fun d => d < id) (deliv s) /\ deliv s' = id :: deliv s.
Proof.
  intros c cs Hc s. pose proof (reach_inv c cs Hc) as HI. fold s in HI. split.
  - eapply dec_from_sorted. exact (i_deliv _ (inv_ids _ HI)).
  - intros t s' l rc id Hs Hin.
    destruct (deliver_step _ _ _ _ _ _ HI Hs Hin) as (_ & Hrc & _ & _ & _ & Hl & Hr & Hd & _).
    repeat split; auto; try lia.
    pose proof (dec_from_bound _ _ (i_deliv _ (inv_ids _ HI))) as Hb.
    eapply Forall_impl; [|exact Hb]. simpl. intros. lia.
Qed.

(* frame_data holds the frame with generation index fbuf = im.frame_id; the streamer's local counter is the number of
   frames it generated minus one; a delivery hands out exactly that index *)
Lemma counts_all_reach : forall c cs, c_fix9 c = true ->
  let s := reach c cs in
  (spc s <> SNone -> fid s = fbuf s /\ fbuf s <= gen s - 1) /\
  (s_inited (spc s) -> sloc s = gen s - 1) /\
  (forall t s' l rc id, step s t = Some (s', l) -> In (EvGet rc true id) (l_evs l) ->
     id = fbuf s /\ 0 <= id <= gen s - 1) /\
  Forall (fun d => 0 <= d <= gen s - 1) (deliv s).
Proof.
  intros c cs Hc s. pose proof (reach_inv c cs Hc) as HI. fold s in HI.
  pose proof (inv_ids _ HI) as HD. repeat split.
  - symmetry. apply (i_fbuf _ HD H).
  - rewrite (i_fbuf _ HD H). apply (i_fid _ HD H).
  - apply (i_sloc _ HD).
  - destruct (deliver_step _ _ _ _ _ _ HI H H0) as (_ & _ & _ & _ & Hf & _). exact Hf.
  - destruct (deliver_step _ _ _ _ _ _ HI H H0) as (_ & _ & _ & _ & _ & _ & Hr & _). lia.
  - destruct (deliver_step _ _ _ _ _ _ HI H H0) as (_ & _ & _ & _ & _ & _ & Hr & _). lia.
  - apply (reach_bnd c cs Hc).
Qed.

(* the publishing block: the frame just generated (index gen-1) goes to frame_data under the id gen-1 *)
Lemma publish_step : forall s s' l, Inv s -> spc s = SLock2 -> step s Str = Some (s', l) ->
  fid s' = gen s - 1 /\ fbuf s' = gen s - 1 /\ gen s' = gen s /\ wanted s' = false.
Proof.
  intros s s' l [HL HW HD HG] Hp Hs. destr s. destruct HD. simpl in *. subst.
  specialize (i_sloc I). subst.
  simpl in Hs. unfold sstep in Hs. simpl in Hs.
  destruct (lock_free _); [|discriminate]. inversion Hs; subst; clear Hs. simpl. auto.
Qed.

(* a successful start *)
Lemma restart_step : forall s t s' l, step s t = Some (s', l) -> In (EvRet KStart 0) (l_evs l) ->
  t = Ctl /\ hal s = HArmed /\ hal s' = HRunning /\ spc s' = SCreate /\ running s' = true /\
  gen s' = 0 /\ ext s' = 0 /\ deliv s' = [] /\ fid s' = -1 /\ last s' = -1 /\ fbuf s' = -1 /\
  (fix9 s = true -> triggered s' = false) /\ gated s' = enable s' /\ runs s' = runs s + 1.
Proof.
  intros s t s' l Hs Hin. destr s. simpl in *.
  cases Hs t; simpl in Hin.
  all: try (exfalso; intuition discriminate).
  all: repeat split; intros; try discriminate; reflexivity.
Qed.

(* ------------------------------------------------------------------ 3. gating *)
Lemma gated_reach : forall c cs, c_fix9 c = true ->
  let s := reach c cs in
  gated s = true ->
  enable s = true /\
  Z.of_nat (length (deliv s)) <= ext s /\
  (ext s = 0 -> deliv s = []) /\
  gen s + b2z (triggered s) <= ext s + slack s.
Proof.
  intros c cs Hc s Hg. pose proof (reach_inv c cs Hc) as HI. fold s in HI.
  pose proof (inv_gate _ HI) as G.
  pose proof (i_gated_del _ G Hg) as Hd.
  repeat split.
  - apply (i_gated_en _ G Hg).
  - exact Hd.
  - intros H0. rewrite H0 in Hd. destruct (deliv s); [reflexivity|]. simpl length in Hd. lia.
  - apply (i_gated_gen _ G Hg).
Qed.

(* no delivery before the first trigger, as a statement about steps *)
Lemma gated_first : forall c cs t s' l rc id, c_fix9 c = true ->
  let s := reach c cs in
  gated s = true -> step s t = Some (s', l) -> In (EvGet rc true id) (l_evs l) ->
  1 <= ext s /\ Z.of_nat (length (deliv s)) + 1 <= ext s.
Proof.
  intros c cs t s' l rc id Hc s Hg Hs Hin.
  pose proof (reach_inv c cs Hc) as HI. fold s in HI.
  destruct (deliver_step _ _ _ _ _ _ HI Hs Hin) as (_ & _ & _ & _ & _ & _ & _ & Hd & _ & He & Hg').
  pose proof (inv_step _ _ _ _ HI Hs) as HI'.
  pose proof (i_gated_del _ (inv_gate _ HI')) as H. rewrite Hg', Hg, Hd, He in H. specialize (H eq_refl).
  simpl length in H. lia.
Qed.

(* ------------------------------------------------------------------ 4. stop *)
Definition pending (s : St) : bool := match cpc s with CLock | CPre | CWait => true | _ => false end.
(* designated threads while stop is in progress: the controller, the streamer, and the caller iff it is inside get_frame *)
Definition Dstop (s : St) (t : Tid) : bool := match t with Cal => pending s | _ => true end.
Definition rankK (p : KPc) : nat := match p with KStopLock _ => 2 | KStopJoin _ => 1 | _ => 0 end.
Definition rankS (p : SPc) : nat :=
  match p with SCreate => 7 | SLock1 => 6 | SPre => 5 | SWait => 4 | SSleep => 3 | SLock2 => 2 | SExit => 1 | _ => 0 end.
Definition rankC (p : CPc) : nat := match p with CPre => 3 | CWait => 2 | CLock => 1 | _ => 0 end.
Definition mu (s : St) : nat := (rankK (kpc s) + rankS (spc s) + rankC (cpc s))%nat.
Definition stop_returned (s : St) : bool := negb (in_stop s).

Lemma mu_le_12 : forall s, (mu s <= 12)%nat.
Proof. intros s. unfold mu. destruct (kpc s), (spc s), (cpc s); simpl; lia. Qed.

Lemma stop_dec : forall s t s' l, Inv s -> stop_returned s = false -> step s t = Some (s', l) ->
  if l_spurious l then (mu s' <= mu s + 1)%nat else if Dstop s t then (mu s' < mu s)%nat else (mu s' <= mu s)%nat.
Proof.
  intros s t s' l [HL HW HD HG] Hg Hs.
  unfold stop_returned in Hg. apply negb_false_iff in Hg.
  destruct (i_stop _ HL Hg) as [Hh Hr].
  pose proof (l_snot _ HW) as Hsn.
  unfold mu, Dstop, pending. destr s. unfold in_stop in Hg. simpl in *. subst.
  cases Hs t; simpl; try lia; try discriminate.
  all: try (specialize (Hsn eq_refl eq_refl); discriminate).
Qed.

Ltac try_thread T :=
  exists T; simpl; unfold kstep, cstep, sstep, c_loop, s_iter, lock_free; simpl;
  repeat match goal with |- context [if ?b then _ else _] => destruct b end;
  do 2 eexists; repeat split; fail.

Lemma stop_live : forall s, Inv s -> stop_returned s = false ->
  exists t s' l, Dstop s t = true /\ step s t = Some (s', l) /\ l_spurious l = false.
Proof.
  intros s [HL HW HD HG] Hg.
  unfold stop_returned in Hg. apply negb_false_iff in Hg.
  destruct (i_stop _ HL Hg) as [Hh Hr].
  pose proof (i_live _ HL Hh) as Hlv. pose proof (i_live2 _ HL Hlv) as Hsp.
  pose proof (l_swait _ HW Hr) as Hsw. pose proof (l_snot _ HW) as Hsn.
  unfold Dstop, pending. destr s. unfold in_stop in Hg. simpl in *. subst.
  destruct kpc_; try discriminate.
  all: destruct cpc_ eqn:EC, spc_ eqn:ES, snot_; try (exfalso; apply Hsp; reflexivity).
  all: try (specialize (Hsw eq_refl eq_refl); discriminate).
  (* the caller parked at its prewait holds the lock: its step is always enabled *)
  all: try (try_thread Cal).
  (* the streamer: always enabled at create / prewait / sleep / exit; at a lock or notified in its wait, the lock is free *)
  all: try (try_thread Str).
  (* the controller: at its lock with the lock free, or at the join with the streamer finished *)
  all: try (try_thread Ctl).
Qed.

(* a caller inside get_frame while the camera is stopping / stopped (by op X or by the stop inside a rejected set) *)
Lemma caller_released : forall s, Inv s -> running s = false ->
  (cpc s = CPre -> at_stop_lock s = true) /\
  (cpc s = CWait -> cnot s = false -> at_stop_lock s = true) /\
  (forall s' l, cpc s = CLock \/ cpc s = CWait -> step s Cal = Some (s', l) ->
     l_evs l = [EvGet 0 false (-1)] /\ deliv s' = deliv s /\ cpc s' = cnext (cscript s)).
Proof.
  intros s [HL HW HD HG] Hr. repeat split.
  - apply (l_cpre _ HW Hr).
  - apply (l_cwait _ HW Hr).
  - destr s. simpl in *. subst. destruct H; subst; simpl in H0; unfold cstep, c_loop in H0; simpl in H0.
    + destruct (lock_free _); [|discriminate]. inversion H0; subst. reflexivity.
    + destruct (lock_free _ && _); [|discriminate]. inversion H0; subst. reflexivity.
  - destr s. simpl in *. subst. destruct H; subst; simpl in H0; unfold cstep, c_loop in H0; simpl in H0.
    + destruct (lock_free _); [|discriminate]. inversion H0; subst. reflexivity.
    + destruct (lock_free _ && _); [|discriminate]. inversion H0; subst. reflexivity.
  - destr s. simpl in *. subst. destruct H; subst; simpl in H0; unfold cstep, c_loop in H0; simpl in H0.
    + destruct (lock_free _); [|discriminate]. inversion H0; subst. reflexivity.
    + destruct (lock_free _ && _); [|discriminate]. inversion H0; subst. reflexivity.
Qed.

Definition stop_tally := tally St Tid Label step Dstop l_spurious.

Lemma stop_progress : forall c cs cs', c_fix9 c = true ->
  let s := reach c cs in
  (mu s + 1 * snd (stop_tally s cs') < fst (stop_tally s cs'))%nat ->
  exists n, stop_returned (reach c (cs ++ firstn n cs')) = true.
Proof.
  intros c cs cs' Hc s H.
  destruct (fair_progress St Tid Label step Dstop l_spurious stop_returned mu 1%nat Inv inv_step stop_dec cs' s
              (reach_inv c cs Hc) H) as (n & Hn).
  exists n. rewrite <- reach_app. exact Hn.
Qed.

(* which stop is in progress: the one of op X (false) or the one inside a rejected set, op b (true) *)
Definition stop_rej (s : St) : bool := match kpc s with KStopLock r | KStopJoin r => r | _ => false end.

(* the step with which a stop begins: the controller's, on a camera the HAL reports Running; is_running is cleared in
   that very block; it is either camera_stop (op X) or the camera_stop inside camera_set's error branch (op b) *)
Lemma stop_enter_step : forall s t s' l, step s t = Some (s', l) -> in_stop s = false -> in_stop s' = true ->
  t = Ctl /\ hal s = HRunning /\ hal s' = HRunning /\ running s' = false /\ at_stop_lock s' = true /\
  ((l_evs l = [EvBegin KStop] /\ stop_rej s' = false) \/ (l_evs l = [EvBegin KRej] /\ stop_rej s' = true)).
Proof.
  intros s t s' l Hs H1 H2. destr s. unfold in_stop, at_stop_lock, stop_rej in *. simpl in *.
  cases Hs t; simpl in *; try discriminate; try congruence.
  all: try (repeat split; auto; fail).
Qed.

(* the step with which a stop returns: the controller's; the thread has been joined; op X returns Device_Ok and leaves
   the HAL state Armed, the rejected set returns the device's Device_Err and leaves AwaitingConfiguration *)
Lemma stop_return_step : forall s t s' l, step s t = Some (s', l) -> in_stop s = true -> in_stop s' = false ->
  t = Ctl /\ live s' = false /\ running s' = running s /\
  ((stop_rej s = false /\ l_evs l = [EvRet KStop 0] /\ hal s' = HArmed) \/
   (stop_rej s = true /\ l_evs l = [EvRet KRej 1] /\ hal s' = HAwait)).
Proof.
  intros s t s' l Hs H1 H2. destr s. unfold in_stop, stop_rej in *. simpl in *.
  cases Hs t; simpl in *; try discriminate; try congruence.
  all: try (repeat split; auto; fail).
Qed.

(* the stop is the same in both cases: which one is in progress changes nothing before the returning step *)
Lemma stop_rej_stable : forall s t s' l, step s t = Some (s', l) -> in_stop s = true -> in_stop s' = true ->
  stop_rej s' = stop_rej s.
Proof.
  intros s t s' l Hs H1 H2. destr s. unfold in_stop, stop_rej in *. simpl in *.
  cases Hs t; simpl in *; try discriminate; try congruence; reflexivity.
Qed.

Lemma stop_unblocks_reach : forall c cs, c_fix9 c = true ->
  let s := reach c cs in
  in_stop s = true ->
  running s = false /\ (mu s <= 12)%nat /\
  (exists t s' l, Dstop s t = true /\ step s t = Some (s', l) /\ l_spurious l = false) /\
  (forall cs', (mu s + snd (stop_tally s cs') < fst (stop_tally s cs'))%nat ->
               exists n, in_stop (reach c (cs ++ firstn n cs')) = false).
Proof.
  intros c cs Hc s Hst. pose proof (reach_inv c cs Hc) as HI. fold s in HI.
  split; [exact (proj2 (i_stop _ (inv_life _ HI) Hst))|].
  split; [apply mu_le_12|]. split.
  - apply stop_live; auto. unfold stop_returned. rewrite Hst. reflexivity.
  - intros cs' H. destruct (stop_progress c cs cs' Hc) as (n & Hn).
    + fold s. rewrite Nat.mul_1_l. exact H.
    + exists n. unfold stop_returned in Hn. apply negb_true_iff in Hn. exact Hn.
Qed.

Lemma caller_released_reach : forall c cs, c_fix9 c = true ->
  let s := reach c cs in
  running s = false ->
  (cpc s = CPre -> at_stop_lock s = true) /\
  (cpc s = CWait -> cnot s = false -> at_stop_lock s = true) /\
  (forall s' l, cpc s = CLock \/ cpc s = CWait -> step s Cal = Some (s', l) ->
     l_evs l = [EvGet 0 false (-1)] /\ deliv s' = deliv s /\ cpc s' = cnext (cscript s)).
Proof. intros c cs Hc s Hr. apply caller_released; auto. apply reach_inv; auto. Qed.

Lemma restart_reach : forall c cs t s' l, c_fix9 c = true ->
  let s := reach c cs in
  step s t = Some (s', l) -> In (EvRet KStart 0) (l_evs l) ->
  t = Ctl /\ hal s = HArmed /\ hal s' = HRunning /\ spc s' = SCreate /\ running s' = true /\
  gen s' = 0 /\ ext s' = 0 /\ deliv s' = [] /\ fid s' = -1 /\ last s' = -1 /\ fbuf s' = -1 /\
  triggered s' = false /\ gated s' = enable s' /\ runs s' = runs s + 1.
Proof.
  intros c cs t s' l Hc s Hs Hin.
  destruct (restart_step _ _ _ _ Hs Hin) as (A & B & C & D & E & F & G & H & I & J & K & L & M & N).
  repeat split; auto. apply L. exact (i_fix _ (inv_life _ (reach_inv c cs Hc))).
Qed.

Lemma publish_reach : forall c cs s' l, c_fix9 c = true ->
  let s := reach c cs in
  spc s = SLock2 -> step s Str = Some (s', l) ->
  fid s' = gen s - 1 /\ fbuf s' = gen s - 1 /\ gen s' = gen s /\ wanted s' = false.
Proof. intros c cs s' l Hc. exact (publish_step (reach c cs) s' l (reach_inv c cs Hc)). Qed.

(* ------------------------------------------------------------------ 5. a set the device rejects; AwaitingConfiguration *)
(* everything that is true of the step with which a rejected set returns: Device_Err, the HAL state is
   AwaitingConfiguration, the camera is not running; nothing of the configuration or of the run's counters changed; on a
   Running camera it is the last step of a complete stop (thread joined), otherwise the op is a single block that touches
   nothing but the HAL state *)

Lemma rejected_set_step : forall s t s' l rc, Inv s -> step s t = Some (s', l) -> In (EvRet KRej rc) (l_evs l) ->
  t = Ctl /\ rc = 1 /\ hal s' = HAwait /\ running s' = false /\ in_stop s' = false /\
  enable s' = enable s /\ gated s' = gated s /\ deliv s' = deliv s /\ ext s' = ext s /\ gen s' = gen s /\
  runs s' = runs s /\ spc s' = spc s /\
  ((hal s = HRunning /\ in_stop s = true /\ stop_rej s = true /\ live s' = false) \/
   (hal s <> HRunning /\ in_stop s = false /\ l_evs l = [EvBegin KRej; EvRet KRej 1] /\ live s' = live s /\
    triggered s' = triggered s /\ wanted s' = wanted s /\ fid s' = fid s /\ last s' = last s)).
Proof.
  intros s t s' l rc [HL _ _ _] Hs Hin. destr s. destruct HL. unfold in_stop, stop_rej in *. simpl in *.
  cases Hs t; simpl in Hin.
  all: try (exfalso; intuition discriminate).
  all: repeat match goal with H : _ \/ _ |- _ => destruct H end; try contradiction; try discriminate.
  all: match goal with H : EvRet _ _ = EvRet _ _ |- _ => inversion H; subst; clear H end.
  all: simpl.
  all: try (destruct i_stop as [Hh Hr]; [reflexivity|]; subst).
  all: repeat split; auto; try reflexivity.
  all: try (destruct r_; [destruct i_run1 as [Hx _]; [reflexivity|discriminate]|reflexivity]).
  all: try (right; repeat split; auto; discriminate).
  all: try (left; repeat split; auto; fail).
Qed.

Lemma start_refused_step : forall s t s' l, step s t = Some (s', l) -> In EvSkip (l_evs l) ->
  t = Ctl /\ hal s <> HArmed /\ l_evs l = [EvBegin KStart; EvSkip] /\
  hal s' = hal s /\ running s' = running s /\ runs s' = runs s /\ spc s' = spc s /\ live s' = live s /\
  gen s' = gen s /\ ext s' = ext s /\ deliv s' = deliv s /\ gated s' = gated s /\
  fid s' = fid s /\ last s' = last s /\ triggered s' = triggered s /\ enable s' = enable s.
Proof.
  intros s t s' l Hs Hin. destr s. simpl in *.
  cases Hs t; simpl in Hin.
  all: try (exfalso; intuition discriminate).
  all: repeat split; auto; discriminate.
Qed.

Lemma await_refuses_start : forall s r s' l, hal s = HAwait -> kpc s = KIdle -> kscript s = KStart :: r ->
  step s Ctl = Some (s', l) ->
  l_evs l = [EvBegin KStart; EvSkip] /\ hal s' = HAwait /\ runs s' = runs s /\ running s' = running s /\ spc s' = spc s /\
  kscript s' = r.
Proof.
  intros s r s' l Hh Hk Hscr Hs. destr s. simpl in *. subst. simpl in Hs. unfold kstep in Hs. simpl in Hs.
  inversion Hs; subst; clear Hs. destruct r; simpl; repeat split.
Qed.

(* AwaitingConfiguration is left only by a set the device accepts *)
Lemma await_step : forall s t s' l, Inv s -> step s t = Some (s', l) -> hal s = HAwait ->
  hal s' = HAwait \/ (exists e, l_evs l = [EvRet (KSet e) 0] /\ hal s' = HArmed /\ enable s' = e).
Proof.
  intros s t s' l [HL _ _ _] Hs Hh. destr s. destruct HL. unfold in_stop in *. simpl in *. subst.
  cases Hs t; simpl.
  all: try (left; reflexivity).
  all: try (right; eexists; repeat split; fail).
  all: try (destruct i_stop as [Hx _]; [reflexivity|discriminate]).
Qed.

Lemma await_quiescent : forall s, Inv s -> hal s = HAwait ->
  running s = false /\ in_stop s = false /\ (spc s = SNone \/ spc s = SDone).
Proof.
  intros s [HL _ _ _] Hh.
  assert (Hr : running s = false).
  { destruct (running s) eqn:E; [|reflexivity]. destruct (i_run1 _ HL E) as [Hx _]. congruence. }
  assert (Hi : in_stop s = false).
  { destruct (in_stop s) eqn:E; [|reflexivity]. destruct (i_stop _ HL E) as [Hx _]. congruence. }
  repeat split; auto. apply (i_sdone _ HL Hr Hi).
Qed.

Lemma rejected_set_reach : forall c cs t s' l rc, c_fix9 c = true ->
  let s := reach c cs in
  step s t = Some (s', l) -> In (EvRet KRej rc) (l_evs l) ->
  t = Ctl /\ rc = 1 /\ hal s' = HAwait /\ running s' = false /\ in_stop s' = false /\
  enable s' = enable s /\ gated s' = gated s /\ deliv s' = deliv s /\ ext s' = ext s /\ gen s' = gen s /\
  runs s' = runs s /\ spc s' = spc s /\
  ((hal s = HRunning /\ in_stop s = true /\ stop_rej s = true /\ live s' = false) \/
   (hal s <> HRunning /\ in_stop s = false /\ l_evs l = [EvBegin KRej; EvRet KRej 1] /\ live s' = live s /\
    triggered s' = triggered s /\ wanted s' = wanted s /\ fid s' = fid s /\ last s' = last s)).
Proof. intros c cs t s' l rc Hc s. apply rejected_set_step. apply reach_inv; auto. Qed.

Lemma await_reach : forall c cs, c_fix9 c = true ->
  let s := reach c cs in
  hal s = HAwait ->
  running s = false /\ in_stop s = false /\ (spc s = SNone \/ spc s = SDone) /\
  (forall t s' l, step s t = Some (s', l) ->
     hal s' = HAwait \/ (exists e, l_evs l = [EvRet (KSet e) 0] /\ hal s' = HArmed /\ enable s' = e)) /\
  (forall r s' l, kpc s = KIdle -> kscript s = KStart :: r -> step s Ctl = Some (s', l) ->
     l_evs l = [EvBegin KStart; EvSkip] /\ hal s' = HAwait /\ runs s' = runs s /\ running s' = running s /\
     spc s' = spc s /\ kscript s' = r).
Proof.
  intros c cs Hc s Hh. pose proof (reach_inv c cs Hc) as HI. fold s in HI.
  destruct (await_quiescent s HI Hh) as (A & B & C).
  repeat split; auto.
  - intros t s' l Hs. eapply await_step; eauto.
  - eapply await_refuses_start; eauto.
  - eapply await_refuses_start; eauto.
  - eapply await_refuses_start; eauto.
  - eapply await_refuses_start; eauto.
  - eapply await_refuses_start; eauto.
  - eapply await_refuses_start; eauto.
Qed.
