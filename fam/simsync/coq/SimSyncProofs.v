(* SimSyncProofs.v -- invariants of the SimSync system and the lemmas behind Properties_C18.v. *)
From Coq Require Import ZArith List Bool Lia Sorted.
From SimSync Require Import Sched SimSync.
Import ListNotations.
Open Scope Z_scope.

(* ------------------------------------------------------------------ lists of delivered ids (newest first) *)
(* every element is in [0, hi] and the list is strictly decreasing *)
Fixpoint dec_from (hi : Z) (l : list Z) : Prop :=
  match l with
  | [] => True
  | d :: r => 0 <= d <= hi /\ dec_from (d - 1) r
  end.

Lemma dec_from_mono : forall l hi hi', dec_from hi l -> hi <= hi' -> dec_from hi' l.
Proof. destruct l; simpl; intros; auto. intuition lia. Qed.

Lemma dec_from_len : forall l hi, dec_from hi l -> -1 <= hi -> Z.of_nat (length l) <= hi + 1.
Proof.
  induction l as [|d r IH]; simpl length; intros hi H Hhi.
  - simpl. lia.
  - destruct H as [Hd Hr]. specialize (IH _ Hr). lia.
Qed.

Lemma dec_from_bound : forall l hi, dec_from hi l -> Forall (fun d => 0 <= d <= hi) l.
Proof.
  induction l as [|d r IH]; intros hi H; constructor.
  - destruct H; auto.
  - destruct H as [Hd Hr]. specialize (IH _ Hr).
    eapply Forall_impl; [|exact IH]. simpl. intros. lia.
Qed.

Lemma dec_from_sorted : forall l hi, dec_from hi l -> StronglySorted Z.gt l.
Proof.
  induction l as [|d r IH]; intros hi H; constructor.
  - destruct H as [_ Hr]. eauto.
  - destruct H as [_ Hr]. apply dec_from_bound in Hr.
    eapply Forall_impl; [|exact Hr]. simpl. intros. lia.
Qed.

(* ------------------------------------------------------------------ the invariant, in four layers *)
Definition b2z (b : bool) : Z := if b then 1 else 0.

Definition s_inited (p : SPc) : Prop := match p with SNone | SCreate => False | _ => True end.

(* In a run that has been gated throughout, the frames generated so far plus a pending trigger never exceed the
   external triggers -- except for the one trigger that stop itself fires (after it cleared is_running). *)
Definition at_stop_join (s : St) : bool := match kpc s with KStopJoin _ => true | _ => false end.

Definition slack (s : St) : Z :=
  match hal s, kpc s with
  | HRunning, KStopJoin _ => 1
  | HRunning, _ => 0
  | _, _ => 1
  end.

(* life cycle: HAL state, is_running, the streamer thread *)
Record Life (s : St) : Prop := mkLife {
  i_fix : fix9 s = true;
  i_run1 : running s = true -> hal s = HRunning /\ in_stop s = false;
  i_run2 : hal s = HRunning -> in_stop s = false -> running s = true;
  i_stop : in_stop s = true -> hal s = HRunning /\ running s = false;
  i_live : hal s = HRunning -> live s = true;
  i_live2 : live s = true -> spc s <> SNone;
  i_sdone : running s = false -> in_stop s = false -> spc s = SNone \/ spc s = SDone;
  i_trap : cpc s <> CTrap
}.

(* wake-up protocol of stop (the one of op X and the one performed inside a rejected set, op b: at_stop_lock /
   at_stop_join do not distinguish them) *)
Record Wake (s : St) : Prop := mkWake {
  l_cpre : running s = false -> cpc s = CPre -> at_stop_lock s = true;
  l_cwait : running s = false -> cpc s = CWait -> cnot s = false -> at_stop_lock s = true;
  l_spre : running s = false -> spc s = SPre -> at_stop_lock s = true;
  l_swait : running s = false -> spc s = SWait -> snot s = false -> at_stop_lock s = true;
  l_snot : spc s = SWait -> snot s = true -> triggered s = true;
  l_trig : running s = false -> at_stop_join s = true -> spc s = SLock1 \/ spc s = SWait -> triggered s = true
}.

(* frame ids *)
Record Ids (s : St) : Prop := mkIds {
  i_last : -1 <= last s <= fid s;
  i_fid : spc s <> SNone -> fid s <= gen s - 1;
  i_sloc : s_inited (spc s) -> sloc s = gen s - 1;
  i_create : spc s = SCreate -> fid s = gen s - 1;
  i_fbuf : spc s <> SNone -> fbuf s = fid s;
  i_deliv : dec_from (last s) (deliv s)
}.

(* trigger gating *)
Record Gate (s : St) : Prop := mkGate {
  i_gated_en : gated s = true -> enable s = true;
  i_gated_gen : gated s = true -> gen s + b2z (triggered s) <= ext s + slack s;
  i_gated_del : gated s = true -> Z.of_nat (length (deliv s)) <= ext s;
  i_setpc1 : forall e, kpc s = KSetTrigLock e -> gated s = false;
  i_setpc2 : kpc s = KSetLock false -> gated s = false
}.

Record Inv (s : St) : Prop := mkInv { inv_life : Life s; inv_wake : Wake s; inv_ids : Ids s; inv_gate : Gate s }.

Lemma inv_init : forall c, c_fix9 c = true -> Inv (init c).
Proof.
  intros c Hc. repeat constructor; simpl; auto; try congruence; try (intros; discriminate); try tauto.
Qed.

(* ------------------------------------------------------------------ preservation *)
Ltac brk H :=
  match type of H with
  | context [match ?x with _ => _ end] =>
    match x with
    | andb ?a _ => destruct a eqn:?; simpl in H
    | orb ?a _ => destruct a eqn:?; simpl in H
    | negb ?a => destruct a eqn:?; simpl in H
    | Z.leb ?a ?b => destruct (Z.leb_spec a b); simpl in H
    | _ => destruct x eqn:?; simpl in H
    end
  end.

(* case analysis of one step: one goal per path through the block *)
Ltac cases Hs c :=
  destruct c; simpl in Hs;
  unfold kstep, cstep, sstep, c_loop, s_iter, do_trigger, ghost_start, s_after_sleep, s_loop_test, lock_free,
  hal_running, ctl_done, in_stop, stop_hal, stop_ret in Hs; simpl in Hs;
  repeat brk Hs; try discriminate; inversion Hs; subst; clear Hs;
  repeat match goal with
         | |- context [knext ?l] => destruct l; simpl knext
         | |- context [cnext ?l] => destruct l; simpl cnext
         end.

Definition blocked (P : Prop) : Prop := P.

Ltac prem :=
  first [ reflexivity | discriminate | assumption | exact I
        | left; first [ reflexivity | assumption ]
        | right; first [ reflexivity | assumption ] ].

Ltac norm :=
  repeat match goal with
         | H : _ /\ _ |- _ => destruct H
         | H : _ \/ _ |- _ => destruct H
         | H : False |- _ => destruct H
         end;
  subst; try discriminate.

Ltac spec_round :=
  repeat match goal with
         | H : ?P -> ?Q |- _ =>
           first [ (let HP := fresh in
                    assert (HP : P) by (clear H; prem); specialize (H HP); clear HP)
                 | change (blocked (P -> Q)) in H ]
         end;
  unfold blocked in *; norm.

Ltac atom := first [ assumption | reflexivity | discriminate | contradiction | lia | congruence ].

Ltac fin :=
  intros; norm; spec_round; spec_round; spec_round;
  first [ atom | split; atom | left; atom | right; atom ].

(* second chance: split on the program counters that still occur under a match in some hypothesis *)
Ltac fin2 :=
  intros; norm;
  repeat match goal with
         | H : context [match ?x with _ => _ end] |- _ => is_var x; destruct x; simpl in *; try discriminate
         end;
  fin.

Ltac decf :=
  intros; norm; spec_round; spec_round; spec_round;
  match goal with
  | |- _ /\ dec_from _ _ => split; [ lia | eapply dec_from_mono; [ eassumption | lia ] ]
  | |- dec_from _ _ => first [ assumption | exact I | eapply dec_from_mono; [ eassumption | lia ] ]
  end.

Ltac gfin :=
  intros;
  repeat match goal with
         | H : forall e : bool, _ = KSetTrigLock e -> _ |- _ => first [ specialize (H _ eq_refl) | clear H ]
         end;
  repeat match goal with
         | H : KSetLock ?e = KSetLock false -> _ |- _ => is_var e; destruct e
         end;
  norm; spec_round;
  repeat match goal with
         | H : context [match ?x with _ => _ end] |- _ => is_var x; destruct x; simpl in *; try discriminate
         | |- context [match ?x with _ => _ end] => is_var x; destruct x; simpl in *; try discriminate
         end;
  fin.

Ltac destr s :=
  destruct s as [r_ e_ t_ w_ fid_ last_ live_ hal_ spc_ sloc_ snot_ cpc_ cnot_ cs_ kpc_ ks_ spur_ fix_ gen_ ext_ del_ gat_ fbuf_ runs_].

Lemma life_step : forall s c s' l, Life s -> step s c = Some (s', l) -> Life s'.
Proof.
  intros s c s' l HL Hs. destr s. destruct HL. simpl in *.
  cases Hs c.
  all: constructor; unfold in_stop, at_stop_lock, at_stop_join in *; simpl in *.
  all: try (fin; fail).
Qed.

Lemma wake_step : forall s c s' l, Life s -> Wake s -> step s c = Some (s', l) -> Wake s'.
Proof.
  intros s c s' l HL HW Hs. destr s. destruct HL, HW. simpl in *.
  cases Hs c.
  all: constructor; unfold in_stop, at_stop_lock, at_stop_join in *; simpl in *.
  all: try (fin; fail).
  all: try (fin2; fail).
Qed.

Lemma ids_step : forall s c s' l, Life s -> Ids s -> step s c = Some (s', l) -> Ids s'.
Proof.
  intros s c s' l HL HW Hs. destr s. destruct HL, HW. simpl in *.
  cases Hs c.
  all: constructor; unfold in_stop, at_stop_lock, at_stop_join in *; simpl in *.
  all: try (fin; fail).
  all: try (decf; fail).
Qed.

Lemma gate_step : forall s c s' l, Life s -> Ids s -> Gate s -> step s c = Some (s', l) -> Gate s'.
Proof.
  intros s c s' l HL HI HG Hs.
  pose proof (dec_from_len _ _ (i_deliv _ HI)) as Hlen.
  destr s. destruct HL, HI, HG. simpl in *.
  cases Hs c.
  all: constructor; unfold in_stop, at_stop_lock, at_stop_join, slack, b2z in *; simpl in *.
  all: try assumption.
  all: try (fin; fail).
  all: try (gfin; fail).
Qed.

Lemma inv_step : forall s c s' l, Inv s -> step s c = Some (s', l) -> Inv s'.
Proof.
  intros s c s' l [HL HW HI HG] Hs. constructor.
  - eapply life_step; eauto.
  - eapply wake_step; eauto.
  - eapply ids_step; eauto.
  - eapply gate_step; eauto.
Qed.

