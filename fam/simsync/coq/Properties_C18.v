From SimSync Require Import SimSync Sched.
