(* Properties_C18.v -- C18: simulated cameras deliver fresh, increasing, trigger-gated frames; stop unblocks.

   Model: SimSync.v -- one transition per block between two scheduling points of the streamer thread
   (simulated_camera_streamer_thread), the caller (simcam_get_frame behind camera_get_frame) and the controller
   (start / stop / execute_trigger / set behind the HAL wrappers -- a set the device accepts, and a set the device REJECTS,
   on which the HAL's camera_set stops a Running camera and stores AwaitingConfiguration), over any number of runs of one
   device, for the code
   WITH fixes/01-simcam-start-clears-stale-trigger.patch (c_fix9 = true: simcam_start clears software_trigger.triggered).

     reach c cs    the state after ANY schedule cs : list Tid (any length; choices that are not enabled are skipped)
                   from the initial state of ANY configuration c (initial trigger enable, spurious wake-ups allowed or
                   not, any controller script over start/stop/trigger/set e/set d/rejected set/pause, any caller script)
     labels c cs   the labels of the steps taken (scheduling point left, events = return codes and delivered ids)

   Ghost fields of the state (C18_ghost_is_trace says they are functions of the observable events alone):
     deliv   hardware ids handed out by get_frame in the current run, newest first      gen   frames generated (++frame_id)
     ext     external triggers that reached the device in the current run                      in the current run
     gated   frame_start.enable was 1 at the start of the current run and no set has switched it off since
     fbuf    generation index (0-based, within the current run) of the frame held by im.frame_data

   Every theorem is for all configurations, all schedules of all lengths (invariant + induction, no bound).
   Liveness (C18_stop_unblocks) is bounded progress; that enabled threads are eventually scheduled is assumed. *)
From Coq Require Import ZArith List Bool Lia Sorted.
From SimSync Require Import Sched SimSync SimSyncProofs SimSyncThms.
Import ListNotations.
Local Open Scope Z_scope.

(* The ghost fields are what an observer computes from the events of the trace (sets returned, starts returned,
   forwarded triggers returned, frames handed out): they add no information of their own. *)
Theorem C18_ghost_is_trace : forall c cs,
  (enable (reach c cs), gated (reach c cs), ext (reach c cs), deliv (reach c cs)) =
  fold_left lab_obs (labels c cs) (c_enable c, false, 0, []).
Proof. exact ghost_is_trace. Qed.
Print Assumptions C18_ghost_is_trace.

(* Within a run the delivered hardware ids are strictly increasing (newest first: strictly decreasing list), hence no
   frame is handed out twice; and every step that hands out a frame returns Device_Ok with an id that is >= 0 and larger
   than every id handed out before in this run. *)
Theorem C18_increasing : forall c cs, c_fix9 c = true ->
  let s := reach c cs in
  StronglySorted Z.gt (deliv s) /\
  forall t s' l rc id, step s t = Some (s', l) -> In (EvGet rc true id) (l_evs l) ->
    rc = 0 /\ 0 <= id /\ Forall (fun d => d < id) (deliv s) /\ deliv s' = id :: deliv s.
Proof. exact increasing_reach. Qed.
Print Assumptions C18_increasing.

(* The id counts every frame the camera generated: the published id and the frame in frame_data both carry the
   generation index fbuf (number of frames generated before it in this run), the streamer's counter is gen - 1, and a
   delivered frame's id is exactly that index -- so a gap in the delivered ids is a generated frame nobody fetched. *)
Theorem C18_counts_all : forall c cs, c_fix9 c = true ->
  let s := reach c cs in
  (spc s <> SNone -> fid s = fbuf s /\ fbuf s <= gen s - 1) /\
  (s_inited (spc s) -> sloc s = gen s - 1) /\
  (forall t s' l rc id, step s t = Some (s', l) -> In (EvGet rc true id) (l_evs l) ->
     id = fbuf s /\ 0 <= id <= gen s - 1) /\
  Forall (fun d => 0 <= d <= gen s - 1) (deliv s).
Proof. exact counts_all_reach. Qed.
Print Assumptions C18_counts_all.

(* ... where fbuf is maintained by the publishing block: the frame just generated (index gen - 1) is swapped into
   frame_data and published under the id gen - 1. *)
Theorem C18_counts_all_publish : forall c cs s' l, c_fix9 c = true ->
  let s := reach c cs in
  spc s = SLock2 -> step s Str = Some (s', l) ->
  fid s' = gen s - 1 /\ fbuf s' = gen s - 1 /\ gen s' = gen s /\ wanted s' = false.
Proof. exact publish_reach. Qed.
Print Assumptions C18_counts_all_publish.

(* The count restarts with each start: a successful start (only possible from Armed) empties the run's ghost
   counters, resets the published and the last-emitted id to -1 and clears a pending trigger; by C18_counts_all every id
   delivered afterwards is an index among the frames generated since THIS start. *)
Theorem C18_restart : forall c cs t s' l, c_fix9 c = true ->
  let s := reach c cs in
  step s t = Some (s', l) -> In (EvRet KStart 0) (l_evs l) ->
  t = Ctl /\ hal s = HArmed /\ hal s' = HRunning /\ spc s' = SCreate /\ running s' = true /\
  gen s' = 0 /\ ext s' = 0 /\ deliv s' = [] /\ fid s' = -1 /\ last s' = -1 /\ fbuf s' = -1 /\
  triggered s' = false /\ gated s' = enable s' /\ runs s' = runs s + 1.
Proof. exact restart_reach. Qed.
Print Assumptions C18_restart.

(* ... and a start that is REFUSED (the HAL state is not Armed: the camera is Running, or it is AwaitingConfiguration
   after a set the device rejected) begins no new run: no field of the device, no counter of the run changes. *)
Theorem C18_restart_refused : forall s t s' l, step s t = Some (s', l) -> In EvSkip (l_evs l) ->
  t = Ctl /\ hal s <> HArmed /\ l_evs l = [EvBegin KStart; EvSkip] /\
  hal s' = hal s /\ running s' = running s /\ runs s' = runs s /\ spc s' = spc s /\ live s' = live s /\
  gen s' = gen s /\ ext s' = ext s /\ deliv s' = deliv s /\ gated s' = gated s /\
  fid s' = fid s /\ last s' = last s /\ triggered s' = triggered s /\ enable s' = enable s.
Proof. exact start_refused_step. Qed.
Print Assumptions C18_restart_refused.

(* AwaitingConfiguration (where a rejected set leaves the HAL): the camera is not running and no streamer thread is alive;
   the state is left only by a set the device accepts (which arms the camera); every start issued before that is refused. *)
Theorem C18_await_until_accepted_set : forall c cs, c_fix9 c = true ->
  let s := reach c cs in
  hal s = HAwait ->
  running s = false /\ in_stop s = false /\ (spc s = SNone \/ spc s = SDone) /\
  (forall t s' l, step s t = Some (s', l) ->
     hal s' = HAwait \/ (exists e, l_evs l = [EvRet (KSet e) 0] /\ hal s' = HArmed /\ enable s' = e)) /\
  (forall r s' l, kpc s = KIdle -> kscript s = KStart :: r -> step s Ctl = Some (s', l) ->
     l_evs l = [EvBegin KStart; EvSkip] /\ hal s' = HAwait /\ runs s' = runs s /\ running s' = running s /\
     spc s' = spc s /\ kscript s' = r).
Proof. exact await_reach. Qed.
Print Assumptions C18_await_until_accepted_set.

(* A set the device rejects returns Device_Err and leaves the HAL in AwaitingConfiguration with the camera NOT running;
   the trigger configuration and the run's counters are untouched.  On a Running camera that return is the last step of
   a complete stop (in_stop: the protocol of C18_stop_unblocks, thread joined); otherwise the op is one block that
   changes nothing but the HAL state. *)
Theorem C18_rejected_set : forall c cs t s' l rc, c_fix9 c = true ->
  let s := reach c cs in
  step s t = Some (s', l) -> In (EvRet KRej rc) (l_evs l) ->
  t = Ctl /\ rc = 1 /\ hal s' = HAwait /\ running s' = false /\ in_stop s' = false /\
  enable s' = enable s /\ gated s' = gated s /\ deliv s' = deliv s /\ ext s' = ext s /\ gen s' = gen s /\
  runs s' = runs s /\ spc s' = spc s /\
  ((hal s = HRunning /\ in_stop s = true /\ stop_rej s = true /\ live s' = false) \/
   (hal s <> HRunning /\ in_stop s = false /\ l_evs l = [EvBegin KRej; EvRet KRej 1] /\ live s' = live s /\
    triggered s' = triggered s /\ wanted s' = wanted s /\ fid s' = fid s /\ last s' = last s)).
Proof. exact rejected_set_reach. Qed.
Print Assumptions C18_rejected_set.

(* With the software frame trigger enabled for the whole run: never more frames delivered than external triggers of
   this run, none before the first one; moreover frames generated + a pending trigger <= external triggers (+ 1 for the
   trigger that stop itself fires to release the streamer, once stop has done so). *)
Theorem C18_gated : forall c cs, c_fix9 c = true ->
  let s := reach c cs in
  gated s = true ->
  enable s = true /\
  Z.of_nat (length (deliv s)) <= ext s /\
  (ext s = 0 -> deliv s = []) /\
  gen s + b2z (triggered s) <= ext s + slack s.
Proof. exact gated_reach. Qed.
Print Assumptions C18_gated.

(* ... and, step-wise: a delivery in a gated run happens only after at least one more external trigger than frames
   already delivered. *)
Theorem C18_gated_no_frame_before_trigger : forall c cs t s' l rc id, c_fix9 c = true ->
  let s := reach c cs in
  gated s = true -> step s t = Some (s', l) -> In (EvGet rc true id) (l_evs l) ->
  1 <= ext s /\ Z.of_nat (length (deliv s)) + 1 <= ext s.
Proof. exact gated_first. Qed.
Print Assumptions C18_gated_no_frame_before_trigger.

(* Stop always returns (bounded progress, spurious wake-ups allowed).  "Stop" is camera_stop on a Running camera,
   whoever calls it: the script op X, or camera_set's error branch when the device rejects the settings (op b) --
   in_stop covers both (C18_stop_enter_step), and which of the two it is (stop_rej) plays no role before the returning
   step (C18_stop_kind_stable, C18_stop_return_step).  Once stop has been invoked on a running camera
   (in_stop: is_running is already 0):
     - the measure mu (<= 12) strictly decreases on every non-spurious step of the controller, of the streamer, and of
       the caller while it is inside get_frame (Dstop); a spurious wake-up raises it by at most 1; other steps leave it;
     - some designated thread is enabled for a reason other than a spurious wake-up (no deadlock);
     - hence ANY continuation cs' (any threads, any order, any length) in which the designated threads take more than
       mu s + (number of spurious wake-ups) non-spurious steps contains the return of stop. *)
Theorem C18_stop_unblocks : forall c cs, c_fix9 c = true ->
  let s := reach c cs in
  in_stop s = true ->
  running s = false /\ (mu s <= 12)%nat /\
  (exists t s' l, Dstop s t = true /\ step s t = Some (s', l) /\ l_spurious l = false) /\
  (forall cs', (mu s + snd (stop_tally s cs') < fst (stop_tally s cs'))%nat ->
               exists n, in_stop (reach c (cs ++ firstn n cs')) = false).
Proof. exact stop_unblocks_reach. Qed.
Print Assumptions C18_stop_unblocks.

(* the step that begins a stop is the controller's, on a camera the HAL reports Running; it clears is_running in that very
   block and is followed by the lock acquisition of stop's trigger; it begins either op X or a rejected set (op b) *)
Theorem C18_stop_enter_step : forall s t s' l, step s t = Some (s', l) -> in_stop s = false -> in_stop s' = true ->
  t = Ctl /\ hal s = HRunning /\ hal s' = HRunning /\ running s' = false /\ at_stop_lock s' = true /\
  ((l_evs l = [EvBegin KStop] /\ stop_rej s' = false) \/ (l_evs l = [EvBegin KRej] /\ stop_rej s' = true)).
Proof. exact stop_enter_step. Qed.
Print Assumptions C18_stop_enter_step.

Theorem C18_stop_kind_stable : forall s t s' l, step s t = Some (s', l) -> in_stop s = true -> in_stop s' = true ->
  stop_rej s' = stop_rej s.
Proof. exact stop_rej_stable. Qed.
Print Assumptions C18_stop_kind_stable.

(* the step that ends a stop is the controller's and leaves the thread joined; op X returns Device_Ok with the HAL state
   Armed; the rejected set returns the device's Device_Err with the HAL state AwaitingConfiguration *)
Theorem C18_stop_return_step : forall s t s' l, step s t = Some (s', l) -> in_stop s = true -> in_stop s' = false ->
  t = Ctl /\ live s' = false /\ running s' = running s /\
  ((stop_rej s = false /\ l_evs l = [EvRet KStop 0] /\ hal s' = HArmed) \/
   (stop_rej s = true /\ l_evs l = [EvRet KRej 1] /\ hal s' = HAwait)).
Proof. exact stop_return_step. Qed.
Print Assumptions C18_stop_return_step.

(* Stop unblocks a pending frame call.  Whenever is_running is 0 (from the first block of a stop -- op X or the stop
   inside a rejected set -- until the next successful start, AwaitingConfiguration included) a
   caller inside get_frame is never asleep un-notified, nor between its check and its sleep, unless the controller is
   still at the lock acquisition that precedes its notify (which the caller's own next step then enables); and every step
   it takes from its lock acquisition or from its wait (spurious or not) RETURNS, through the shutdown exit: Device_Ok,
   buffer and info untouched, nothing delivered. *)
Theorem C18_stop_releases_caller : forall c cs, c_fix9 c = true ->
  let s := reach c cs in
  running s = false ->
  (cpc s = CPre -> at_stop_lock s = true) /\
  (cpc s = CWait -> cnot s = false -> at_stop_lock s = true) /\
  (forall s' l, cpc s = CLock \/ cpc s = CWait -> step s Cal = Some (s', l) ->
     l_evs l = [EvGet 0 false (-1)] /\ deliv s' = deliv s /\ cpc s' = cnext (cscript s)).
Proof. exact caller_released_reach. Qed.
Print Assumptions C18_stop_releases_caller.

(* ------------------------------------------------------------------------------------------------------------------
   Non-vacuity: reachable, non-trivial states that meet the hypotheses (vm_compute over one schedule is a test of the
   examples, not the theorems). *)
Definition K := Ctl.  Definition C := Cal.  Definition R := Str.

(* a gated run with two external triggers and two deliveries (ids 0, 1), then stop invoked with a third get_frame asleep *)
Definition cfg_gated : Config := mkConfig true false true [KStart; KTrig; KTrig; KStop; KPause; KPause; KPause] [CGet; CGet; CGet].
Definition sch_gated : list Tid :=
  [K;K;C;C;C;C;R;R;R;K;K;R;R;R;C;C;C;C;R;R;K;K;R;R;R;C].

Example ex_gated_two_deliveries :
  let s := reach cfg_gated sch_gated in
  gated s = true /\ running s = true /\ deliv s = [1; 0] /\ ext s = 2 /\ gen s = 2 /\ fbuf s = 1.
Proof. vm_compute. repeat split. Qed.

(* the delivery step itself: hypotheses of C18_increasing / C18_counts_all / C18_gated_no_frame_before_trigger *)
Example ex_delivery_step :
  let s := reach cfg_gated (firstn 25 sch_gated) in
  gated s = true /\ deliv s = [0] /\ ext s = 2 /\
  exists s' l, step s Cal = Some (s', l) /\ In (EvGet 0 true 1) (l_evs l).
Proof. vm_compute. repeat split. do 2 eexists. split; [reflexivity|left; reflexivity]. Qed.

(* the publishing step: hypothesis of C18_counts_all_publish *)
Example ex_publish_step :
  let s := reach cfg_gated (firstn 24 sch_gated) in
  spc s = SLock2 /\ gen s = 2 /\ exists s' l, step s Str = Some (s', l) /\ fid s' = 1.
Proof. vm_compute. repeat split. do 2 eexists. split; reflexivity. Qed.

(* stop invoked while the third get_frame is asleep on frame_ready, un-notified, and the streamer waits for a trigger:
   hypotheses of C18_stop_unblocks and C18_stop_releases_caller; five more steps and both have returned *)
Example ex_stop_pending :
  let s := reach cfg_gated (sch_gated ++ [C;C;C;R;R;K]) in
  in_stop s = true /\ running s = false /\ cpc s = CWait /\ cnot s = false /\ spc s = SWait /\ kpc s = KStopLock false /\
  mu s = 8%nat /\
  let s2 := reach cfg_gated (sch_gated ++ [C;C;C;R;R;K] ++ [K;C;R;R;R;K]) in
  in_stop s2 = false /\ hal s2 = HArmed /\ cpc s2 = CExit /\ deliv s2 = [1; 0].
Proof. vm_compute. repeat split. Qed.

(* the hypothesis of the progress clause: a continuation in which the designated threads take more than mu s steps
   (here 10 > 8; stop returns with the 6th) *)
Example ex_stop_tally :
  let s := reach cfg_gated (sch_gated ++ [C;C;C;R;R;K]) in
  stop_tally s [K;C;R;R;R;K;K;K;K;K] = (10%nat, 0%nat) /\
  (mu s + snd (stop_tally s [K;C;R;R;R;K;K;K;K;K]) < fst (stop_tally s [K;C;R;R;R;K;K;K;K;K]))%nat.
Proof. vm_compute. split; [reflexivity|]. repeat constructor. Qed.

(* with spurious wake-ups allowed: the streamer wakes spuriously twice before stop's trigger and re-parks; stop still
   returns, and the continuation meets the hypothesis 8 + 2 < 12 *)
Definition cfg_spur : Config := mkConfig true true true [KStart; KStop; KPause; KPause; KPause] [CGet].
Definition sch_spur : list Tid := [R;R;R;R;K;R;C;R;R;K;K;K;K;K].
Example ex_stop_spurious :
  let s := reach cfg_spur [K;K;C;C;C;C;R;R;R;K] in
  in_stop s = true /\ spur s = true /\ spc s = SWait /\ snot s = false /\ mu s = 8%nat /\
  stop_tally s sch_spur = (12%nat, 2%nat) /\
  in_stop (reach cfg_spur ([K;K;C;C;C;C;R;R;R;K] ++ firstn 10 sch_spur)) = false.
Proof. vm_compute. repeat split. Qed.

(* restart: an un-gated run delivers id 1 (frame 0 was generated and never fetched: the id counts it), is stopped, and
   the next run's first delivery is id 0 again: hypotheses of C18_restart (the start step) and its effect *)
Definition cfg_restart : Config := mkConfig false false true [KStart; KStop; KStart] [CGet; CGet].
Definition sch_restart : list Tid := [K;K;R;R;R;R;C;C;C;C;R;R;C; K;K;R;R;R;K; K;R;R;C;C;C;R;R;C].

Example ex_restart :
  let s1 := reach cfg_restart (firstn 13 sch_restart) in
  let s2 := reach cfg_restart (firstn 19 sch_restart) in
  let s3 := reach cfg_restart sch_restart in
  deliv s1 = [1] /\ gen s1 = 2 /\
  hal s2 = HArmed /\ gen s2 = 3 /\ fid s2 = 2 /\ triggered s2 = false /\
  (exists s' l, step s2 Ctl = Some (s', l) /\ In (EvRet KStart 0) (l_evs l)) /\
  runs s3 = 2 /\ deliv s3 = [0] /\ gen s3 = 1.
Proof. vm_compute. repeat split. do 2 eexists. split; [reflexivity|right; left; reflexivity]. Qed.

(* a set the device rejects, issued on a gated run with a get_frame asleep un-notified and the streamer waiting for a
   trigger that never comes: hypotheses of C18_stop_unblocks / C18_stop_releases_caller / C18_stop_enter_step (the
   entering step is s0 -> s) with stop_rej = true; six more steps and the caller has left through the shutdown exit and the
   set has returned Device_Err with the HAL AwaitingConfiguration (hypotheses of C18_stop_return_step, C18_rejected_set);
   the next start is refused (C18_restart_refused, C18_await_until_accepted_set); a set the device accepts re-arms the
   camera and the start after it begins run 2 (C18_restart), whose first delivery is id 0 after one trigger *)
Definition cfg_rej : Config :=
  mkConfig true false true [KStart; KRej; KStart; KSet true; KStart; KTrig; KStop] [CGet; CGet].
Definition sch_rej0 : list Tid := [K;K;C;C;C;C;R;R;R].
Definition sch_rej1 : list Tid := [K;C;R;R;R;K].
Definition sch_rej2 : list Tid := [K;K;K;K; C;C;C; R;R;R; K;K; R;R;R; C].

Example ex_rejected_set_stops :
  let s0 := reach cfg_rej sch_rej0 in
  let s := reach cfg_rej (sch_rej0 ++ [K]) in
  in_stop s0 = false /\ hal s0 = HRunning /\ gated s0 = true /\ ext s0 = 0 /\
  in_stop s = true /\ stop_rej s = true /\ at_stop_lock s = true /\ running s = false /\
  cpc s = CWait /\ cnot s = false /\ spc s = SWait /\ snot s = false /\ mu s = 8%nat /\
  stop_tally s sch_rej1 = (6%nat, 0%nat) /\
  let s5 := reach cfg_rej (sch_rej0 ++ [K] ++ firstn 5 sch_rej1) in
  in_stop s5 = true /\ cpc s5 = CIdle /\ deliv s5 = [] /\
  (exists s' l, step s5 Ctl = Some (s', l) /\ l_evs l = [EvRet KRej 1] /\ in_stop s' = false) /\
  let s6 := reach cfg_rej (sch_rej0 ++ [K] ++ sch_rej1) in
  in_stop s6 = false /\ hal s6 = HAwait /\ running s6 = false /\ live s6 = false /\ spc s6 = SDone /\ runs s6 = 1 /\
  (exists s' l, step s6 Ctl = Some (s', l) /\ l_evs l = [EvBegin KStart; EvSkip] /\ hal s' = HAwait /\ runs s' = 1).
Proof.
  vm_compute. repeat split; try (do 2 eexists; repeat split).
Qed.

Example ex_rearmed_after_rejected_set :
  let s3 := reach cfg_rej (sch_rej0 ++ [K] ++ sch_rej1 ++ firstn 3 sch_rej2) in
  let s9 := reach cfg_rej (sch_rej0 ++ [K] ++ sch_rej1 ++ sch_rej2) in
  hal s3 = HArmed /\ runs s3 = 1 /\
  (exists s' l, step s3 Ctl = Some (s', l) /\ In (EvRet KStart 0) (l_evs l) /\ runs s' = 2) /\
  runs s9 = 2 /\ gated s9 = true /\ ext s9 = 1 /\ deliv s9 = [0] /\ hal s9 = HRunning.
Proof.
  vm_compute. repeat split. do 2 eexists. repeat split. right; left; reflexivity.
Qed.

(* a rejected set on a camera that is not running (here: before the first start) is a single block *)
Example ex_rejected_set_while_stopped :
  let s := reach (mkConfig true false true [KRej; KStart] []) [K] in
  hal s = HArmed /\
  exists s' l, step s Ctl = Some (s', l) /\ l_evs l = [EvBegin KRej; EvRet KRej 1] /\ hal s' = HAwait /\ in_stop s' = false.
Proof. vm_compute. split; [reflexivity|]. do 2 eexists. repeat split. Qed.

(* ------------------------------------------------------------------------------------------------------------------
   D9.  The repair is necessary: in the model of the code BEFORE the patch (c_fix9 = false: simcam_start leaves
   software_trigger.triggered as it was) the trigger that stop fires to release the streamer survives a streamer that
   exits without consuming it; the next, gated, run then generates and delivers frame 0 with no external trigger at all.
   This 17-step schedule is corpus/C18/d9_stale_trigger_after_stop.txt, which the check replays on the real code. *)
Definition cfg_d9 (fixed : bool) : Config := mkConfig true false fixed [KStart; KStop; KStart; KStop] [CGet].
Definition sch_d9 : list Tid := [K;K;K;K;R;R;K;K;C;C;C;C;R;R;R;R;C].

Example C18_gated_refuted_before_fix :
  let s := reach (cfg_d9 false) sch_d9 in
  gated s = true /\ ext s = 0 /\ deliv s = [0] /\ runs s = 2.
Proof. vm_compute. repeat split. Qed.

(* the same schedule on the repaired code: the streamer of the second run waits for a trigger, nothing is delivered *)
Example ex_d9_fixed :
  let s := reach (cfg_d9 true) sch_d9 in
  gated s = true /\ ext s = 0 /\ deliv s = [] /\ runs s = 2 /\ spc s = SWait /\ cpc s = CWait.
Proof. vm_compute. repeat split. Qed.
