(* Properties_C18.v -- C18: simulated cameras deliver fresh, increasing, trigger-gated frames; stop unblocks.

   Model: SimSync.v -- one transition per block between two scheduling points of the streamer thread
   (simulated_camera_streamer_thread), the caller (simcam_get_frame behind camera_get_frame) and the controller
   (start / stop / execute_trigger / set behind the HAL wrappers), over any number of runs of one device, for the code
   WITH fixes/01-simcam-start-clears-stale-trigger.patch (c_fix9 = true: simcam_start clears software_trigger.triggered).

     reach c cs    the state after ANY schedule cs : list Tid (any length; choices that are not enabled are skipped)
                   from the initial state of ANY configuration c (initial trigger enable, spurious wake-ups allowed or
                   not, any controller script over start/stop/trigger/set e/set d/pause, any caller script)
     labels c cs   the labels of the steps taken (scheduling point left, events = return codes and delivered ids)

   Ghost fields of the state (C18_ghost_is_trace says they are functions of the observable events alone):
     deliv   hardware ids handed out by get_frame in the current run, newest first      gen   frames generated (++frame_id)
     ext     external triggers that reached the device in the current run                      in the current run
     gated   frame_start.enable was 1 at the start of the current run and no set has switched it off since
     fbuf    generation index (0-based, within the current run) of the frame held by im.frame_data

   Every theorem is for all configurations, all schedules of all lengths (invariant + induction, no bound).
   Liveness (C18_stop_unblocks) is bounded progress; that enabled threads are eventually scheduled is assumed. *)
From Coq Require Import ZArith List Bool Lia Sorted.
From SimSync Require Import Sched SimSync SimSyncProofs SimSyncThms.
Import ListNotations.
Local Open Scope Z_scope.

(* The ghost fields are what an observer computes from the events of the trace (sets returned, starts returned,
   forwarded triggers returned, frames handed out): they add no information of their own. *)
Theorem C18_ghost_is_trace : forall c cs,
  (enable (reach c cs), gated (reach c cs), ext (reach c cs), deliv (reach c cs)) =
  fold_left lab_obs (labels c cs) (c_enable c, false, 0, []).
Proof. exact ghost_is_trace. Qed.
Print Assumptions C18_ghost_is_trace.

(* Within a run the delivered hardware ids are strictly increasing (newest first: strictly decreasing list), hence no
   frame is handed out twice; and every step that hands out a frame returns Device_Ok with an id that is >= 0 and larger
   than every id handed out before in this run. *)
Theorem C18_increasing : forall c cs, c_fix9 c = true ->
  let s := reach c cs in
  StronglySorted Z.gt (deliv s) /\
  forall t s' l rc id, step s t = Some (s', l) -> In (EvGet rc true id) (l_evs l) ->
    rc = 0 /\ 0 <= id /\ Forall (fun d => d < id) (deliv s) /\ deliv s' = id :: deliv s.
Proof. exact increasing_reach. Qed.
Print Assumptions C18_increasing.

(* The id counts every frame the camera generated: the published id and the frame in frame_data both carry the
   generation index fbuf (number of frames generated before it in this run), the streamer's counter is gen - 1, and a
   delivered frame's id is exactly that index -- so a gap in the delivered ids is a generated frame nobody fetched. *)
Theorem C18_counts_all : forall c cs, c_fix9 c = true ->
  let s := reach c cs in
  (spc s <> SNone -> fid s = fbuf s /\ fbuf s <= gen s - 1) /\
  (s_inited (spc s) -> sloc s = gen s - 1) /\
  (forall t s' l rc id, step s t = Some (s', l) -> In (EvGet rc true id) (l_evs l) ->
     id = fbuf s /\ 0 <= id <= gen s - 1) /\
  Forall (fun d => 0 <= d <= gen s - 1) (deliv s).
Proof. exact counts_all_reach. Qed.
Print Assumptions C18_counts_all.

(* ... where fbuf is maintained by the publishing block: the frame just generated (index gen - 1) is swapped into
   frame_data and published under the id gen - 1. *)
Theorem C18_counts_all_publish : forall c cs s' l, c_fix9 c = true ->
  let s := reach c cs in
  spc s = SLock2 -> step s Str = Some (s', l) ->
  fid s' = gen s - 1 /\ fbuf s' = gen s - 1 /\ gen s' = gen s /\ wanted s' = false.
Proof. exact publish_reach. Qed.
Print Assumptions C18_counts_all_publish.

(* The count restarts with each start: a successful start (only possible from Armed) empties the run's ghost
   counters, resets the published and the last-emitted id to -1 and clears a pending trigger; by C18_counts_all every id
   delivered afterwards is an index among the frames generated since THIS start. *)
Theorem C18_restart : forall c cs t s' l, c_fix9 c = true ->
  let s := reach c cs in
  step s t = Some (s', l) -> In (EvRet KStart 0) (l_evs l) ->
  t = Ctl /\ hal s = HArmed /\ hal s' = HRunning /\ spc s' = SCreate /\ running s' = true /\
  gen s' = 0 /\ ext s' = 0 /\ deliv s' = [] /\ fid s' = -1 /\ last s' = -1 /\ fbuf s' = -1 /\
  triggered s' = false /\ gated s' = enable s' /\ runs s' = runs s + 1.
Proof. exact restart_reach. Qed.
Print Assumptions C18_restart.

(* With the software frame trigger enabled for the whole run: never more frames delivered than external triggers of
   this run, none before the first one; moreover frames generated + a pending trigger <= external triggers (+ 1 for the
   trigger that stop itself fires to release the streamer, once stop has done so). *)
Theorem C18_gated : forall c cs, c_fix9 c = true ->
  let s := reach c cs in
  gated s = true ->
  enable s = true /\
  Z.of_nat (length (deliv s)) <= ext s /\
  (ext s = 0 -> deliv s = []) /\
  gen s + b2z (triggered s) <= ext s + slack s.
Proof. exact gated_reach. Qed.
Print Assumptions C18_gated.

(* ... and, step-wise: a delivery in a gated run happens only after at least one more external trigger than frames
   already delivered. *)
Theorem C18_gated_no_frame_before_trigger : forall c cs t s' l rc id, c_fix9 c = true ->
  let s := reach c cs in
  gated s = true -> step s t = Some (s', l) -> In (EvGet rc true id) (l_evs l) ->
  1 <= ext s /\ Z.of_nat (length (deliv s)) + 1 <= ext s.
Proof. exact gated_first. Qed.
Print Assumptions C18_gated_no_frame_before_trigger.

(* Stop always returns (bounded progress, spurious wake-ups allowed).  Once stop has been invoked on a running camera
   (in_stop: is_running is already 0):
     - the measure mu (<= 12) strictly decreases on every non-spurious step of the controller, of the streamer, and of
       the caller while it is inside get_frame (Dstop); a spurious wake-up raises it by at most 1; other steps leave it;
     - some designated thread is enabled for a reason other than a spurious wake-up (no deadlock);
     - hence ANY continuation cs' (any threads, any order, any length) in which the designated threads take more than
       mu s + (number of spurious wake-ups) non-spurious steps contains the return of stop. *)
Theorem C18_stop_unblocks : forall c cs, c_fix9 c = true ->
  let s := reach c cs in
  in_stop s = true ->
  running s = false /\ (mu s <= 12)%nat /\
  (exists t s' l, Dstop s t = true /\ step s t = Some (s', l) /\ l_spurious l = false) /\
  (forall cs', (mu s + snd (stop_tally s cs') < fst (stop_tally s cs'))%nat ->
               exists n, in_stop (reach c (cs ++ firstn n cs')) = false).
Proof. exact stop_unblocks_reach. Qed.
Print Assumptions C18_stop_unblocks.

(* the step that ends stop is the controller's, returns Device_Ok, and leaves the HAL state Armed with the thread joined *)
Theorem C18_stop_return_step : forall s t s' l, step s t = Some (s', l) -> in_stop s = true -> in_stop s' = false ->
  t = Ctl /\ In (EvRet KStop 0) (l_evs l) /\ hal s' = HArmed /\ live s' = false.
Proof. exact stop_return_step. Qed.
Print Assumptions C18_stop_return_step.

(* Stop unblocks a pending frame call.  Whenever is_running is 0 (from the first block of stop until the next start) a
   caller inside get_frame is never asleep un-notified, nor between its check and its sleep, unless the controller is
   still at the lock acquisition that precedes its notify (which the caller's own next step then enables); and every step
   it takes from its lock acquisition or from its wait (spurious or not) RETURNS, through the shutdown exit: Device_Ok,
   buffer and info untouched, nothing delivered. *)
Theorem C18_stop_releases_caller : forall c cs, c_fix9 c = true ->
  let s := reach c cs in
  running s = false ->
  (cpc s = CPre -> kpc s = KStopLock) /\
  (cpc s = CWait -> cnot s = false -> kpc s = KStopLock) /\
  (forall s' l, cpc s = CLock \/ cpc s = CWait -> step s Cal = Some (s', l) ->
     l_evs l = [EvGet 0 false (-1)] /\ deliv s' = deliv s /\ cpc s' = cnext (cscript s)).
Proof. exact caller_released_reach. Qed.
Print Assumptions C18_stop_releases_caller.

(* ------------------------------------------------------------------------------------------------------------------
   Non-vacuity: reachable, non-trivial states that meet the hypotheses (vm_compute over one schedule is a test of the
   examples, not the theorems). *)
Definition K := Ctl.  Definition C := Cal.  Definition R := Str.

(* a gated run with two external triggers and two deliveries (ids 0, 1), then stop invoked with a third get_frame asleep *)
Definition cfg_gated : Config := mkConfig true false true [KStart; KTrig; KTrig; KStop; KPause; KPause; KPause] [CGet; CGet; CGet].
Definition sch_gated : list Tid :=
  [K;K;C;C;C;C;R;R;R;K;K;R;R;R;C;C;C;C;R;R;K;K;R;R;R;C].

Example ex_gated_two_deliveries :
  let s := reach cfg_gated sch_gated in
  gated s = true /\ running s = true /\ deliv s = [1; 0] /\ ext s = 2 /\ gen s = 2 /\ fbuf s = 1.
Proof. vm_compute. repeat split. Qed.

(* the delivery step itself: hypotheses of C18_increasing / C18_counts_all / C18_gated_no_frame_before_trigger *)
Example ex_delivery_step :
  let s := reach cfg_gated (firstn 25 sch_gated) in
  gated s = true /\ deliv s = [0] /\ ext s = 2 /\
  exists s' l, step s Cal = Some (s', l) /\ In (EvGet 0 true 1) (l_evs l).
Proof. vm_compute. repeat split. do 2 eexists. split; [reflexivity|left; reflexivity]. Qed.

(* the publishing step: hypothesis of C18_counts_all_publish *)
Example ex_publish_step :
  let s := reach cfg_gated (firstn 24 sch_gated) in
  spc s = SLock2 /\ gen s = 2 /\ exists s' l, step s Str = Some (s', l) /\ fid s' = 1.
Proof. vm_compute. repeat split. do 2 eexists. split; reflexivity. Qed.

(* stop invoked while the third get_frame is asleep on frame_ready, un-notified, and the streamer waits for a trigger:
   hypotheses of C18_stop_unblocks and C18_stop_releases_caller; five more steps and both have returned *)
Example ex_stop_pending :
  let s := reach cfg_gated (sch_gated ++ [C;C;C;R;R;K]) in
  in_stop s = true /\ running s = false /\ cpc s = CWait /\ cnot s = false /\ spc s = SWait /\ kpc s = KStopLock /\
  mu s = 8%nat /\
  let s2 := reach cfg_gated (sch_gated ++ [C;C;C;R;R;K] ++ [K;C;R;R;R;K]) in
  in_stop s2 = false /\ hal s2 = HArmed /\ cpc s2 = CExit /\ deliv s2 = [1; 0].
Proof. vm_compute. repeat split. Qed.

(* the hypothesis of the progress clause: a continuation in which the designated threads take more than mu s steps
   (here 10 > 8; stop returns with the 6th) *)
Example ex_stop_tally :
  let s := reach cfg_gated (sch_gated ++ [C;C;C;R;R;K]) in
  stop_tally s [K;C;R;R;R;K;K;K;K;K] = (10%nat, 0%nat) /\
  (mu s + snd (stop_tally s [K;C;R;R;R;K;K;K;K;K]) < fst (stop_tally s [K;C;R;R;R;K;K;K;K;K]))%nat.
Proof. vm_compute. split; [reflexivity|]. repeat constructor. Qed.

(* with spurious wake-ups allowed: the streamer wakes spuriously twice before stop's trigger and re-parks; stop still
   returns, and the continuation meets the hypothesis 8 + 2 < 12 *)
Definition cfg_spur : Config := mkConfig true true true [KStart; KStop; KPause; KPause; KPause] [CGet].
Definition sch_spur : list Tid := [R;R;R;R;K;R;C;R;R;K;K;K;K;K].
Example ex_stop_spurious :
  let s := reach cfg_spur [K;K;C;C;C;C;R;R;R;K] in
  in_stop s = true /\ spur s = true /\ spc s = SWait /\ snot s = false /\ mu s = 8%nat /\
  stop_tally s sch_spur = (12%nat, 2%nat) /\
  in_stop (reach cfg_spur ([K;K;C;C;C;C;R;R;R;K] ++ firstn 10 sch_spur)) = false.
Proof. vm_compute. repeat split. Qed.

(* restart: an un-gated run delivers id 1 (frame 0 was generated and never fetched: the id counts it), is stopped, and
   the next run's first delivery is id 0 again: hypotheses of C18_restart (the start step) and its effect *)
Definition cfg_restart : Config := mkConfig false false true [KStart; KStop; KStart] [CGet; CGet].
Definition sch_restart : list Tid := [K;K;R;R;R;R;C;C;C;C;R;R;C; K;K;R;R;R;K; K;R;R;C;C;C;R;R;C].

Example ex_restart :
  let s1 := reach cfg_restart (firstn 13 sch_restart) in
  let s2 := reach cfg_restart (firstn 19 sch_restart) in
  let s3 := reach cfg_restart sch_restart in
  deliv s1 = [1] /\ gen s1 = 2 /\
  hal s2 = HArmed /\ gen s2 = 3 /\ fid s2 = 2 /\ triggered s2 = false /\
  (exists s' l, step s2 Ctl = Some (s', l) /\ In (EvRet KStart 0) (l_evs l)) /\
  runs s3 = 2 /\ deliv s3 = [0] /\ gen s3 = 1.
Proof. vm_compute. repeat split. do 2 eexists. split; [reflexivity|right; left; reflexivity]. Qed.

(* ------------------------------------------------------------------------------------------------------------------
   D9.  The repair is necessary: in the model of the code BEFORE the patch (c_fix9 = false: simcam_start leaves
   software_trigger.triggered as it was) the trigger that stop fires to release the streamer survives a streamer that
   exits without consuming it; the next, gated, run then generates and delivers frame 0 with no external trigger at all.
   This 17-step schedule is corpus/C18/d9_stale_trigger_after_stop.txt, which the check replays on the real code. *)
Definition cfg_d9 (fixed : bool) : Config := mkConfig true false fixed [KStart; KStop; KStart; KStop] [CGet].
Definition sch_d9 : list Tid := [K;K;K;K;R;R;K;K;C;C;C;C;R;R;R;R;C].

Example C18_gated_refuted_before_fix :
  let s := reach (cfg_d9 false) sch_d9 in
  gated s = true /\ ext s = 0 /\ deliv s = [0] /\ runs s = 2.
Proof. vm_compute. repeat split. Qed.

(* the same schedule on the repaired code: the streamer of the second run waits for a trigger, nothing is delivered *)
Example ex_d9_fixed :
  let s := reach (cfg_d9 true) sch_d9 in
  gated s = true /\ ext s = 0 /\ deliv s = [] /\ runs s = 2 /\ spc s = SWait /\ cpc s = CWait.
Proof. vm_compute. repeat split. Qed.
