From Coq Require Import ZArith List Bool.
From Coq Require Import ExtrOcamlBasic.
From SimSync Require Import SimSync.
Extraction Language OCaml.
Extraction "simsyncmodel.ml" init step.
