(* Sched.v -- generic interleaving systems (DESIGN 5.2).

   A system is a partial step function  step : St -> Choice -> option (St * Label):
   `step s c = None` means "choice c (a thread) is not enabled in s".  A schedule is ANY list of
   choices; `run` executes it, skipping the choices that are not enabled, and returns the final state and
   the labels of the steps that were taken.  Two proof rules:

     invariant_rule     Inv s0, Inv preserved by every step  |-  Inv after every schedule (any length)
     bounded_progress   in a region W closed under the steps of the designated threads, a measure mu
                        that strictly decreases on each such step, plus "goal not reached => some
                        designated thread is enabled"  |-  every schedule that keeps running enabled
                        designated threads reaches the goal within mu s of their steps.
   (No proofs about a particular system in this file.) *)
From Coq Require Import List Arith Lia.
Import ListNotations.

Section Sched.
  Variables St Choice Label : Type.
  Variable step : St -> Choice -> option (St * Label).

  Fixpoint run (s : St) (cs : list Choice) : St * list Label :=
    match cs with
    | [] => (s, [])
    | c :: cs' =>
      match step s c with
      | None => run s cs'
      | Some (s', l) => let (s'', ls) := run s' cs' in (s'', l :: ls)
      end
    end.

  Definition final (s : St) (cs : list Choice) : St := fst (run s cs).
  Definition trace (s : St) (cs : list Choice) : list Label := snd (run s cs).

  Definition enabled (s : St) (c : Choice) : Prop := step s c <> None.

  Lemma final_nil : forall s, final s [] = s.
  Proof. reflexivity. Qed.

  Lemma final_cons : forall s c cs,
      final s (c :: cs) = match step s c with None => final s cs | Some (s', _) => final s' cs end.
  Proof.
    intros s c cs. unfold final. simpl. destruct (step s c) as [[s' l]|]; auto.
    destruct (run s' cs); reflexivity.
  Qed.

  Lemma final_app : forall cs1 cs2 s, final s (cs1 ++ cs2) = final (final s cs1) cs2.
  Proof.
    induction cs1 as [|c cs1 IH]; intros cs2 s; simpl.
    - reflexivity.
    - rewrite !final_cons. destruct (step s c) as [[s' l]|]; apply IH.
  Qed.

  (* ---------------------------------------------------------------- the invariant rule *)
  Theorem invariant_rule :
    forall (Inv : St -> Prop) (s0 : St),
      Inv s0 ->
      (forall s c s' l, Inv s -> step s c = Some (s', l) -> Inv s') ->
      forall cs, Inv (final s0 cs).
  Proof.
    intros Inv s0 H0 Hstep cs. revert s0 H0.
    induction cs as [|c cs IH]; intros s0 H0.
    - exact H0.
    - rewrite final_cons. destruct (step s0 c) as [[s' l]|] eqn:E.
      + apply IH. eapply Hstep; eauto.
      + apply IH. exact H0.
  Qed.

  (* every label of the trace was produced by a step from a state satisfying the invariant *)
  Theorem trace_rule :
    forall (Inv : St -> Prop) (P : Label -> Prop) (s0 : St),
      Inv s0 ->
      (forall s c s' l, Inv s -> step s c = Some (s', l) -> Inv s' /\ P l) ->
      forall cs, Forall P (trace s0 cs).
  Proof.
    intros Inv P s0 H0 Hstep cs. revert s0 H0.
    induction cs as [|c cs IH]; intros s0 H0; unfold trace in *; simpl.
    - constructor.
    - destruct (step s0 c) as [[s' l]|] eqn:E.
      + destruct (Hstep _ _ _ _ H0 E) as [HI HP].
        specialize (IH s' HI). destruct (run s' cs). simpl in *. constructor; auto.
      + apply IH. exact H0.
  Qed.

  (* ---------------------------------------------------------------- the bounded-progress rule *)
  Section Progress.
    Variable D : St -> Choice -> bool.     (* designated threads (may depend on the state) *)
    Variable goal : St -> bool.
    Variable mu : St -> nat.
    Variable W : St -> Prop.
    Hypothesis W_step : forall s c s' l,
        W s -> goal s = false -> D s c = true -> step s c = Some (s', l) -> W s' /\ mu s' < mu s.
    Hypothesis W_live : forall s,
        W s -> goal s = false -> exists c s' l, D s c = true /\ step s c = Some (s', l).

    (* a schedule that, until the goal is reached, only takes enabled steps of designated threads *)
    Fixpoint effective (s : St) (cs : list Choice) : Prop :=
      match cs with
      | [] => True
      | c :: cs' =>
        goal s = true \/
        (D s c = true /\ match step s c with Some (s', _) => effective s' cs' | None => False end)
      end.

    Theorem bounded_progress :
      forall cs s, W s -> effective s cs -> mu s <= length cs ->
                   exists k, k <= mu s /\ goal (final s (firstn k cs)) = true.
    Proof.
      induction cs as [|c cs IH]; intros s HW He Hlen.
      - destruct (goal s) eqn:G.
        + exists 0. split; [lia|]. exact G.
        + destruct (W_live s HW G) as (c & s' & l & HD & Hs).
          destruct (W_step _ _ _ _ HW G HD Hs) as [_ Hlt]. simpl in Hlen. lia.
      - destruct (goal s) eqn:G.
        + exists 0. split; [lia|]. exact G.
        + simpl in He. destruct He as [He|[HD He]]; [congruence|].
          destruct (step s c) as [[s' l]|] eqn:Hs; [|contradiction].
          destruct (W_step _ _ _ _ HW G HD Hs) as [HW' Hlt].
          simpl in Hlen.
          destruct (IH s' HW' He) as (k & Hk & Hg); [lia|].
          exists (S k). split; [lia|].
          simpl. rewrite final_cons, Hs. exact Hg.
    Qed.

    (* while the goal is not reached the designated threads are never all blocked: no deadlock *)
    Theorem never_stuck : forall s, W s -> goal s = false -> exists c, D s c = true /\ enabled s c.
    Proof.
      intros s HW G. destruct (W_live s HW G) as (c & s' & l & HD & Hs).
      exists c. split; auto. unfold enabled. congruence.
    Qed.
  End Progress.

  (* ---------------------------------------------------------------- bounded progress under ANY schedule
     (the form of DESIGN 5.2: the measure strictly decreases on every step of a designated thread and never
     increases otherwise), with spurious wake-ups: a step whose label is a spurious wake-up may put its thread
     back by at most k.  Conclusion: a schedule -- of any threads, in any order, of any length -- in which the
     designated threads take more than  mu s + k * (number of spurious wake-ups)  non-spurious steps has
     reached the goal.  Together with [fair_never_stuck] (while the goal is not reached some designated thread
     is enabled for a reason other than a spurious wake-up) this is "the goal is reached under fair scheduling". *)
  Section Fair.
    Variable D : St -> Choice -> bool.
    Variable spurious : Label -> bool.
    Variable goal : St -> bool.
    Variable mu : St -> nat.
    Variable k : nat.
    Variable W : St -> Prop.
    Hypothesis W_inv : forall s c s' l, W s -> step s c = Some (s', l) -> W s'.
    Hypothesis W_dec : forall s c s' l, W s -> goal s = false -> step s c = Some (s', l) ->
        if spurious l then mu s' <= mu s + k else if D s c then mu s' < mu s else mu s' <= mu s.
    Hypothesis W_live : forall s, W s -> goal s = false ->
        exists c s' l, D s c = true /\ step s c = Some (s', l) /\ spurious l = false.

    (* (non-spurious steps taken by designated threads, spurious wake-ups taken) along a schedule *)
    Fixpoint tally (s : St) (cs : list Choice) : nat * nat :=
      match cs with
      | [] => (0, 0)
      | c :: cs' =>
        match step s c with
        | None => tally s cs'
        | Some (s', l) =>
          let (d, p) := tally s' cs' in
          if spurious l then (d, S p) else if D s c then (S d, p) else (d, p)
        end
      end.

    Theorem fair_progress :
      forall cs s, W s -> mu s + k * snd (tally s cs) < fst (tally s cs) ->
                   exists n, goal (final s (firstn n cs)) = true.
    Proof.
      induction cs as [|c cs IH]; intros s HW H.
      - simpl in H. lia.
      - destruct (goal s) eqn:G.
        + exists 0. exact G.
        + simpl in H. destruct (step s c) as [[s' l]|] eqn:E.
          * pose proof (W_dec _ _ _ _ HW G E) as Hd.
            pose proof (W_inv _ _ _ _ HW E) as HW'.
            destruct (tally s' cs) as [d p] eqn:T.
            assert (Hlt : mu s' + k * p < d).
            { destruct (spurious l); [|destruct (D s c)]; simpl in H.
              - rewrite Nat.mul_succ_r in H. lia.
              - lia.
              - lia. }
            destruct (IH s' HW') as (n & Hn); [rewrite T; exact Hlt|].
            exists (S n). simpl. rewrite final_cons, E. exact Hn.
          * destruct (IH s HW H) as (n & Hn).
            exists (S n). simpl. rewrite final_cons, E. exact Hn.
    Qed.

    Theorem fair_never_stuck : forall s, W s -> goal s = false ->
        exists c, D s c = true /\ enabled s c.
    Proof.
      intros s HW G. destruct (W_live s HW G) as (c & s' & l & HD & Hs & _).
      exists c. split; auto. unfold enabled. congruence.
    Qed.
  End Fair.
End Sched.
