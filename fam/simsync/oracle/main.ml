(* Line-protocol driver around the extracted SimSync model (C18).

   input, one case per line:
     ctl=<ops> cal=<ops> e0=<0|1> spur=<0|1> fix=<0|1> sched=<string over K C R>
       ctl ops: S start, X stop, T trigger, e/d set enable on/off, p pause, b set rejected by the device (binning 3);
       cal ops: G get_frame, W wait-running
       sched: the thread chosen at each step: K controller, C caller, R streamer of the current run
   output per case:
     CASE <n>
     S <K|C|R> <kind> <object>[ spurious]          one line per step (the scheduling point that is left)
     E <K|C|R> <event text>                        the events of that step (same text as the harness' E lines)
     G gen=<n> ext=<n> ndeliv=<n> gated=<0|1> runs=<n> running=<0|1>     ghost/observable state after the step
     DISABLED <i> <K|C|R>                          choice i of the schedule is not enabled in the model (stops the case)
     END kpc=<..> cpc=<..> spc=<..> hal=<..>
*)
open Simsyncmodel

let rec pos_of_int n = if n = 1 then XH else if n land 1 = 0 then XO (pos_of_int (n lsr 1)) else XI (pos_of_int (n lsr 1))
let z_of_int n = if n = 0 then Z0 else if n > 0 then Zpos (pos_of_int n) else Zneg (pos_of_int (-n))
let rec int_of_pos = function XH -> 1 | XO p -> 2 * int_of_pos p | XI p -> 2 * int_of_pos p + 1
let int_of_z = function Z0 -> 0 | Zpos p -> int_of_pos p | Zneg p -> - (int_of_pos p)

let kop_of_char = function
  | 'S' -> KStart | 'X' -> KStop | 'T' -> KTrig | 'e' -> KSet true | 'd' -> KSet false | 'p' -> KPause | 'b' -> KRej
  | c -> failwith (Printf.sprintf "bad ctl op %c" c)
let char_of_kop = function KStart -> 'S' | KStop -> 'X' | KTrig -> 'T' | KSet true -> 'e' | KSet false -> 'd' | KPause -> 'p' | KRej -> 'b'
let cop_of_char = function 'G' -> CGet | 'W' -> CWaitRun | c -> failwith (Printf.sprintf "bad cal op %c" c)
let char_of_cop = function CGet -> 'G' | CWaitRun -> 'W'
let tid_of_char = function 'K' -> Ctl | 'C' -> Cal | 'R' -> Str | c -> failwith (Printf.sprintf "bad thread %c" c)
let char_of_tid = function Ctl -> 'K' | Cal -> 'C' | Str -> 'R'
let explode s = List.init (String.length s) (String.get s)

let kind_s = function PCreate -> "create" | PDev -> "dev" | PLock -> "lock" | PPre -> "prewait" | PWait -> "wait"
                      | PSleep -> "sleep" | PJoin -> "join" | PExit -> "exit"
let obj_s = function ONone -> "-" | OLock -> "lock" | OFrameReady -> "frame_ready" | OTrigReady -> "trigger_ready"
                     | OOpK o -> Printf.sprintf "op:%c" (char_of_kop o) | OOpC o -> Printf.sprintf "op:%c" (char_of_cop o)
                     | OStreamer -> "streamer"
let ev_s = function
  | EvBegin o -> Printf.sprintf "B %c" (char_of_kop o)
  | EvRet (o, rc) -> Printf.sprintf "R %c rc=%d" (char_of_kop o) (int_of_z rc)
  | EvSkip -> "R S skip"
  | EvGet (rc, d, id) -> Printf.sprintf "R G rc=%d deliv=%d id=%d" (int_of_z rc) (if d then 1 else 0) (int_of_z id)
  | EvWait -> "R W"
  | EvTrap -> "TRAP"
let kpc_s = function KNew -> "new" | KIdle -> "idle" | KTrigLock -> "triglock" | KSetTrigLock _ -> "settriglock"
                     | KSetLock _ -> "setlock" | KStopLock _ -> "stoplock" | KStopJoin _ -> "stopjoin" | KExit -> "exit" | KDone -> "done"
let cpc_s = function CNew -> "new" | CIdle -> "idle" | CLock -> "lock" | CPre -> "prewait" | CWait -> "wait" | CExit -> "exit"
                     | CDone -> "done" | CTrap -> "trap"
let spc_s = function SNone -> "none" | SCreate -> "create" | SLock1 -> "lock1" | SPre -> "prewait" | SWait -> "wait"
                     | SSleep -> "sleep" | SLock2 -> "lock2" | SExit -> "exit" | SDone -> "done"
let hal_s = function HAwait -> "await" | HArmed -> "armed" | HRunning -> "running"
let b2i b = if b then 1 else 0

let run_case n line =
  let ctl = ref "" and cal = ref "" and e0 = ref false and spur = ref false and fix = ref true and sched = ref "" in
  List.iter (fun tok ->
      match String.index_opt tok '=' with
      | None -> if tok <> "" then failwith ("bad token " ^ tok)
      | Some i ->
        let k = String.sub tok 0 i and v = String.sub tok (i + 1) (String.length tok - i - 1) in
        (match k with
         | "ctl" -> ctl := v | "cal" -> cal := v | "e0" -> e0 := (v = "1") | "spur" -> spur := (v = "1")
         | "fix" -> fix := (v = "1") | "sched" -> sched := v
         | _ -> ()))
    (String.split_on_char ' ' (String.trim line));
  let cfg = { c_enable = !e0; c_spur = !spur; c_fix9 = !fix;
              c_ctl = List.map kop_of_char (explode !ctl); c_cal = List.map cop_of_char (explode !cal) } in
  Printf.printf "CASE %d\n" n;
  let s = ref (init cfg) in
  (try
     String.iteri (fun i ch ->
         let t = tid_of_char ch in
         match step !s t with
         | None -> Printf.printf "DISABLED %d %c\n" i ch; raise Exit
         | Some (s', l) ->
           s := s';
           Printf.printf "S %c %s %s%s\n" (char_of_tid l.l_tid) (kind_s l.l_kind) (obj_s l.l_obj) (if l.l_spurious then " spurious" else "");
           List.iter (fun e -> Printf.printf "E %c %s\n" (char_of_tid l.l_tid) (ev_s e)) l.l_evs;
           Printf.printf "G gen=%d ext=%d ndeliv=%d gated=%d runs=%d running=%d\n" (int_of_z s'.gen) (int_of_z s'.ext)
             (List.length s'.deliv) (b2i s'.gated) (int_of_z s'.runs) (b2i s'.running)) !sched
   with Exit -> ());
  Printf.printf "END kpc=%s cpc=%s spc=%s hal=%s\n" (kpc_s !s.kpc) (cpc_s !s.cpc) (spc_s !s.spc) (hal_s !s.hal)

let () =
  let n = ref 0 in
  (try
     while true do
       let line = input_line stdin in
       if String.trim line <> "" && line.[0] <> '#' then begin
         (try run_case !n line with Failure m -> Printf.printf "CASE %d\nERROR %s\nEND\n" !n m);
         incr n
       end
     done
   with End_of_file -> ())
