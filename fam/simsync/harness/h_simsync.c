/* h_simsync.c -- C18 harness (DESIGN 6.18, tie mechanism 3(b)).
 *
 * Runs the REAL simulated camera (acquire-driver-common/src/simcams/simulated.camera.c, kind Empty, binning 1,
 * shape 4x2 u8) behind the REAL HAL wrappers (acquire-device-hal/device/hal/camera.c), all compiled unmodified
 * against /verif/harness/vplatform (deterministic coroutine scheduler).  Two coroutines execute scripts:
 *
 *   controller (thread 1):  S start (only when the HAL state is Armed, as acquire_start requires)
 *                           X stop      T execute_trigger      e / d  set with frame_start.enable = 1 / 0
 *                           p pause (a scheduling point and nothing else)
 *                           b set REJECTED by the device: the properties in force (camera_get) with binning = 3
 *                             (not a power of two: simcam_set returns Device_Err before touching anything; the HAL's
 *                             camera_set then stops the camera if it is Running and stores AwaitingConfiguration,
 *                             from which S is refused until a successful set e / d re-arms the camera)
 *   caller     (thread 2):  G get_frame (not *entered* while the controller is inside stop: see notes.md)
 *                           W wait until the HAL state is Running (or the controller has finished)
 *
 * Every script op begins with an explicit scheduling point (kind dev, label op:<c>).  The streamer thread of
 * run k is thread 2+k.  The trace is vsched's: "S <tid> <kind> <label>" per step, "E <tid> <text>" per event:
 *   E 1 B <op>                        the controller begins an op
 *   E 1 R <op> rc=<n> | R S skip      ... and returns from it
 *   E 2 R G rc=<n> deliv=<0|1> id=<hardware_frame_id|-1> buf=<0|1>
 *                                     deliv = the ImageInfo was written (a frame was handed out); rc=0, deliv=0
 *                                     is the shutdown exit (buffer and info untouched)
 *   E 2 R W
 *
 * Input: one case per line on stdin:
 *   ctl=<ops> cal=<ops> e0=<0|1> seed=<n> spur=<0|1> mode=<0|1> sched=<c,c,...> maxsteps=<n>
 * Each case runs in a forked child (the scheduler exits the process on deadlock).  Output per case:
 *   CASE <n> / trace / END | DEADLOCK ... | STEPLIMIT ... / EXIT <code>
 */
#define _GNU_SOURCE
#include "platform.h"
#include "vsched.h"

#include "device/hal/camera.h"
#include "device/kit/camera.h"
#include "device/hal/driver.h"
#include "simulated.camera.h"
#include "logger.h"

#include <stdio.h>
#include <stdlib.h>
#include <string.h>
#include <sys/wait.h>
#include <unistd.h>

/* ---- link-time stubs (camera_open is not used: the camera is made by simcam_make_camera) */
void
aq_logger(int is_error, const char* file, int line, const char* function, const char* fmt, ...)
{
    if (getenv("H_SIMSYNC_LOG")) {
        va_list ap;
        va_start(ap, fmt);
        fprintf(stderr, "%s %s:%d %s: ", is_error ? "ERR" : "LOG", file, line, function);
        vfprintf(stderr, fmt, ap);
        fprintf(stderr, "\n");
        va_end(ap);
    }
}
enum DeviceStatusCode
driver_open_device(struct Driver* self, uint8_t device_id, struct Device** out)
{
    (void)self; (void)device_id; (void)out;
    return Device_Err;
}
struct Driver*
device_manager_get_driver(const struct DeviceManager* self, const struct DeviceIdentifier* identifier)
{
    (void)self; (void)identifier;
    return 0;
}

/* ---- the case */
static struct Camera* cam;
static char ctl_ops[256], cal_ops[256];
static volatile int g_stopping, g_ctl_done;

static struct CameraProperties
base_props(int enable)
{
    struct CameraProperties p;
    memset(&p, 0, sizeof p);
    p.exposure_time_us = 1000.0f;
    p.binning = 1;
    p.pixel_type = SampleType_u8;
    p.shape.x = 4;
    p.shape.y = 2;
    p.input_triggers.frame_start.enable = (uint8_t)enable;
    p.input_triggers.frame_start.kind = Signal_Input;
    p.input_triggers.frame_start.edge = TriggerEdge_Rising;
    return p;
}

static void
ctl_main(void* arg)
{
    (void)arg;
    vs_name("ctl");
    for (const char* o = ctl_ops; *o; ++o) {
        char lb[8];
        int rc = 0;
        snprintf(lb, sizeof lb, "op:%c", *o);
        vs_point(lb);
        if (*o != 'p')
            vs_log("B %c", *o);
        switch (*o) {
            case 'S':
                if (camera_get_state(cam) != DeviceState_Armed) {
                    vs_log("R S skip");
                    continue;
                }
                rc = camera_start(cam);
                break;
            case 'X':
                g_stopping = 1;
                rc = camera_stop(cam);
                g_stopping = 0;
                break;
            case 'T':
                rc = camera_execute_trigger(cam);
                break;
            case 'p': /* pause: a scheduling point and nothing else */
                continue;
            case 'e':
            case 'd': {
                struct CameraProperties p = base_props(*o == 'e');
                rc = camera_set(cam, &p);
            } break;
            case 'b': {
                /* a set the device rejects; on a Running camera the HAL performs a full camera_stop inside it */
                struct CameraProperties p;
                memset(&p, 0, sizeof p);
                if (camera_get(cam, &p) != Device_Ok) {
                    printf("FATAL camera_get\n");
                    _exit(4);
                }
                p.binning = 3;
                g_stopping = 1;
                rc = camera_set(cam, &p);
                g_stopping = 0;
            } break;
            default:
                printf("BADOP %c\n", *o);
                _exit(3);
        }
        vs_log("R %c rc=%d", *o, rc);
    }
    g_ctl_done = 1;
}

static int pred_not_stopping(void* a) { (void)a; return !g_stopping; }
static int pred_running_or_done(void* a) { (void)a; return g_ctl_done || camera_get_state(cam) == DeviceState_Running; }

static void
cal_main(void* arg)
{
    (void)arg;
    vs_name("cal");
    for (const char* o = cal_ops; *o; ++o) {
        if (*o == 'W') {
            vs_block_until(pred_running_or_done, 0, "op:W");
            vs_log("R W");
        } else if (*o == 'G') {
            uint8_t buf[64];
            struct ImageInfo info, ref;
            size_t nbytes = sizeof buf;
            memset(buf, 0xA5, sizeof buf);
            memset(&info, 0x5A, sizeof info);
            memset(&ref, 0x5A, sizeof ref);
            vs_block_until(pred_not_stopping, 0, "op:G");
            int rc = camera_get_frame(cam, buf, &nbytes, &info);
            int deliv = memcmp(&info, &ref, sizeof info) != 0;
            int touched = 0;
            for (size_t i = 0; i < sizeof buf; ++i)
                touched |= buf[i] != 0xA5;
            vs_log("R G rc=%d deliv=%d id=%lld buf=%d", rc, deliv, deliv ? (long long)info.hardware_frame_id : -1LL, touched);
        } else {
            printf("BADOP %c\n", *o);
            _exit(3);
        }
    }
}

static int sched_buf[1 << 16];

static int
run_case(char* line)
{
    struct vs_config c;
    memset(&c, 0, sizeof c);
    int e0 = 0;
    c.seed = 1;
    c.trace = 1;
    c.max_steps = 4000;
    ctl_ops[0] = cal_ops[0] = 0;
    size_t ns = 0;
    for (char* tok = strtok(line, " \t\r\n"); tok; tok = strtok(0, " \t\r\n")) {
        if (!strncmp(tok, "ctl=", 4)) snprintf(ctl_ops, sizeof ctl_ops, "%s", tok + 4);
        else if (!strncmp(tok, "cal=", 4)) snprintf(cal_ops, sizeof cal_ops, "%s", tok + 4);
        else if (!strncmp(tok, "e0=", 3)) e0 = atoi(tok + 3);
        else if (!strncmp(tok, "seed=", 5)) c.seed = strtoull(tok + 5, 0, 10);
        else if (!strncmp(tok, "spur=", 5)) c.allow_spurious = atoi(tok + 5);
        else if (!strncmp(tok, "mode=", 5)) c.mode = atoi(tok + 5);
        else if (!strncmp(tok, "pct=", 4)) c.pct_depth = atoi(tok + 4);
        else if (!strncmp(tok, "maxsteps=", 9)) c.max_steps = strtoull(tok + 9, 0, 10);
        else if (!strncmp(tok, "sched=", 6)) {
            for (char* p = tok + 6; *p && ns < sizeof sched_buf / sizeof *sched_buf;) {
                sched_buf[ns++] = (int)strtol(p, &p, 10);
                if (*p == ',') ++p;
            }
        } else {
            printf("BADARG %s\n", tok);
            return 3;
        }
    }
    c.schedule = sched_buf;
    c.nschedule = ns;

    /* phase 0 (not traced, single thread): make the camera and arm it through the HAL */
    struct vs_config c0;
    memset(&c0, 0, sizeof c0);
    c0.seed = 1;
    vs_init(&c0);
    cam = simcam_make_camera(BasicDevice_Camera_Empty);
    if (!cam) { printf("FATAL make_camera\n"); return 4; }
    {
        struct CameraProperties p = base_props(e0);
        if (camera_set(cam, &p) != Device_Ok || camera_get_state(cam) != DeviceState_Armed) {
            printf("FATAL initial set\n");
            return 4;
        }
    }
    g_stopping = g_ctl_done = 0;

    /* phase 1: the scheduled run */
    vs_init(&c);
    struct thread tc, tk;
    thread_init(&tc);
    thread_init(&tk);
    thread_create(&tc, ctl_main, 0); /* thread 1 */
    thread_create(&tk, cal_main, 0); /* thread 2 */
    thread_join(&tc);
    thread_join(&tk);
    vs_log("STATE %d", (int)camera_get_state(cam));
    simcam_close_camera(cam);
    printf("END\n");
    return 0;
}

int
main(void)
{
    static char line[1 << 17];
    int n = 0;
    setvbuf(stdout, 0, _IOFBF, 1 << 16);
    while (fgets(line, sizeof line, stdin)) {
        if (line[0] == '\n' || line[0] == '#')
            continue;
        printf("CASE %d\n", n++);
        fflush(stdout);
        pid_t pid = fork();
        if (pid == 0) {
            int rc = run_case(line);
            fflush(stdout);
            _exit(rc);
        }
        int st = 0;
        waitpid(pid, &st, 0);
        if (WIFEXITED(st))
            printf("EXIT %d\n", WEXITSTATUS(st));
        else
            printf("EXIT signal %d\n", WIFSIGNALED(st) ? WTERMSIG(st) : -1);
        fflush(stdout);
    }
    return 0;
}
