"""SimSync family: C18 (simulated cameras deliver fresh, increasing, trigger-gated frames; stop unblocks).  DESIGN 6.18.

prove -> build -> corpus -> correspond (lock-step: real simulated.camera.c + HAL camera.c under vplatform against the
extracted SimSync model, on the schedule the implementation actually took) -> independent property oracle over the
implementation's own trace -> violations with a minimised replay (script + thread-id schedule).
"""
import json
import os
import re

import vlib

DRV = "acquire-driver-common/src/simcams"
LIBS = "acquire-core-libs/src"
ROLE = {1: "K", 2: "C"}


# ----------------------------------------------------------------------------- build
def build(ctx):
    orac = ctx.oracle_build()
    here = os.path.join(ctx.famdir, "harness")
    vp = os.path.join(vlib.VERIF, "harness", "vplatform")
    inc = [vp,                                           # FIRST: replaces platform.h
           os.path.join(vlib.REPO, LIBS, "acquire-core-logger"),
           os.path.join(vlib.REPO, LIBS, "acquire-device-kit"),
           os.path.join(vlib.REPO, LIBS, "acquire-device-properties"),
           os.path.join(vlib.REPO, LIBS, "acquire-device-hal"),
           os.path.join(vlib.REPO, LIBS, "acquire-device-hal", "device", "hal"),
           os.path.join(vlib.REPO, DRV),
           os.path.join(vlib.REPO, DRV, "3rdParty", "pcg-c-basic-0.9")]
    impl = ctx.cc([os.path.join(here, "h_simsync.c"), os.path.join(vp, "vsched.c"),
                   DRV + "/simulated.camera.c", DRV + "/popcount.cpp", DRV + "/imfill.pattern.cpp",
                   DRV + "/3rdParty/pcg-c-basic-0.9/pcg_basic.c",
                   LIBS + "/acquire-device-hal/device/hal/camera.c",
                   LIBS + "/acquire-device-properties/device/props/components.c"],
                  "h_simsync", flags=["-I" + d for d in inc] + ["-DNO_UNIT_TESTS"])
    return orac, impl


# ----------------------------------------------------------------------------- generator
def after_rejected_set(rng, cur):
    """What the controller does right after a set the device rejected (op b).  The HAL state is AwaitingConfiguration:
    stop / trigger are HAL no-ops, start is refused until a successful set (e / d) re-arms the camera.
    -> (ops, trigger enable afterwards, a new run was started)"""
    x = rng.random()
    if x < 0.15:
        return "", cur, False
    if x < 0.35:
        return "X", cur, False
    if x < 0.45:
        return "T", cur, False
    if x < 0.55:
        return "S", cur, False                      # refused: not Armed
    if x < 0.65:
        return rng.choice(["TX", "XT", "SX", "XS", "bX", "TS"]), cur, False
    if rng.random() < 0.5:
        cur = not cur
    return rng.choice(["", "S", "X"]) + ("e" if cur else "d") + "S", cur, True


def gen_script(rng, nruns, long_pauses):
    """A controller script of `nruns` complete runs and a caller script.  Every run is closed by X (or, before that, by
    a rejected set b, which makes the HAL stop the running camera)."""
    ctl = []
    e0 = rng.random() < 0.5
    cur = e0
    ngets = 0
    awaiting = False                               # HAL state AwaitingConfiguration (after b): S is refused
    for r in range(nruns):
        if rng.random() < 0.08:
            ctl.append("b")                        # rejected set while stopped (or before the first start)
            awaiting = True
        # between runs: sometimes reconfigure the trigger
        x = rng.random()
        if awaiting and x >= 0.65 and rng.random() < 0.8:
            x = 0.4                                # re-arm (mostly): otherwise the whole run is refused
        if x < 0.65:
            awaiting = False
        if x < 0.35:
            cur = not cur
            ctl.append("e" if cur else "d")
        elif x < 0.45:
            ctl.append("e" if cur else "d")
        elif x < 0.65:
            # several re-configurations while stopped (switching the trigger off fires it: what that leaves behind must
            # not count in the next gated run)
            for _ in range(rng.randint(2, 3)):
                cur = not cur
                ctl.append("e" if cur else "d")
        if rng.random() < 0.15:
            ctl.append(rng.choice("TXp"))          # trigger / stop while not running: HAL no-ops
        ctl.append("S")
        if rng.random() < 0.05:
            ctl.append("S")                        # start while running: refused by the harness guard
        nbody = rng.randint(0, 10)
        gated = cur
        # a run that is ended by a rejected set instead of X: often a gated run with no trigger at all, so that a
        # pending get_frame can only be released by the stop performed inside the rejected set
        pb = rng.choice([0.0, 0.0, 0.04, 0.10])
        if pb > 0 and not awaiting and rng.random() < 0.5:
            for _ in range(rng.randint(0, 3)):
                ctl.append("p" * rng.randint(1, 6 if long_pauses else 2))
            tail, cur, restarted = after_rejected_set(rng, cur)
            ctl.append("b" + tail)
            awaiting = not restarted
            gated = cur
            if not restarted:
                nbody = rng.randint(0, 2)
        for _ in range(nbody):
            x = rng.random()
            if not awaiting and rng.random() < pb:
                tail, cur, restarted = after_rejected_set(rng, cur)
                ctl.append("b" + tail)
                if not restarted:
                    awaiting = True
                    if rng.random() < 0.7:
                        break
                else:
                    gated = cur
                continue
            if gated:
                if x < 0.45:
                    ctl.append("T")
                elif x < 0.50:
                    cur = not cur
                    ctl.append("e" if cur else "d")
                    awaiting = False
                elif x < 0.60:
                    # a reconfiguration of the running camera that KEEPS the trigger enabled (the client changed something else, e.g. the
                    # exposure): the run stays gated, and the set must not let a frame through
                    ctl.append("e")
                    awaiting = False
                else:
                    ctl.append("p" * rng.randint(1, 6 if long_pauses else 2))
            else:
                if x < 0.12:
                    ctl.append("T")
                elif x < 0.18:
                    cur = not cur
                    ctl.append("e" if cur else "d")
                    awaiting = False
                elif x < 0.22:
                    ctl.append("d")                # reconfigured while running, trigger still disabled
                    awaiting = False
                else:
                    ctl.append("p" * rng.randint(1, 6 if long_pauses else 2))
        ctl.append("X")
        ngets += rng.randint(0, 3)
    cal = []
    for _ in range(max(1, ngets + rng.randint(0, 2))):
        x = rng.random()
        if x < 0.55:
            cal.append("W")
        cal.append("G" * rng.randint(1, 3))
    if rng.random() < 0.1:
        cal = [c for c in cal if c != "W"]
    return "".join(ctl), "".join(cal), int(e0)


def normalise(ctl):
    """Close the last run: the controller must not finish with the camera running (a gated run without triggers would
    leave the caller blocked for a legitimate reason, which the deadlock detector cannot tell from a hang)."""
    st = "armed"                       # the HAL state the harness leaves the camera in before the script starts
    for o in ctl:
        if o == "S":
            if st == "armed":
                st = "running"
        elif o == "X":
            if st == "running":
                st = "armed"
        elif o == "b":                 # rejected set: stops a running camera, then AwaitingConfiguration
            st = "await"
        elif o in "ed":                # accepted set: Armed unless Running
            if st != "running":
                st = "armed"
    return ctl + ("X" if st == "running" else "")


def case_line(c):
    s = "ctl=%s cal=%s e0=%d seed=%d spur=%d" % (c["ctl"], c["cal"], c["e0"], c.get("seed", 1), c.get("spur", 0))
    if c.get("sched") is not None:
        s += " mode=%d sched=%s" % (c.get("mode", 0), ",".join(str(x) for x in c["sched"]))
    if c.get("maxsteps"):
        s += " maxsteps=%d" % c["maxsteps"]
    return s


# ----------------------------------------------------------------------------- running and parsing
def split_cases(text):
    out = []
    cur = None
    for line in text.split("\n"):
        if line.startswith("CASE "):
            cur = []
            out.append(cur)
        elif cur is not None and line != "":
            cur.append(line)
    return out


def run_impl(impl, cases, timeout=900):
    inp = "\n".join(case_line(c) for c in cases) + "\n"
    rc, o, e = vlib.sh([impl], inp=inp, timeout=timeout, env={"ASAN_OPTIONS": "detect_leaks=0"})
    res = split_cases(o)
    while len(res) < len(cases):
        res.append(["EXIT harness-died rc=%s %s" % (rc, (e or "")[-300:].replace("\n", " "))])
    return res


def parse_impl(lines):
    """-> dict(steps=[(tid, kind, label, spurious, [events])], exit=str, stuck=[lines], tids=[...])"""
    steps = []
    tids = []
    stuck = []
    exitc = None
    outcome = "?"
    pre = []
    for l in lines:
        if l.startswith("S "):
            w = l.split(" ")
            tid = int(w[1])
            kind = w[2]
            rest = w[3:]
            sp = bool(rest) and rest[-1] == "spurious"
            if sp:
                rest = rest[:-1]
            tids.append(tid)
            steps.append([tid, kind, " ".join(rest), sp, []])
        elif l.startswith("E "):
            w = l.split(" ", 2)
            tid = int(w[1])
            txt = re.sub(r" buf=\d+$", "", w[2])
            if steps and steps[-1][0] == tid:
                steps[-1][4].append(txt)
            else:
                pre.append((tid, txt))
        elif l.startswith("EXIT"):
            exitc = l[5:]
        elif l == "END":
            outcome = "end"
        elif l.startswith("DEADLOCK"):
            outcome = "deadlock"
            stuck.append(l)
        elif l.startswith("STEPLIMIT"):
            outcome = "steplimit"
            stuck.append(l)
        elif l.startswith("REPLAY-DIVERGED") or l.startswith("DIVERGED"):
            outcome = "diverged"
            stuck.append(l)
        elif l.startswith("  T") or l.startswith("SCHEDULE"):
            if not l.startswith("SCHEDULE"):
                stuck.append(l.strip())
        else:
            stuck.append(l)
    if exitc is not None and exitc.startswith("harness-died"):
        outcome = "nodata"          # the batch process died or timed out: no observation about this case
    elif outcome == "?":
        outcome = "crash" if exitc not in ("0",) else "end"
    return {"steps": steps, "exit": exitc, "outcome": outcome, "stuck": stuck, "tids": tids, "stray": pre}


def model_sched(steps):
    """The schedule for the model: thread ids -> roles (main = thread 0 is not modelled)."""
    out = []
    for st in steps:
        tid = st[0]
        if tid == 0:
            continue
        out.append(ROLE.get(tid, "R"))
    return "".join(out)


def run_model(orac, cases, scheds, fix=1, timeout=900):
    inp = "\n".join("ctl=%s cal=%s e0=%d spur=%d fix=%d sched=%s" % (c["ctl"], c["cal"], c["e0"], c.get("spur", 0), fix, s)
                    for c, s in zip(cases, scheds)) + "\n"
    rc, o, e = vlib.sh([orac], inp=inp, timeout=timeout)
    res = split_cases(o)
    while len(res) < len(cases):
        res.append(["ERROR model oracle died rc=%s %s" % (rc, (e or "")[-300:])])
    return res


def parse_model(lines):
    steps = []
    end = ""
    err = None
    for l in lines:
        if l.startswith("S "):
            w = l.split(" ")
            sp = w[-1] == "spurious"
            steps.append([w[1], w[2], w[3], sp, [], None])
        elif l.startswith("E "):
            steps[-1][4].append(l.split(" ", 2)[2])
        elif l.startswith("G "):
            steps[-1][5] = dict((k, int(v)) for k, v in (kv.split("=") for kv in l[2:].split()))
        elif l.startswith("DISABLED"):
            err = l
        elif l.startswith("ERROR"):
            err = l
        elif l.startswith("END"):
            end = l
    return {"steps": steps, "end": end, "err": err}


# ----------------------------------------------------------------------------- lock-step comparison
def lockstep(case, pi, pm):
    """Compare the implementation's steps (threads 1..) with the model's, one by one.  Returns None or a description."""
    isteps = [s for s in pi["steps"] if s[0] != 0]
    msteps = pm["steps"]
    objmap = {}
    rev = {}
    nstart = 0
    for k, st in enumerate(isteps):
        tid, kind, label, sp, evs = st
        if k >= len(msteps):
            return {"at": k, "impl": st, "model": pm["err"] or "(model has no further step)"}
        role, mkind, mobj, msp, mevs, ghost = msteps[k]
        want = ROLE.get(tid, "R")
        if want == "R":
            # the streamer of run n is the n-th thread created after the two script threads
            runs_before = msteps[k - 1][5]["runs"] if k > 0 else 0
            if tid != 2 + runs_before:
                return {"at": k, "impl": st, "model": "a step of streamer thread %d while the current run's streamer is thread %d" % (tid, 2 + runs_before)}
        if role != want or kind != mkind or sp != msp:
            return {"at": k, "impl": st, "model": msteps[k][:5]}
        if kind == "dev":
            if label != mobj:
                return {"at": k, "impl": st, "model": msteps[k][:5]}
        elif kind in ("lock", "prewait", "wait"):
            # object names differ (L1/C2/C3 vs lock/frame_ready/trigger_ready): require a consistent bijection
            if objmap.setdefault(mobj, label) != label or rev.setdefault(label, mobj) != mobj:
                return {"at": k, "impl": st, "model": msteps[k][:5], "objects": objmap}
        if evs != mevs:
            return {"at": k, "impl": st, "model": msteps[k][:5]}
    if pi["outcome"] == "end":
        if len(msteps) != len(isteps) or pm["err"]:
            return {"at": len(isteps), "impl": "(finished)", "model": pm["err"] or msteps[len(isteps)][:5]}
        if not re.match(r"END kpc=done cpc=done spc=(done|none) ", pm["end"]):
            return {"at": len(isteps), "impl": "(finished)", "model": pm["end"]}
    return None


# ----------------------------------------------------------------------------- independent property oracle
def oracle(case, pi):
    """C18 stated directly over the implementation's own trace (never through the model).
    Returns (violations, facts); a violation is (key, message, step index)."""
    v = []
    run = None          # dict(ids, trig, gated, sstep, tid)
    nrun = 0
    enable = bool(case["e0"])
    facts = {"deliveries": 0, "gated_deliveries": 0, "shutdown_exits": 0, "runs": 0, "restarts_with_delivery": 0,
             "runs_with_delivery": 0, "pending_at_stop": 0, "triggers": 0, "gaps": 0, "straddling_deliveries": 0,
             "rejected_sets": 0, "rejected_sets_while_running": 0, "pending_at_rejected_set": 0, "pending_at_stop_return": 0,
             "released_after_stop_return": 0, "starts_refused": 0, "camera_steps_after_stop": 0}
    marks = []          # (step index, ndeliv, trig, gated) at each delivery, for the ghost cross-check
    in_get = False
    get_run = 0         # number of starts that had returned when the current get_frame was entered
    # The camera as the HAL reports it to the controller: started by a start that returned Device_Ok, stopped again when a
    # STOP-PERFORMING op returns: X (camera_stop), or b (a set the device rejects: camera_set's error branch stops the camera).
    started = False
    stopped_by = None   # (step, text) of the return of the op that stopped the camera last, while no later start has returned
    held = None         # a get_frame that was pending when that op returned and has not returned since: (step, text)
    for k, (tid, kind, label, sp, evs) in enumerate(pi["steps"]):
        if tid >= 3 and run is not None:
            run["sstep"] += 1          # steps of ANY thread other than main / controller / caller since this start
        if tid >= 3 and stopped_by is not None:
            facts["camera_steps_after_stop"] += 1      # observation only (a thread may legitimately outlive stop)
        if tid == 2 and kind == "dev" and label == "op:G":
            in_get = True
            get_run = nrun
        for ev in evs:
            w = ev.split()
            if tid == 1:
                if w[0] == "B" and w[1] in "Xb" and run is not None and not run["stopping"]:
                    run["stopping"] = True
                    if in_get:
                        facts["pending_at_stop" if w[1] == "X" else "pending_at_rejected_set"] += 1
                elif w[0] == "R" and w[1] == "S" and len(w) > 2 and w[2] == "skip":
                    facts["starts_refused"] += 1
                elif w[0] == "B" and w[1] in "ed" and run is not None and not run["closed"]:
                    # triggering is not "enabled for the whole run" if it is switched (or was) off during the run
                    if w[1] == "d" or not enable:
                        run["gated"] = False
                elif w[0] == "R" and w[1] in "ed" and len(w) > 2 and w[2] == "rc=0":
                    enable = w[1] == "e"
                elif w[0] == "R" and w[1] == "S" and len(w) > 2 and w[2] == "rc=0":
                    started = True
                    stopped_by = None
                    held = None        # a call still inside get_frame continues as a call of the new run: not judged
                    nrun += 1
                    facts["runs"] += 1
                    run = {"ids": [], "trig": 0, "trig_begun": 0, "nall": 0, "gated": enable, "sstep": 0, "stopping": False, "closed": False}
                elif w[0] == "B" and w[1] == "T" and run is not None and not run["closed"]:
                    # counted when the trigger is INVOKED: a frame cannot be owed to a trigger nobody has called yet,
                    # whatever the implementation does between taking the trigger and returning from it
                    run["trig_begun"] += 1
                elif w[0] == "R" and w[1] == "T" and run is not None and not run["closed"]:
                    run["trig"] += 1
                    facts["triggers"] += 1
                elif w[0] == "R" and w[1] == "X" and run is not None:
                    run["closed"] = True
                elif w[0] == "R" and w[1] == "b" and len(w) > 2 and w[2] != "rc=0":
                    facts["rejected_sets"] += 1
                    if started:
                        facts["rejected_sets_while_running"] += 1
                    if run is not None:
                        run["closed"] = True
                if w[0] == "R" and started and (w[1] == "X" or (w[1] == "b" and len(w) > 2 and w[2] != "rc=0")):
                    # the op that stops the camera has returned to the controller
                    started = False
                    stopped_by = (k, "%s (%s, step %d)" % ("camera_stop" if w[1] == "X" else "camera_set with settings the device rejects",
                                                            ev, k))
                    if in_get:
                        held = stopped_by
                        facts["pending_at_stop_return"] += 1
            elif tid == 2 and w[0] == "R" and w[1] == "G":
                in_get = False
                f = dict(x.split("=") for x in w[2:])
                if held is not None:
                    facts["released_after_stop_return"] += 1
                held = None
                if f["deliv"] == "1" and stopped_by is not None:
                    v.append(("C18-delivery-after-stop",
                              "get_frame handed out a frame (hardware_frame_id %s) at step %d although %s had returned to the controller "
                              "and no start has been issued since: the camera goes on streaming after the HAL reported it stopped "
                              "(a call pending at stop must leave through the shutdown exit: Device_Ok, buffer and info untouched)"
                              % (f["id"], k, stopped_by[1]), k))
                if f["deliv"] == "0":
                    if f["rc"] == "0":
                        facts["shutdown_exits"] += 1
                    continue
                fid = int(f["id"])
                facts["deliveries"] += 1
                if run is None:
                    v.append(("C18-delivery-without-start", "a frame (id %d) was delivered although the camera was never started" % fid, k))
                    continue
                run["nall"] += 1
                if get_run != nrun:
                    # the call was entered before this run's start returned: which run the frame belongs to is not
                    # determined by the interface, so nothing is concluded from it (nor from the rest of this run's ids
                    # relative to it)
                    facts["straddling_deliveries"] += 1
                    continue
                ids = run["ids"]
                if not ids:
                    facts["runs_with_delivery"] += 1
                    if nrun > 1:
                        facts["restarts_with_delivery"] += 1
                if fid < 0 or (ids and fid <= ids[-1]):
                    v.append(("C18-ids-not-increasing",
                              "run %d: get_frame returned hardware_frame_id %d after %s (ids must be >= 0 and strictly increasing within a run; "
                              "an equal id is the same frame twice)" % (nrun, fid, ids), k))
                if ids and fid > ids[-1] + 1 or (not ids and fid > 0):
                    facts["gaps"] += 1
                ids.append(fid)
                # the id counts the frames generated in THIS run: the streamer thread of this run needs at least one step
                # of its own per generated frame, and in a gated run one external trigger per generated frame
                if fid > run["sstep"]:
                    v.append(("C18-ids-do-not-restart",
                              "run %d: delivered hardware_frame_id %d but the camera's threads have taken only %d steps since "
                              "this start (the id counts the frames generated in THIS run: it must restart with each start)"
                              % (nrun, fid, run["sstep"]), k))
                if run["gated"]:
                    facts["gated_deliveries"] += 1
                    if len(ids) > run["trig_begun"]:
                        v.append(("C18-gated-delivery-without-trigger",
                                  "run %d (frame trigger enabled since before its start): delivery number %d (hardware_frame_id %d) "
                                  "after only %d external trigger(s) in this run" % (nrun, len(ids), fid, run["trig_begun"]), k))
                    elif fid > run["trig_begun"]:
                        v.append(("C18-gated-id-exceeds-triggers",
                                  "run %d (gated): hardware_frame_id %d although only %d external triggers were executed in this run "
                                  "(the id counts the frames generated in this run, one per trigger)" % (nrun, fid, run["trig_begun"]), k))
                marks.append((k, run["nall"], run["trig"], run["gated"]))
    if pi["outcome"] in ("deadlock", "steplimit") and held is not None and in_get:
        v.append(("C18-pending-get-frame-not-released-by-stop",
                  "a get_frame that was pending when %s returned to the controller is still blocked when the case ends (%s; no start was "
                  "issued in between, so nothing but that stop could release it): stop must unblock a pending frame call.  %s"
                  % (held[1], pi["outcome"].upper(), " | ".join(pi["stuck"][:8])), len(pi["steps"])))
    elif pi["outcome"] == "deadlock":
        v.append(("C18-deadlock", "DEADLOCK: no thread is enabled although some have not finished (stop did not return or a pending "
                  "get_frame was never released): " + " | ".join(pi["stuck"][:8]), len(pi["steps"])))
    elif pi["outcome"] == "steplimit":
        v.append(("C18-steplimit", "no termination within the step limit under a fair random schedule: " + " | ".join(pi["stuck"][:8]), len(pi["steps"])))
    elif pi["outcome"] == "crash":
        v.append(("C18-crash", "the implementation aborted (sanitizer report, assertion or signal): exit %s %s" % (pi["exit"], " | ".join(pi["stuck"][-6:])), len(pi["steps"])))
    return v, facts, marks


# ----------------------------------------------------------------------------- minimisation and replay
def fails_with(impl, case, key):
    pi = parse_impl(run_impl(impl, [case], timeout=60)[0])
    vs, _, _ = oracle(case, pi)
    return any(k == key for k, _, _ in vs), pi


def minimise(impl, case, key):
    """Shrink the scripts (the seed stays; the schedule is whatever that seed gives on the smaller script), then record
    the thread-id schedule of the final failing run so that the replay is exact."""
    base = dict(case)
    base.pop("sched", None)
    base.pop("mode", None)
    ok, _ = fails_with(impl, base, key)
    if not ok:
        base = dict(case)   # the failure depends on the explicit schedule: keep it, shrink nothing
        ok, pi = fails_with(impl, base, key)
        return base, pi

    def f_ctl(cand):
        c = dict(base, ctl=normalise("".join(cand)))
        return fails_with(impl, c, key)[0]
    try:
        base["ctl"] = normalise("".join(vlib.ddmin(list(base["ctl"]), f_ctl, max_tests=150)))

        def f_cal(cand):
            return fails_with(impl, dict(base, cal="".join(cand)), key)[0]
        base["cal"] = "".join(vlib.ddmin(list(base["cal"]), f_cal, max_tests=80))
    except Exception:
        pass
    ok, pi = fails_with(impl, base, key)
    if not ok:
        base = dict(case)
        ok, pi = fails_with(impl, base, key)
    return base, pi


def replay_obj(ctx, case, pi, msg):
    exact = dict(case, mode=1, sched=pi["tids"])
    return {"what": msg,
            "script": {"controller": case["ctl"], "caller": case["cal"], "initial_frame_trigger_enable": case["e0"],
                       "allow_spurious_wakeups": case.get("spur", 0)},
            "schedule_thread_ids": pi["tids"],
            "stdin_line": case_line(exact),
            "how": "echo '<stdin_line>' | ASAN_OPTIONS=detect_leaks=0 .build/%s/h_simsync   (built by this check from the repository under test; "
                   "threads: 0 main, 1 controller, 2 caller, 2+k streamer of run k; ops: S start X stop T trigger e/d set trigger on/off "
                   "p pause b set rejected by the device (binning 3; stops a running camera, then AwaitingConfiguration) G get_frame W wait-running)" % ctx.prop,
            "trace": ["%d %s %s%s%s" % (t, k, l, " spurious" if sp else "", "".join("  <" + e + ">" for e in evs)) for t, k, l, sp, evs in pi["steps"]][-80:],
            "outcome": pi["outcome"], "stuck": pi["stuck"][:10]}


# ----------------------------------------------------------------------------- one batch
def process(ctx, orac, impl, cases, origin):
    shards = [s for s in vlib.shard(list(range(len(cases))), vlib.NPROC) if s]

    def work(idx):
        cs = [cases[i] for i in idx]
        raw = run_impl(impl, cs)
        pis = [parse_impl(r) for r in raw]
        pms = [parse_model(r) for r in run_model(orac, cs, [model_sched(p["steps"]) for p in pis])]
        return idx, pis, pms

    for idx, pis, pms in vlib.parallel(work, shards):
        for i, pi, pm in zip(idx, pis, pms):
            fold(ctx, orac, impl, cases[i], pi, pm, origin)


def fold(ctx, orac, impl, case, pi, pm, origin):
    vs, facts, marks = oracle(case, pi)
    nontriv = facts["deliveries"] > 0 and (facts["runs"] > 1 or facts["triggers"] > 0 or facts["shutdown_exits"] > 0)
    ctx.case(case_line(case) + " " + ",".join(map(str, pi["tids"])), nontrivial=nontriv)
    ctx.count("origin:" + origin)
    for k in ("deliveries", "gated_deliveries", "shutdown_exits", "runs", "restarts_with_delivery", "pending_at_stop", "triggers", "gaps",
              "straddling_deliveries", "rejected_sets", "rejected_sets_while_running", "pending_at_rejected_set", "pending_at_stop_return",
              "released_after_stop_return", "starts_refused", "camera_steps_after_stop"):
        if facts[k]:
            ctx.count("obs:" + k, facts[k])
    ctx.count("steps", len(pi["steps"]))
    if case.get("spur"):
        ctx.count("cfg:spurious-wakeups-allowed")
    if any(s[3] for s in pi["steps"]):
        ctx.count("obs:cases-with-spurious-wakeup")
    for o in case["ctl"]:
        ctx.count("op:" + o)
    for o in case["cal"]:
        ctx.count("op:" + o)
    for key, msg, k in vs:
        if not ctx.has_violation(key):
            small, spi = minimise(impl, case, key)
            svs, _, _ = oracle(small, spi)
            smsg = next((m for kk, m, _ in svs if kk == key), msg)
            ctx.violation(smsg, replay_obj(ctx, small, spi, smsg), key=key)
        else:
            ctx.violation(msg, None, key=key)
    if pi["outcome"] == "nodata":
        ctx.broken_tie("the harness process produced no output for a case (died or timed out as a whole): nothing observed",
                       {"case": case_line(case), "exit": pi["exit"]})
        return
    if pi["outcome"] == "diverged":
        ctx.broken_tie("an explicit thread-id schedule could not be followed by the implementation (replay diverged)",
                       {"case": case_line(case), "stuck": pi["stuck"][:6]})
        return
    d = lockstep(case, pi, pm)
    if d is None:
        # ghost cross-check: the model's counters of external triggers / deliveries / gatedness agree with the oracle's own
        msteps = pm["steps"]
        isteps_idx = [k for k, s in enumerate(pi["steps"]) if s[0] != 0]
        pos = {k: j for j, k in enumerate(isteps_idx)}
        for k, nd, trig, gated in marks:
            g = msteps[pos[k]][5]
            if (g["ndeliv"], g["ext"], bool(g["gated"])) != (nd, trig, bool(gated)):
                d = {"at": pos[k], "impl": "oracle counters: deliveries=%d triggers=%d gated=%s" % (nd, trig, gated), "model": g}
                break
    if d is None:
        ctx.traces_validated += 1
    else:
        ctx.broken_tie("model/implementation disagreement in the lock-step replay of a schedule (SimSync vs simulated.camera.c + HAL camera.c)",
                       {"case": case_line(dict(case, mode=1, sched=pi["tids"])), "step": d["at"], "impl": d["impl"], "model": d["model"]})


# ----------------------------------------------------------------------------- corpus
def load_corpus(ctx):
    cdir = os.path.join(vlib.VERIF, "corpus", ctx.prop)
    cases = []
    if os.path.isdir(cdir):
        for fn in sorted(os.listdir(cdir)):
            for line in open(os.path.join(cdir, fn)):
                line = line.strip()
                if not line or line.startswith("#"):
                    continue
                cases.append(parse_case_line(line))
    return cases


def parse_case_line(line):
    c = {"spur": 0, "seed": 1, "e0": 0}
    for tok in line.split():
        k, _, val = tok.partition("=")
        if k in ("ctl", "cal"):
            c[k] = val
        elif k in ("e0", "seed", "spur", "mode", "maxsteps"):
            c[k] = int(val)
        elif k == "sched":
            c["sched"] = [int(x) for x in val.split(",") if x != ""]
    c["ctl"] = normalise(c.get("ctl", ""))
    c.setdefault("cal", "")
    return c


# ----------------------------------------------------------------------------- exhaustive small scope
def exhaustive_cases(scripts, depth, base):
    """All index-schedules (choice c picks the (c mod n)-th enabled thread) of length `depth` over {0,1,2}; after the
    prefix the schedule continues with the seed's random choices.  At most 3 script/streamer threads are ever enabled
    before the main thread's joins, so the prefixes cover every schedule of the first `depth` steps."""
    out = []
    for ctl, cal, e0 in scripts:
        for n in range(base ** depth):
            sched = []
            x = n
            for _ in range(depth):
                sched.append(x % base)
                x //= base
            out.append({"ctl": normalise(ctl), "cal": cal, "e0": e0, "seed": 1 + n % 3, "spur": 0, "mode": 0, "sched": sched})
    return out


EXH_SCRIPTS = [
    ("SX", "G", 0),                 # stop against a get_frame that is entering / pending, un-gated
    ("SX", "G", 1),                 # ... gated, no trigger: the call can only leave through the shutdown exit
    ("STX", "GG", 1),               # one trigger, two calls
    ("SXS", "GG", 0),               # restart with a call pending across it
    ("SXSTX", "WGG", 1),            # the D9 shape: the second gated run starts with whatever the first left behind
    ("SdX", "G", 1),                # triggering switched off under a waiting streamer
    ("deSX", "G", 1),               # switched off (fires the trigger) and on again while stopped, then a gated run without trigger
    ("SXdeSTX", "WGG", 1),
    ("STTX", "GG", 1),
    # a set the device rejects (binning 3): the HAL stops the running camera inside camera_set, then AwaitingConfiguration
    ("SbX", "G", 1),                # gated, no trigger: only the stop inside the rejected set can release the call
    ("SbX", "G", 0),                # un-gated: the call either gets a frame before the set or leaves through the shutdown exit
    ("SbS", "GG", 1),               # start refused after the rejected set (not re-armed): no second run
    ("bSeSTX", "WG", 1),            # rejected while stopped; start refused; a successful set re-arms; a gated run
    ("SbTeSX", "GG", 1),            # trigger swallowed while AwaitingConfiguration must not count in the next gated run
]


# ----------------------------------------------------------------------------- entry
def run(ctx):
    ctx.coq_prove(["Properties_" + ctx.prop])
    orac, impl = build(ctx)
    thorough = ctx.tier == "thorough"
    ctx.rule = ("controller scripts of 1..3 complete runs (start, triggers / pauses / trigger re-configuration, stop; plus HAL no-op calls "
                "between runs; plus sets the device rejects (binning 3) while Running -- gated with a pending get_frame and no trigger, or "
                "un-gated -- while stopped and before the first start, followed by stop / trigger / a refused start / a re-arming set and "
                "a new start) against a caller script of get_frame / wait-running ops, on the real simulated.camera.c (Empty kind, 4x2 u8) "
                "behind the real HAL camera.c under the vplatform scheduler: uniform random schedules from seeds (with and without "
                "spurious wake-ups), and every schedule prefix of depth %d over fixed small scripts; the extracted model replays the schedule "
                "the implementation took, step by step (thread, scheduling-point kind, object, events = return codes and delivered ids). "
                "non-trivial = at least one frame delivered and (more than one run, or a trigger, or a shutdown exit); "
                "distinct = distinct (scripts, schedule)" % (9 if thorough else 6))
    ctx.assumptions = [
        "fairness of the OS scheduler (every 'returns' claim): C18_stop_unblocks bounds the designated threads' steps by mu + the number "
        "of spurious wake-ups and shows a thread is always enabled; that enabled threads get scheduled is assumed",
        "sequential consistency at block granularity: the data races on is_running / frame_wanted are interleaved only at vplatform's scheduling points",
        "pthread mutex/condvar semantics are those of vplatform (modelled, not exercised); exposure timing is virtual",
        "one controller thread (start/stop/trigger/set are sequential) and one caller thread; get_frame is not ENTERED while another thread is "
        "inside stop (the HAL's error path would call stop re-entrantly: HAL protocol, C11)",
        "frame ids are unbounded integers (no 64-bit wrap)"]
    ctx.notes.append("label mismatches are reported as a broken tie, never as a violation; only the independent oracle over the implementation's "
                     "own trace produces violations")

    if getattr(ctx, "replay_file", None):
        # --replay <replays/C18-n.json>: re-run exactly that failure (thread-id schedule) before anything else
        try:
            robj = json.load(open(ctx.replay_file))
            process(ctx, orac, impl, [parse_case_line(robj["replay"]["stdin_line"])], "replay-file")
        except (OSError, KeyError, TypeError, ValueError) as ex:
            ctx.notes.append("replay file not understood: %s" % ex)

    corpus = load_corpus(ctx)
    if corpus:
        process(ctx, orac, impl, corpus, "corpus")
    ctx.extra["corpus_cases"] = len(corpus)

    n = 60000 if thorough else 6000
    cases = []
    for k in range(n):
        nruns = ctx.rng.choice([1, 2, 2, 3, 3])
        ctl, cal, e0 = gen_script(ctx.rng, nruns, ctx.rng.random() < 0.7)
        c = {"ctl": normalise(ctl), "cal": cal, "e0": e0, "seed": ctx.rng.randint(1, 1 << 30), "spur": 1 if ctx.rng.random() < 0.25 else 0}
        cases.append(c)
        if k < 3:
            ctx.sample({"controller": c["ctl"], "caller": c["cal"], "e0": e0, "seed": c["seed"], "spur": c["spur"]})
    # the small fixed scripts first: a failure found on one of them gives the shortest replay
    ex = exhaustive_cases(EXH_SCRIPTS, 9 if thorough else 6, 3)
    ctx.extra["exhaustive_prefix_cases"] = len(ex)
    process(ctx, orac, impl, ex, "exhaustive-prefix")
    process(ctx, orac, impl, cases, "random")

    # ---- thorough: independent re-check of the compiled proofs with coqchk
    if thorough and os.path.exists(os.path.join(ctx.coqdir, "Properties_%s.vo" % ctx.prop)):
        rc, o, e = vlib.sh("timeout 900 coqchk -o -silent -Q . SimSync SimSync.Properties_%s" % ctx.prop, cwd=ctx.coqdir, timeout=950)
        txt = o + e
        ok = rc == 0 and "Axioms: <none>" in txt and "type-in-type: <none>" in txt
        ctx.extra["coqchk"] = "ok: axioms <none>, no type-in-type, no unsafe fixpoints" if ok else txt[-800:]
        if not ok:
            ctx.broken_tie("coqchk does not accept SimSync.Properties_%s" % ctx.prop, txt[-800:])
