/* h_layout_pipe.c -- the REAL source.c, sink.c (and optionally filter.c), channel.c, vfslice.c,
   frame_iterator.c, throttler.c, components.c, compiled unmodified from the working tree of the repository
   under test against /verif/harness/vplatform (deterministic scheduler, virtual clock), with a scripted mock
   camera and a recording mock storage defined HERE in place of the HAL (camera_* / storage_*), and a monitor
   client thread doing what acquire_map_read / acquire_unmap_read do on the sink's channel.
   Observation points of C05: every storage_append(beg, end) and every client mapping [beg, end).

   stdin:  CAP <bytes>            capacity of the sink's channel
           FCAP <bytes>           capacity of the filter's channel (filter runs)
           DELAY <ms>             sink write delay (vfslice_split_at_delay_ms)
           FILTER <window>        0: source -> sink;  >0: source -> filter (frame averaging, window) -> sink
           FRAMES <n>             max_frame_count
           SHAPE <c> <w> <h> <p> <t> <drop>   one line per scripted frame (used cyclically); drop=1: the camera
                                  reports 0 bytes for that frame (source aborts the write)
           CLIENT <j0> <j1> ...   the client consumes j_k frames of its k-th non-empty mapping (-1: everything),
                                  afterwards everything; no CLIENT line: no monitor client
           SEED <s> | SCHED t0 t1 ...
   stdout: A <off> <len> frames=<off>:<size>:<id>:<c>:<w>:<h>:<p>:<type>:<planes stride>,... end=<off>   storage_append
           M <off> <len> frames=... end=<off>                                                             client mapping
           C <consumed>                                                                                    client unmap
           F ...   the same for what the filter maps from its input ring (informative)
           W <id> <c> <w> <h> <p> <type>      what the mock camera reported for frame id (its hardware_frame_id)
           BASE <addr % 8>, END / DEADLOCK / STEPLIMIT, SCHEDULE ...
   Walks are done HERE with memcpy (not with frame_iterator): the line shows what the bytes are. */
#include <signal.h>
#include <sys/time.h>
#include <stdio.h>
#include <stdlib.h>
#include <unistd.h>
#include "platform.h"
#include "vsched.h"
#include "runtime/channel.h"
#include "runtime/source.h"
#include "runtime/sink.h"
#include "runtime/filter.h"
#include "runtime/frame_iterator.h"
#include "device/props/components.h"
#include "device/kit/camera.h"
#include "device/kit/storage.h"
#include "device/hal/camera.h"
#include "device/hal/storage.h"

void aq_logger(int is_error, const char* file, int line, const char* function, const char* fmt, ...)
{
    if (!is_error) return;
    va_list ap; va_start(ap, fmt);
    printf("LOGE %s:%d ", function, line); vprintf(fmt, ap); printf("\n");
    va_end(ap);
}
const char* device_state_as_string(enum DeviceState s) { (void)s; return "?"; }

/* ------------------------------------------------------------------ script */
#define MAXS 256
static struct { struct ImageShape shape; int drop; int flip; } script[MAXS];
static int nscript = 0;
static long long client_j[4096];
static int nclient = -1;
static uint64_t cam_frame = 0;        /* frames delivered so far = next hardware_frame_id */
static uint64_t cam_calls = 0;        /* get_frame calls so far (index into the script) */

/* ------------------------------------------------------------------ mock camera (replaces device/hal/camera.c) */
static struct Camera g_cam;
static enum DeviceState cam_state = DeviceState_Armed;
struct Camera* camera_open(const struct DeviceManager* s, const struct DeviceIdentifier* id) { (void)s; (void)id; return &g_cam; }
void camera_close(struct Camera* c) { (void)c; }
enum DeviceStatusCode camera_set(struct Camera* c, struct CameraProperties* p) { (void)c; (void)p; return Device_Ok; }
enum DeviceStatusCode camera_get(const struct Camera* c, struct CameraProperties* p) { (void)c; (void)p; return Device_Ok; }
enum DeviceStatusCode camera_get_meta(const struct Camera* c, struct CameraPropertyMetadata* m) { (void)c; (void)m; return Device_Ok; }
enum DeviceStatusCode camera_start(struct Camera* c) { (void)c; cam_state = DeviceState_Running; return Device_Ok; }
enum DeviceStatusCode camera_stop(struct Camera* c) { (void)c; cam_state = DeviceState_Armed; return Device_Ok; }
enum DeviceStatusCode camera_execute_trigger(struct Camera* c) { (void)c; return Device_Ok; }
enum DeviceState camera_get_state(const struct Camera* c) { (void)c; return cam_state; }
enum DeviceStatusCode camera_get_image_shape(const struct Camera* c, struct ImageShape* shape)
{
    (void)c;
    vs_point("dev:get_image_shape");
    *shape = script[cam_calls % nscript].shape;
    if (script[cam_calls % nscript].flip) {
        /* the camera is re-configured between this query and the exposure of the frame: what it reports here is the
           transposed shape (same byte count); the frame itself comes with the shape of the script */
        uint32_t w = shape->dims.width;
        shape->dims.width = shape->dims.height;
        shape->dims.height = w;
        shape->strides.height = (int64_t)shape->dims.channels * shape->dims.width;
    }
    return Device_Ok;
}
enum DeviceStatusCode camera_get_frame(struct Camera* c, void* im, size_t* nbytes, struct ImageInfo* info)
{
    (void)c;
    vs_point("dev:get_frame");
    const int k = (int)(cam_calls % nscript);
    ++cam_calls;
    if (script[k].drop) { *nbytes = 0; return Device_Ok; }
    size_t sz = bytes_of_image(&script[k].shape);
    if (sz > *nbytes) sz = *nbytes;
    memset(im, (int)(0x40 + (cam_frame & 0x3f)), sz);
    *nbytes = sz ? sz : 1; /* a zero-byte image (unknown sample type) is still a frame */
    info->shape = script[k].shape;
    info->hardware_frame_id = cam_frame;
    info->hardware_timestamp = cam_frame;
    printf("W %llu %u %u %u %u %d\n", (unsigned long long)cam_frame, info->shape.dims.channels, info->shape.dims.width,
           info->shape.dims.height, info->shape.dims.planes, (int)info->shape.type);
    ++cam_frame;
    return Device_Ok;
}

/* ------------------------------------------------------------------ packet printer */
static void log_packet(const char* tag, const uint8_t* base, const uint8_t* beg, const uint8_t* end)
{
    printf("%s %lld %lld frames=", tag, beg ? (long long)(beg - base) : -1LL, (long long)(end - beg));
    const uint8_t* p = beg;
    int n = 0;
    while (p && p < end && n < 100000) {
        struct VideoFrame h;
        if ((size_t)(end - p) < sizeof h) { printf("%sTRUNC@%lld", n ? "," : "", (long long)(p - base)); p = end + 1; break; }
        memcpy(&h, p, sizeof h);
        printf("%s%lld:%zu:%llu:%u:%u:%u:%u:%d:%lld", n ? "," : "", (long long)(p - base), h.bytes_of_frame,
               (unsigned long long)h.hardware_frame_id, h.shape.dims.channels, h.shape.dims.width, h.shape.dims.height,
               h.shape.dims.planes, (int)h.shape.type, (long long)h.shape.strides.planes);
        ++n;
        if (h.bytes_of_frame == 0 || h.bytes_of_frame > (size_t)1 << 40) { p = end + 1; break; }
        p += h.bytes_of_frame;
    }
    printf(" end=%lld\n", (long long)(p - base));
}

/* ------------------------------------------------------------------ mock storage (replaces device/hal/storage.c) */
static struct Storage g_sto;
static enum DeviceState sto_state = DeviceState_Armed;
static struct video_sink_s sink;
static struct video_source_s source;
static struct video_filter_s filter;
static int use_filter = 0;

struct Storage* storage_open(const struct DeviceManager* s, const struct DeviceIdentifier* id) { (void)s; (void)id; return &g_sto; }
void storage_close(struct Storage* s) { (void)s; }
enum DeviceStatusCode storage_set(struct Storage* s, const struct StorageProperties* p) { (void)s; (void)p; return Device_Ok; }
enum DeviceStatusCode storage_get(const struct Storage* s, struct StorageProperties* p) { (void)s; (void)p; return Device_Ok; }
enum DeviceStatusCode storage_start(struct Storage* s) { (void)s; sto_state = DeviceState_Running; return Device_Ok; }
enum DeviceStatusCode storage_stop(struct Storage* s) { (void)s; sto_state = DeviceState_Armed; return Device_Ok; }
enum DeviceState storage_get_state(const struct Storage* s) { (void)s; return sto_state; }
enum DeviceStatusCode storage_append(struct Storage* s, const struct VideoFrame* beg, const struct VideoFrame* end)
{
    (void)s;
    vs_point("dev:append");
    if ((const uint8_t*)end > (const uint8_t*)beg)
        log_packet("A", sink.in.data, (const uint8_t*)beg, (const uint8_t*)end);
    return Device_Ok;
}

/* ------------------------------------------------------------------ runtime glue (what acquire.c does) */
static void sig_stop_source(const struct video_sink_s* s) { (void)s; source.is_stopping = 1; }
static void await_filter_reset(const struct video_source_s* s) { (void)s; filter.sig_accumulator_reset = 1; event_wait(&filter.accumulator_reset_event); }
static void sig_stop_filter(const struct video_source_s* s) { (void)s; if (use_filter) { filter.is_stopping = 1; thread_join(&filter.thread); } }
static void sig_stop_sink(const struct video_source_s* s) { (void)s; sink.is_stopping = 1; }

/* the monitoring client: acquire_map_read / acquire_unmap_read on the sink's channel */
static struct channel_reader monitor;
static void client_thread(void* arg)
{
    (void)arg;
    int k = 0;
    vs_name("client");
    while (sink.is_running || source.is_running) {
        struct slice s = channel_read_map(&sink.in, &monitor);
        size_t consumed = 0;
        if (s.end > s.beg) {
            log_packet("M", sink.in.data, s.beg, s.end);
            long long j = k < nclient ? client_j[k] : -1;
            ++k;
            if (j < 0) consumed = s.end - s.beg;
            else {
                /* the client walks the frames it was given (as a client does, with the public iterator) */
                struct frame_iterator it = frame_iterator_init(&s);
                long long n = 0;
                while (n < j && frame_iterator_next(&it)) { ++n; if (it.remaining.beg) consumed = it.remaining.beg - s.beg; }
                if (n < j || consumed > (size_t)(s.end - s.beg)) consumed = s.end - s.beg;
            }
        }
        vs_point("client:between-map-and-unmap");
        channel_read_unmap(&sink.in, &monitor, consumed);
        if (s.end > s.beg) printf("C %zu\n", consumed);
        clock_sleep_ms(0, 1.0f);
    }
}

static int on_stuck(const char* why) { printf("STUCK %s\n", why); return 0; }
/* watchdog: a loop without scheduling points that never ends (a walk that does not advance) */
static void on_alarm(int sig) { (void)sig; fflush(stdout); (void)!write(1, "\nHANG\n", 6); _exit(9); }
/* CPU time of this process, not wall-clock: a loaded machine must not look like a hang */
static void watchdog(int seconds) { struct itimerval t = { { 0, 0 }, { seconds, 0 } }; setitimer(ITIMER_PROF, &t, 0); }

int main(void)
{
    static char line[1 << 16];
    static int sched[1 << 18];
    size_t nsched = 0;
    long long cap = 4096, fcap = 4096, frames = 8, seed = 1, window = 0;
    double delay = 0;
    int mode = 0;
    setvbuf(stdout, 0, _IOLBF, 1 << 16);
    signal(SIGPROF, on_alarm);
    while (fgets(line, sizeof line, stdin)) {
        long long a[7];
        if (sscanf(line, "CAP %lld", &cap) == 1) continue;
        if (sscanf(line, "FCAP %lld", &fcap) == 1) continue;
        if (sscanf(line, "DELAY %lf", &delay) == 1) continue;
        if (sscanf(line, "FILTER %lld", &window) == 1) continue;
        if (sscanf(line, "FRAMES %lld", &frames) == 1) continue;
        if (sscanf(line, "SEED %lld", &seed) == 1) continue;
        a[6] = 0;
        if (sscanf(line, "SHAPE %lld %lld %lld %lld %lld %lld %lld", &a[0], &a[1], &a[2], &a[3], &a[4], &a[5], &a[6]) >= 6 && nscript < MAXS) {
            struct ImageShape sh = { .dims = { (uint32_t)a[0], (uint32_t)a[1], (uint32_t)a[2], (uint32_t)a[3] },
                                     .strides = { 1, a[0], a[0] * a[1], a[0] * a[1] * a[2] }, .type = (enum SampleType)(int)a[4] };
            script[nscript].shape = sh; script[nscript].drop = (int)a[5]; script[nscript].flip = (int)a[6]; ++nscript;
            continue;
        }
        if (!strncmp(line, "CLIENT", 6) || !strncmp(line, "SCHED", 5)) {
            char* p = strchr(line, ' ');
            if (line[0] == 'C') nclient = 0; else mode = 1;
            while (p && *p) {
                char* e;
                long long v = strtoll(p, &e, 10);
                if (e == p) break;
                if (line[0] == 'C') { if (nclient < 4096) client_j[nclient++] = v; }
                else if (nsched < sizeof sched / sizeof *sched) sched[nsched++] = (int)v;
                p = e;
            }
            continue;
        }
    }
    if (nscript == 0) { printf("FATAL no SHAPE\n"); return 2; }
    use_filter = window > 0;

    struct vs_config c = { 0 };
    c.seed = (uint64_t)seed; c.trace = 0; c.schedule = sched; c.nschedule = nsched; c.mode = mode; c.max_steps = 400000;
    watchdog(5);   /* a run takes milliseconds of CPU time */
    vs_init(&c);
    vs_on_stuck(on_stuck);

    /* what acquire_init / acquire_configure / acquire_start do, in their order */
    video_sink_init(&sink, 0, (size_t)cap, sig_stop_source);
    video_filter_init(&filter, 0, (size_t)fcap, &sink.in);          /* acquire_init always creates the filter */
    video_filter_configure(&filter, (uint32_t)window);
    video_source_init(&source, 0, (uint64_t)frames, &sink.in, &filter.in, await_filter_reset, sig_stop_filter, sig_stop_sink);
    sink.storage = &g_sto; sink.write_delay_ms = (float)delay;
    source.camera = &g_cam; source.enable_filter = (uint8_t)use_filter;
    printf("BASE %d\n", (int)((uintptr_t)sink.in.data % 8));
    if (video_sink_start(&sink) != Device_Ok) { printf("FATAL sink start\n"); return 3; }
    if (use_filter && video_filter_start(&filter) != Device_Ok) { printf("FATAL filter start\n"); return 3; }
    if (video_source_start(&source) != Device_Ok) { printf("FATAL source start\n"); return 3; }
    struct thread cl;
    thread_init(&cl);
    if (nclient >= 0) thread_create(&cl, client_thread, 0);
    thread_join(&source.thread);
    thread_join(&sink.thread);
    if (nclient >= 0) thread_join(&cl);
    printf("END frames=%llu\n", (unsigned long long)cam_frame);
    vs_dump_schedule();
    fflush(stdout);
    return 0;
}
