/* h_layout.c -- sequential driver for the REAL components.c, frame_iterator.c, vfslice.c and channel.c
   (compiled unmodified from the working tree of the repository under test; DESIGN 3(a), 6.5).
   Reads one op per line from stdin, prints one canonical result line per op; oracle/main.ml speaks the
   same protocol around the extracted Coq model.  Offsets are relative to the buffer base; the null
   pointer is -1.

   function mode (a flat, 16-aligned buffer holding one packet at a time):
     bot <t>                                  bytes_of_type((enum SampleType)t)
     img <c> <w> <h> <p> <sc> <sw> <sh> <sp> <t>
                                              bytes_of_image of that ImageShape; fs = 96 + image bytes rounded up
                                              (computed with & ~7, independently of the code); src / flt = the
                                              expressions of source.c:61-64 / filter.c:110-115 over the real
                                              bytes_of_image and sizeof(struct VideoFrame)
     pkt <beg> <n> (<size> <ts>)*n            write n headers back to back from offset beg
     iter <b> <e>                             while (frame_iterator_next(&it)) ...  over {buf+b, buf+e} (-1 -1 = {0,0})
     split <b> <e> <small> <mask>             vfslice_split_at_delay_ms; delay = small ? 0 : 5 ms;
                                              clock_cmp(now, ts) > 0  iff  bit (ts & 15) of mask is set
   ring mode (the real channel; frames are written the way source.c writes them):
     new <cap>
     w <c> <w> <h> <p> <t>                    nbytes_aligned of that shape; channel_write_map; header fill
     c | a | acc <0|1>                        channel_write_unmap | channel_abort_write | channel_accept_writes
     r <i>                                    channel_read_map for reader i, then walk the slice by frame_iterator
     us <i> <small> <mask>                    the sink's step on reader i's slice: split, append range, unmap(consumed)
     uj <i> <j>                               the client's step: consume the first j frames (everything when j >= #frames)
*/
#include <setjmp.h>
#include <signal.h>
#include <sys/time.h>
#include <unistd.h>
#include <stdio.h>
#include <stdlib.h>
#include "runtime/channel.h"
#include "runtime/frame_iterator.h"
#include "runtime/vfslice.h"
#include "device/props/components.h"

/* ------------------------------------------------------------------ platform stubs */
static jmp_buf g_block;
static int g_can_block = 0;
static int g_lock_err = 0;
static unsigned g_mask = 0;

void lock_init(struct lock* self) { self->depth = 0; }
void lock_acquire(struct lock* self) { if (self->depth != 0) g_lock_err = 1; self->depth++; }
void lock_release(struct lock* self) { if (self->depth != 1) g_lock_err = 1; self->depth--; }
void condition_variable_init(struct condition_variable* self) { self->notified = 0; }
void condition_variable_wait(struct condition_variable* self, struct lock* lock)
{
    lock->depth = 0; /* wait releases the lock */
    if (!g_can_block) { printf("FATAL wait outside write_map\n"); exit(3); }
    longjmp(g_block, 1);
}
void condition_variable_notify_all(struct condition_variable* self) { (void)self; }
void* memory_alloc(size_t n, enum AllocatorHint hint) { (void)hint; return malloc(n); }
void memory_free(void* p) { free(p); }
void clock_init(struct clock* c) { c->origin = 1000; }
void clock_shift_ms(struct clock* c, double ms) { (void)c; (void)ms; }
uint64_t clock_tic(struct clock* c) { (void)c; return 0; }
int64_t clock_toc(struct clock* c) { (void)c; return 0; }
double clock_toc_ms(struct clock* c) { (void)c; return 0; }
int8_t clock_cmp_now(struct clock* c) { (void)c; return 0; }
/* scripted predicate: > 0 iff the bit selected by the timestamp is set; otherwise 0 or -1 */
int8_t clock_cmp(struct clock* c, uint64_t ts)
{
    (void)c;
    if ((g_mask >> (ts & 15)) & 1) return 1;
    return (ts & 16) ? 0 : -1;
}
void clock_sleep_ms(struct clock* c, float ms) { (void)c; (void)ms; }

/* ------------------------------------------------------------------ function mode */
#define FBUF (1u << 21)
static _Alignas(16) unsigned char fbuf[FBUF];

static long long off_of(const unsigned char* base, const void* p) { return p ? (const unsigned char*)p - base : -1; }

static void do_iter(unsigned char* base, struct slice sl, int with_sizes)
{
    struct frame_iterator it = frame_iterator_init(&sl);
    struct VideoFrame* f;
    uint8_t* prev = it.remaining.beg;
    int n = 0, first = 1;
    while (n < 10000 && (f = frame_iterator_next(&it))) {
        if (with_sizes) printf("%s%lld:%zu:%llu", first ? "" : ",", off_of(base, f), f->bytes_of_frame, (unsigned long long)f->frame_id);
        else printf("%s%lld", first ? "" : ",", off_of(base, f));
        first = 0; ++n;
        prev = it.remaining.beg;
    }
    if (n >= 10000) printf(" %s=loop", with_sizes ? "end" : "last");
    else printf(" %s=%lld", with_sizes ? "end" : "last", off_of(base, prev));
}

/* ------------------------------------------------------------------ ring mode */
#define MAXR 8
static struct channel ch;
static struct channel_reader rdr[MAXR + 1];
static struct slice held[MAXR + 1];
static int have = 0;
static unsigned long long nframes = 0;

static void dump(void)
{
    printf(" | S %zu %zu %zu %zu %d %u", ch.head, ch.high, ch.cycle, ch.mapped, (int)ch.is_accepting_writes, ch.holds.n);
    for (unsigned i = 0; i < ch.holds.n && i < MAXR; ++i) {
        printf(" [%zu %zu %d %d", ch.holds.pos[i], ch.holds.cycles[i], (int)rdr[i].state, (int)rdr[i].status);
        if (rdr[i].state == ChannelState_Mapped) printf(" %zu %zu", rdr[i].pos, rdr[i].cycle);
        printf("]");
    }
    if (g_lock_err) printf(" LOCKERR");
    if (ch.lock.depth != 0) printf(" LOCKHELD");
    printf("\n");
}

/* watchdog: an op that does not return within 3 s of CPU time (a walk that never advances) ends the process with a HANG line */
static void on_alarm(int sig) { (void)sig; fflush(stdout); (void)!write(1, "\nHANG\n", 6); _exit(9); }
/* CPU time of this process, not wall-clock: a loaded machine must not look like a hang */
static void watchdog(int seconds) { struct itimerval t = { { 0, 0 }, { seconds, 0 } }; setitimer(ITIMER_PROF, &t, 0); }

int main(void)
{
    static char line[1 << 16];
    setvbuf(stdout, 0, _IOLBF, 1 << 16);
    signal(SIGPROF, on_alarm);
    if (sizeof(struct VideoFrame) != 96 || offsetof(struct VideoFrame, bytes_of_frame) != 0 || offsetof(struct VideoFrame, data) != 96) {
        printf("FATAL sizeof(struct VideoFrame)=%zu\n", sizeof(struct VideoFrame));
        return 4;
    }
    while (fgets(line, sizeof line, stdin)) {
        long long a[12] = { 0 };
        int pos = 0;
        if (line[0] == '\n' || line[0] == '#') continue;
        watchdog(3);
        if (sscanf(line, "bot %lld", &a[0]) == 1) {
            printf("bot %zu\n", bytes_of_type((enum SampleType)(int)a[0]));
        } else if (sscanf(line, "img %lld %lld %lld %lld %lld %lld %lld %lld %lld", &a[0], &a[1], &a[2], &a[3], &a[4], &a[5], &a[6], &a[7], &a[8]) == 9) {
            struct ImageShape sh = { .dims = { (uint32_t)a[0], (uint32_t)a[1], (uint32_t)a[2], (uint32_t)a[3] },
                                     .strides = { a[4], a[5], a[6], a[7] }, .type = (enum SampleType)(int)a[8] };
            size_t b = bytes_of_image(&sh);
            size_t fs = sizeof(struct VideoFrame) + ((b + 7) & ~(size_t)7);
            size_t nb = sizeof(struct VideoFrame) + b;
            size_t src = 8 * ((nb + 7) / 8);
            struct ImageShape acc = sh; acc.type = SampleType_f32;
            size_t nf = bytes_of_image(&acc) + sizeof(struct VideoFrame);
            size_t flt = 8 * ((nf + 7) / 8);
            printf("img %zu fs=%zu src=%zu flt=%zu\n", b, fs, src, flt);
        } else if (sscanf(line, "pkt %lld %lld%n", &a[0], &a[1], &pos) == 2) {
            long long off = a[0];
            const char* p = line + pos;
            memset(fbuf, 0xA5, sizeof fbuf);
            for (long long k = 0; k < a[1]; ++k) {
                long long s, t; int adv = 0;
                if (sscanf(p, " %lld %lld%n", &s, &t, &adv) != 2) break;
                p += adv;
                if (off < 0 || off + (long long)sizeof(struct VideoFrame) > (long long)FBUF) { printf("FATAL pkt outside\n"); return 5; }
                struct VideoFrame h = { .bytes_of_frame = (size_t)s, .frame_id = (uint64_t)k };
                h.timestamps.acq_thread = (uint64_t)t;
                memcpy(fbuf + off, &h, sizeof h);
                off += s;
            }
            printf("pkt ok\n");
        } else if (sscanf(line, "iter %lld %lld", &a[0], &a[1]) == 2) {
            struct slice sl = { a[0] < 0 ? 0 : fbuf + a[0], a[1] < 0 ? 0 : fbuf + a[1] };
            printf("iter v="); do_iter(fbuf, sl, 0); printf("\n");
        } else if (sscanf(line, "split %lld %lld %lld %lld", &a[0], &a[1], &a[2], &a[3]) == 4) {
            struct slice sl = { a[0] < 0 ? 0 : fbuf + a[0], a[1] < 0 ? 0 : fbuf + a[1] };
            struct vfslice s = make_vfslice(sl);
            g_mask = (unsigned)a[3];
            struct vfslice rem = vfslice_split_at_delay_ms(&s, a[2] ? 0.0f : 5.0f);
            printf("split %lld %lld consumed=%lld\n", off_of(fbuf, rem.beg), off_of(fbuf, rem.end),
                   (long long)((const uint8_t*)rem.beg - (const uint8_t*)s.beg));
        } else if (sscanf(line, "new %lld", &a[0]) == 1) {
            if (have) channel_release(&ch);
            channel_new(&ch, (size_t)a[0]);
            memset(rdr, 0, sizeof rdr); memset(held, 0, sizeof held);
            have = 1; g_lock_err = 0; nframes = 0;
            printf("NEW %lld%s\n", a[0], ((uintptr_t)ch.data % 8) ? " BASE-UNALIGNED" : "");
        } else if (sscanf(line, "w %lld %lld %lld %lld %lld", &a[0], &a[1], &a[2], &a[3], &a[4]) == 5) {
            struct ImageShape sh = { .dims = { (uint32_t)a[0], (uint32_t)a[1], (uint32_t)a[2], (uint32_t)a[3] },
                                     .strides = { 1, a[0], a[0] * a[1], a[0] * a[1] * a[2] }, .type = (enum SampleType)(int)a[4] };
            /* source.c:61-64 */
            size_t sz = bytes_of_image(&sh);
            size_t nbytes = sizeof(struct VideoFrame) + sz;
            const size_t nbytes_aligned = 8 * ((nbytes + 7) / 8);
            void* p = 0;
            int blocked = 0;
            g_can_block = 1;
            if (setjmp(g_block) == 0) p = channel_write_map(&ch, nbytes_aligned);
            else blocked = 1;
            g_can_block = 0;
            if (blocked) printf("W blocked n=%zu", nbytes_aligned);
            else if (!p) printf("W %s n=%zu", nbytes_aligned >= ch.capacity ? "toobig" : "refused", nbytes_aligned);
            else {
                long long off = (unsigned char*)p - ch.data;
                printf("W region %lld n=%zu", off, nbytes_aligned);
                if (off < 0 || off + (long long)nbytes_aligned > (long long)ch.capacity) { printf(" OUTSIDE\n"); fflush(stdout); exit(5); }
                memset(p, 0xA5, nbytes_aligned);
                /* source.c:85-92 */
                struct VideoFrame h = { .shape = sh, .bytes_of_frame = nbytes_aligned, .frame_id = nframes, .hardware_frame_id = nframes };
                h.timestamps.acq_thread = nframes;
                memcpy(p, &h, sizeof h);
                ++nframes;
            }
            dump();
        } else if (line[0] == 'c') {
            channel_write_unmap(&ch); printf("U"); dump();
        } else if (line[0] == 'a' && line[1] != 'c') {
            channel_abort_write(&ch); printf("U"); dump();
        } else if (sscanf(line, "acc %lld", &a[0]) == 1) {
            channel_accept_writes(&ch, (uint32_t)a[0]); printf("U"); dump();
        } else if (sscanf(line, "r %lld", &a[0]) == 1 && a[0] >= 0 && a[0] < MAXR) {
            struct slice s = channel_read_map(&ch, &rdr[a[0]]);
            held[a[0]] = s;
            long long len = s.end - s.beg;
            if (len > 0) {
                printf("R %lld %lld frames=", off_of(ch.data, s.beg), len);
                do_iter(ch.data, s, 1);
            } else {
                held[a[0]] = (struct slice){ 0, 0 };
                printf("R - 0");
            }
            dump();
        } else if (sscanf(line, "us %lld %lld %lld", &a[0], &a[1], &a[2]) == 3 && a[0] >= 0 && a[0] < MAXR) {
            /* sink.c:63-70 */
            struct vfslice slice = make_vfslice(held[a[0]]);
            g_mask = (unsigned)a[2];
            struct vfslice remaining = vfslice_split_at_delay_ms(&slice, a[1] ? 0.0f : 5.0f);
            size_t consumed = (uint8_t*)remaining.beg - (uint8_t*)slice.beg;
            printf("U append=%lld..%lld consumed=%zu", off_of(ch.data, slice.beg), off_of(ch.data, remaining.beg), consumed);
            channel_read_unmap(&ch, &rdr[a[0]], consumed);
            held[a[0]] = (struct slice){ 0, 0 };
            dump();
        } else if (sscanf(line, "uj %lld %lld", &a[0], &a[1]) == 2 && a[0] >= 0 && a[0] < MAXR) {
            struct slice s = held[a[0]];
            struct frame_iterator it = frame_iterator_init(&s);
            long long j = 0;
            size_t consumed = 0;
            int n = 0;
            while (j < a[1] && n < 100000 && frame_iterator_next(&it)) { ++j; ++n; if (it.remaining.beg) consumed = it.remaining.beg - s.beg; }
            if (j < a[1] || consumed > (size_t)(s.end - s.beg)) consumed = s.end - s.beg;
            /* j frames walked, but were they all?  everything when the iterator is exhausted */
            if (j == a[1] && s.beg && it.remaining.beg >= it.remaining.end) consumed = s.end - s.beg;
            printf("U consumed=%zu", consumed);
            channel_read_unmap(&ch, &rdr[a[0]], consumed);
            held[a[0]] = (struct slice){ 0, 0 };
            dump();
        } else {
            printf("BADOP %s", line);
        }
        watchdog(0);
    }
    fflush(stdout);
    return 0;
}
