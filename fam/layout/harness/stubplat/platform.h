/* Stub platform.h for the sequential layout harness (placed first on the include path; same idea as
   fam/ring/harness/stubplat).  channel.c, frame_iterator.c, vfslice.c and components.c are compiled
   unmodified from the working tree of the repository under test against these declarations; the
   definitions live in h_layout.c:
     - locks are counted, condition_variable_wait escapes to the harness ("the call would block"),
     - the clock is under the harness's control: clock_cmp answers from a scripted predicate on the
       timestamp, so vfslice_split_at_delay_ms can be driven through any break pattern. */
#ifndef H_ACQUIRE_PLATFORM_V0
#define H_ACQUIRE_PLATFORM_V0
#include <stdint.h>
#include <stddef.h>
#include <string.h>
#include <stdarg.h>
#ifdef __cplusplus
extern "C" {
#endif
struct lock { int depth; };
struct condition_variable { int notified; };
enum AllocatorHint { AllocatorHint_Default, AllocatorHint_LargePage };
struct clock { uint64_t origin; };
void lock_init(struct lock* self);
void lock_acquire(struct lock* self);
void lock_release(struct lock* self);
void condition_variable_init(struct condition_variable* self);
void condition_variable_wait(struct condition_variable* self, struct lock* lock);
void condition_variable_notify_all(struct condition_variable* self);
void* memory_alloc(size_t capacity_bytes, enum AllocatorHint hint);
void memory_free(void* address);
void clock_init(struct clock* clock);
void clock_shift_ms(struct clock* clock, double ms);
uint64_t clock_tic(struct clock* clock);
int64_t clock_toc(struct clock* clock);
double clock_toc_ms(struct clock* clock);
int8_t clock_cmp_now(struct clock* clock);
int8_t clock_cmp(struct clock* clock, uint64_t timestamp);
void clock_sleep_ms(struct clock* clock, float delay_ms);
#ifdef __cplusplus
}
#endif
#endif
