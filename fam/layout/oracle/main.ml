(* Line-protocol driver around the extracted layout + ring model (same protocol as harness/h_layout.c; see
   the comment at the top of that file).  Addresses: the model places every buffer at BASE = 4096 and prints
   offsets from it; the null pointer is printed as -1. *)
open Layoutmodel

let rec pos_of_int n = if n = 1 then XH else if n land 1 = 0 then XO (pos_of_int (n lsr 1)) else XI (pos_of_int (n lsr 1))
let z_of_int n = if n = 0 then Z0 else if n > 0 then Zpos (pos_of_int n) else Zneg (pos_of_int (-n))
let rec int_of_pos = function XH -> 1 | XO p -> 2 * int_of_pos p | XI p -> 2 * int_of_pos p + 1
let int_of_z = function Z0 -> 0 | Zpos p -> int_of_pos p | Zneg p -> - (int_of_pos p)
let rec nat_of_int n = if n <= 0 then O else S (nat_of_int (n - 1))
let rec int_of_nat = function O -> 0 | S n -> 1 + int_of_nat n

let base = 4096
let zb = z_of_int base
let off_of_addr a = if a = 0 then -1 else a - base
let addr_of_off o = if o < 0 then 0 else base + o

let words s = List.filter (fun x -> x <> "") (String.split_on_char ' ' (String.trim s))

(* ------------------------------------------------------------------ function mode: packets in a flat buffer *)
let fmem : (int, int) Hashtbl.t = Hashtbl.create 64      (* address -> size field *)
let ftss : (int, int) Hashtbl.t = Hashtbl.create 64      (* address -> timestamp *)
let fm a = z_of_int (try Hashtbl.find fmem (int_of_z a) with Not_found -> 0)
let fts a = z_of_int (try Hashtbl.find ftss (int_of_z a) with Not_found -> 0)
let brk_of_mask mask = fun t -> (mask lsr ((int_of_z t) land 15)) land 1 = 1

let show_iter (visited, last) =
  let v = String.concat "," (List.map (fun a -> string_of_int (off_of_addr (int_of_z a))) visited) in
  match last with
  | Some l -> Printf.sprintf "v=%s last=%d" v (off_of_addr (int_of_z l))
  | None -> Printf.sprintf "v=%s last=loop" v

(* ------------------------------------------------------------------ ring mode *)
let g = ref (ginit (z_of_int 1))
let nframes = ref 0                                        (* frames handed a region so far *)
let pend_id = ref (-1)
let ids : (int, int) Hashtbl.t = Hashtbl.create 64         (* log index of a frame's first byte -> its id (= timestamp) *)
let last_slice : (int, int * int) Hashtbl.t = Hashtbl.create 8   (* reader -> (addr beg, addr end) of its last read *)

let dump (g : gst) =
  let s = g.cs in
  let b = Buffer.create 64 in
  Buffer.add_string b (Printf.sprintf " | S %d %d %d %d %d %d" (int_of_z s.head) (int_of_z s.high) (int_of_z s.cyc)
                         (int_of_z s.mapped) (if s.accepting then 1 else 0) (List.length s.rds));
  List.iter (fun r ->
      Buffer.add_string b (Printf.sprintf " [%d %d %d %d" (int_of_z r.hpos) (int_of_z r.hcyc) (if r.rmapped then 1 else 0) (int_of_z r.rstatus));
      if r.rmapped then Buffer.add_string b (Printf.sprintf " %d %d" (int_of_z r.rpos) (int_of_z r.rcyc));
      Buffer.add_string b "]") s.rds;
  Buffer.contents b

let ring_mem gg = hdr_mem gg zb
let ring_ts gg = fun a ->
  match gg.cell (z_of_int (int_of_z a - base)) with
  | Some li -> z_of_int (try Hashtbl.find ids (int_of_z li) with Not_found -> -1)
  | None -> z_of_int (-1)

let fuel_for len = nat_of_int (len / 8 + 3)

let apply o =
  let g0 = !g in
  let wf = wf_opb g0 o in
  let (g1, r) = gstep g0 o in
  g := g1; (g0, g1, r, wf)

let finish_line g1 wf =
  print_string (dump g1); if not wf then print_string " NOTWF"; print_newline ()

let shape_of c w h p t = packed (z_of_int c) (z_of_int w) (z_of_int h) (z_of_int p) (z_of_int t)

let () =
  let ios = int_of_string in
  (try
     while true do
       let line = input_line stdin in
       match words line with
       | [] -> ()
       | x :: _ when x.[0] = '#' -> ()
       (* ---------------- function mode *)
       | ["bot"; t] -> Printf.printf "bot %d\n" (int_of_z (bytes_of_type (z_of_int (ios t))))
       | ["img"; c; w; h; p; sc; sw; sh; sp; t] ->
         let z x = z_of_int (ios x) in
         let s = { d_channels = z c; d_width = z w; d_height = z h; d_planes = z p;
                   s_channels = z sc; s_width = z sw; s_height = z sh; s_planes = z sp; stype = z t } in
         Printf.printf "img %d fs=%d src=%d flt=%d\n" (int_of_z (bytes_of_image s)) (int_of_z (frame_size s))
           (int_of_z (source_nbytes s)) (int_of_z (filter_nbytes s))
       | "pkt" :: beg :: n :: rest ->
         Hashtbl.reset fmem; Hashtbl.reset ftss;
         let rec go a k l = if k = 0 then () else match l with
             | s :: t :: l' -> Hashtbl.replace fmem a (ios s); Hashtbl.replace ftss a (ios t); go (a + ios s) (k - 1) l'
             | _ -> () in
         go (addr_of_off (ios beg)) (ios n) rest; print_string "pkt ok\n"
       | ["iter"; b; e] ->
         let b = addr_of_off (ios b) and e = addr_of_off (ios e) in
         let r = iter_all (nat_of_int 10000) fm { ibeg = z_of_int b; iend = z_of_int e } in
         Printf.printf "iter %s\n" (show_iter r)
       | ["split"; b; e; small; mask] ->
         let b = addr_of_off (ios b) and e = addr_of_off (ios e) in
         (match sink_step (nat_of_int 10000) fm fts (brk_of_mask (ios mask)) (ios small <> 0) (z_of_int b) (z_of_int e) with
          | Some ((ab, ae), k) ->
            (* split's second component is the slice end; sink_step reports (slice.beg, remaining.beg, consumed) *)
            Printf.printf "split %d %d consumed=%d\n" (off_of_addr (int_of_z ae)) (off_of_addr e) (int_of_z k);
            ignore ab
          | None -> print_string "split loop\n")
       (* ---------------- ring mode *)
       | ["new"; c] ->
         g := ginit (z_of_int (ios c)); nframes := 0; pend_id := -1; Hashtbl.reset ids; Hashtbl.reset last_slice;
         Printf.printf "NEW %s\n" c
       | ["w"; c; w; h; p; t] ->
         let n = source_nbytes (shape_of (ios c) (ios w) (ios h) (ios p) (ios t)) in
         let (_, g1, r, wf) = apply (OWriteMap n) in
         (match r with
          | ResW (WRegion b) -> pend_id := !nframes; incr nframes; Printf.printf "W region %d n=%d" (int_of_z b) (int_of_z n)
          | ResW WTooBig -> Printf.printf "W toobig n=%d" (int_of_z n)
          | ResW WRefused -> Printf.printf "W refused n=%d" (int_of_z n)
          | ResW WBlocked -> Printf.printf "W blocked n=%d" (int_of_z n)
          | _ -> print_string "W ?");
         finish_line g1 wf
       | ["c"] ->
         let g0 = !g in
         if g0.pend && g0.cs.accepting then Hashtbl.replace ids (int_of_z g0.loglen) !pend_id;
         let (_, g1, _, wf) = apply OCommit in
         pend_id := -1; print_string "U"; finish_line g1 wf
       | ["a"] -> let (_, g1, _, wf) = apply OAbort in pend_id := -1; print_string "U"; finish_line g1 wf
       | ["acc"; b] -> let (_, g1, _, wf) = apply (OAccept (ios b <> 0)) in print_string "U"; finish_line g1 wf
       | ["r"; i] ->
         let i = ios i in
         let (_, g1, r, wf) = apply (OReadMap (nat_of_int i)) in
         (match r with
          | ResR rr when int_of_z rr.rlen > 0 ->
            let off = int_of_z rr.roff and len = int_of_z rr.rlen in
            Hashtbl.replace last_slice i (base + off, base + off + len);
            let m = ring_mem g1 in
            let (vis, last) = iter_all (fuel_for len) m { ibeg = z_of_int (base + off); iend = z_of_int (base + off + len) } in
            let fr = String.concat "," (List.map (fun a ->
                Printf.sprintf "%d:%d:%d" (int_of_z a - base) (int_of_z (m a)) (int_of_z (ring_ts g1 a))) vis) in
            Printf.printf "R %d %d frames=%s end=%s" off len fr
              (match last with Some l -> string_of_int (int_of_z l - base) | None -> "loop")
          | ResR _ -> Hashtbl.replace last_slice i (0, 0); print_string "R - 0"
          | _ -> print_string "R ?");
         finish_line g1 wf
       | ["us"; i; small; mask] ->
         let i = ios i in
         let (b, e) = try Hashtbl.find last_slice i with Not_found -> (0, 0) in
         let g0 = !g in
         (match sink_step (fuel_for (e - b)) (ring_mem g0) (ring_ts g0) (brk_of_mask (ios mask)) (ios small <> 0) (z_of_int b) (z_of_int e) with
          | Some ((ab, ae), k) ->
            let (_, g1, _, wf) = apply (OReadUnmap (nat_of_int i, k)) in
            Hashtbl.remove last_slice i;
            Printf.printf "U append=%d..%d consumed=%d" (off_of_addr (int_of_z ab)) (off_of_addr (int_of_z ae)) (int_of_z k);
            finish_line g1 wf
          | None -> print_string "U loop\n")
       | ["uj"; i; j] ->
         let i = ios i and j = ios j in
         let (b, e) = try Hashtbl.find last_slice i with Not_found -> (0, 0) in
         let g0 = !g in
         let m = ring_mem g0 in
         let (vis, _) = iter_all (fuel_for (e - b)) m { ibeg = z_of_int b; iend = z_of_int e } in
         let rec take k l acc = match l with a :: l' when k > 0 -> take (k - 1) l' (acc + int_of_z (m a)) | _ -> acc in
         let k = if j >= List.length vis then e - b else take j vis 0 in
         let (_, g1, _, wf) = apply (OReadUnmap (nat_of_int i, z_of_int k)) in
         Hashtbl.remove last_slice i;
         Printf.printf "U consumed=%d" k; finish_line g1 wf
       | _ -> Printf.printf "BADOP %s\n" line
     done
   with End_of_file -> ())
