"""Generators, runners and the independent property oracles of the layout family (C05).  See check.py.

Three kinds of cases, all text (one op / directive per line), all replayable by feeding the text to the binary:
  fn    function level: bytes_of_type / bytes_of_image / frame sizes / frame_iterator / vfslice_split on flat packets
  ring  the real channel.c carrying source-style frames; reader 0 acts like the sink, the others like the client
  pipe  the real source.c -> (filter.c ->) channel.c -> sink.c threads under the deterministic scheduler, mock
        camera / storage, a monitor client

The ORACLES below state the property directly over the implementation's output and never look at the model:
they recompute sizes with their own table and arithmetic, and walk packets with their own loop.
"""
import vlib

HDR = 96
BPP = {0: 1, 1: 2, 2: 1, 3: 2, 4: 4, 5: 2, 6: 2, 7: 2}   # components.h: u8 u16 i8 i16 f32 u10 u12 u14
TYPES_ALL = list(range(-3, 13)) + [255, 65536, -2147483648, 2147483647]


def bpp(t):
    return BPP.get(t, 0)


def up8(x):
    return (x + 7) // 8 * 8


def fsize(c, w, h, t):
    """size field the property demands for a camera-packed shape: header + image bytes rounded up to 8"""
    return HDR + up8(c * w * h * bpp(t))


# ======================================================================================================= fn
def gen_shape(rng, small=False):
    r = rng.random()
    t = rng.choice([0, 1, 2, 3, 4, 5, 6, 7]) if r < 0.9 else rng.choice(TYPES_ALL)
    c = 1 if rng.random() < 0.8 else rng.choice([2, 3, 4])
    if small:
        w, h = rng.randint(1, 12), rng.randint(1, 4)
    else:
        w, h = rng.randint(1, 70), rng.randint(1, 50)
    return c, w, h, 1, t


def gen_fn_case(rng, idx):
    """one packet + every iterator start / every split position over it"""
    ops = []
    n = rng.randint(1, 8)
    arbitrary = rng.random() < 0.25          # sizes that are not frame sizes (the iterator does not care)
    sizes, tss = [], []
    for _ in range(n):
        if arbitrary:
            sizes.append(rng.randint(96, 400))
        else:
            c, w, h, p, t = gen_shape(rng, small=True)
            sizes.append(fsize(c, w, h, t))
        tss.append(rng.randint(0, 31))
    beg = rng.choice([0, 8, 64, 4096]) if not arbitrary else rng.randint(1, 500)
    ops.append("pkt %d %d %s" % (beg, n, " ".join("%d %d" % (s, t) for s, t in zip(sizes, tss))))
    offs = [beg]
    for s in sizes:
        offs.append(offs[-1] + s)
    # iterator: every start frame, ends at every later boundary and at one point inside a frame
    for i in range(n + 1):
        for j in range(i, n + 1):
            ops.append("iter %d %d" % (offs[i], offs[j]))
        if i < n:
            j = rng.randint(i, n - 1)
            ops.append("iter %d %d" % (offs[i], offs[j] + rng.randint(1, sizes[j] - 1)))
    ops.append("iter -1 -1")
    # split: every split position (mask selecting exactly frame k's timestamp bit), no break, all break, small delay
    masks = set([0, 0xffff])
    for k in range(n):
        masks.add(1 << (tss[k] & 15))
    for _ in range(3):
        masks.add(rng.getrandbits(16))
    for i in sorted(set([0, rng.randint(0, n)])):
        for j in sorted(set([n, rng.randint(i, n)])):
            for m in sorted(masks):
                ops.append("split %d %d 0 %d" % (offs[i], offs[j], m))
            ops.append("split %d %d 1 %d" % (offs[i], offs[j], rng.getrandbits(16)))
    ops.append("split -1 -1 0 %d" % rng.getrandbits(16))
    ops.append("split -1 -1 1 0")
    return ops


def gen_fn_tables(rng, thorough):
    """all sample-type codes x shapes with every residue mod 8 (packed), plus arbitrary strides"""
    ops = []
    for t in TYPES_ALL:
        ops.append("bot %d" % t)
    ws = list(range(1, 18)) + [33, 63, 64, 65, 1920]
    hs = [1, 2, 3, 5, 7, 47, 1080] if thorough else [1, 3, 47]
    cs = [1, 3] if thorough else [1]
    for t in list(range(-1, 11)) + [255]:
        for c in cs:
            for w in ws:
                for h in hs:
                    ops.append("img %d %d %d 1 1 %d %d %d %d" % (c, w, h, c, c * w, c * w * h, t))
    for _ in range(4000 if thorough else 600):
        t = rng.choice(TYPES_ALL)
        sp = rng.choice([0, 1, 7, 8, 9, rng.randint(0, 1 << 12), rng.randint(0, 1 << 31), rng.randint(0, 1 << 40)])
        ops.append("img %d %d %d %d %d %d %d %d %d" % (rng.randint(0, 5), rng.randint(0, 4000), rng.randint(0, 4000), rng.randint(0, 3),
                                                    rng.randint(0, 9), rng.randint(0, 9999), rng.randint(0, 99999), sp, t))
    return ops


def _fn_oracle(ops, out, v):
    """direct statement of what each function must return; list of (key, message, index)"""
    sizes, tss, offs = [], [], []
    for k, (o, l) in enumerate(zip(ops, out)):
        w = o.split()
        r = l.split()
        if w[0] == "bot":
            if r != ["bot", str(bpp(int(w[1])))]:
                v.append(("bytes-of-type", "bytes_of_type(%s) returned %s, components.h says %d" % (w[1], l, bpp(int(w[1]))), k))
        elif w[0] == "img":
            sp, t = int(w[8]), int(w[9])
            b = sp * bpp(t)
            exp = "img %d fs=%d src=%d flt=%d" % (b, HDR + up8(b), HDR + up8(b), HDR + up8(sp * 4))
            if l != exp:
                v.append(("size-field-formula", "shape %s: got '%s', the property demands '%s' (image bytes = planes stride x bytes per sample, "
                          "size = 96 + image bytes rounded up to 8)" % (" ".join(w[1:]), l, exp), k))
        elif w[0] == "pkt":
            n = int(w[2])
            vals = list(map(int, w[3:3 + 2 * n]))
            sizes, tss = vals[0::2], vals[1::2]
            offs = [int(w[1])]
            for s in sizes:
                offs.append(offs[-1] + s)
        elif w[0] == "iter":
            b, e = int(w[1]), int(w[2])
            if b < 0:
                exp = "iter v= last=-1"
            else:
                vis = [x for x in offs[:-1] if b <= x < e]
                last = b
                for x, s in zip(offs[:-1], sizes):
                    if b <= x < e:
                        last = x + s
                exp = "iter v=%s last=%d" % (",".join(map(str, vis)), last)
            if l != exp:
                v.append(("iterator-walk", "frame_iterator over [%d,%d) of the packet at %d with sizes %s: got '%s', stepping by the size "
                          "fields gives '%s'" % (b, e, offs[0] if offs else -1, sizes, l, exp), k))
        elif w[0] == "split":
            b, e, small, mask = int(w[1]), int(w[2]), int(w[3]), int(w[4])
            if b < 0 or e <= b:
                exp = "split %d %d consumed=0" % (b, e)
            elif small:
                exp = "split %d %d consumed=%d" % (e, e, e - b)
            else:
                p = b
                for x, s, t in zip(offs[:-1], sizes, tss):
                    if x < b:
                        continue
                    if x >= e:
                        break
                    if (mask >> (t & 15)) & 1:
                        p = x
                        break
                    p = x + s
                exp = "split %d %d consumed=%d" % (p, e, p - b)
            if l != exp:
                v.append(("split-not-boundary", "vfslice_split_at_delay_ms over [%d,%d) (sizes %s, timestamps %s, small=%d, break mask %#x): got '%s', "
                          "the first selected frame / the end is '%s'" % (b, e, sizes, tss, small, mask, l, exp), k))
    return v


# ======================================================================================================= ring
def gen_ring_history(rng, thorough):
    """A single-writer history of frame writes aimed at the boundaries: capacity = an exact sum of frame sizes
    (so some write has nbytes = cap - head and the ring gets exactly full), readers that stay exactly at `high`."""
    nshapes = rng.randint(1, 4)
    shapes = [gen_shape(rng, small=rng.random() < 0.8) for _ in range(nshapes)]
    shapes = [(c, w, h, p, t if 0 <= t <= 7 or rng.random() < 0.3 else 0) for (c, w, h, p, t) in shapes]
    sz = [fsize(c, w, h, t) for (c, w, h, p, t) in shapes]
    r = rng.random()
    k = rng.randint(2, 7)
    tot = sum(sz[i % nshapes] for i in range(k))
    if r < 0.45:
        cap = tot                       # nbytes = cap - head happens on the k-th write
    elif r < 0.6:
        cap = tot + 8
    elif r < 0.7:
        cap = tot + rng.randint(1, 7)   # capacity not a multiple of 8
    elif r < 0.8:
        cap = max(sz) + 1               # one frame at a time
    else:
        cap = rng.randint(max(sz) + 1, 6 * max(sz))
    cap = max(cap, max(sz) + 1)
    nreaders = rng.randint(1, 3)
    ops = ["new %d" % cap]
    nops = rng.randint(30, 260 if thorough else 140)
    pend = False
    joined = 0
    has_slice = [False] * 8
    wi = 0
    rotate = rng.random() < 0.7
    for _ in range(nops):
        x = rng.random()
        if pend:
            if x < 0.85:
                ops.append("c"); pend = False; continue
            if x < 0.9:
                ops.append("a"); pend = False; continue
        if x < 0.38 and not pend:
            s = shapes[wi % nshapes] if rotate else rng.choice(shapes)
            wi += 1
            ops.append("w %d %d %d %d %d" % s)
            pend = True                  # the model decides whether a region was handed out (NOTWF filter)
        elif x < 0.41:
            ops.append("acc %d" % (0 if rng.random() < 0.4 else 1))
        elif x < 0.72:
            cand = [i for i in range(joined) if not has_slice[i]] + ([joined] if joined < nreaders else [])
            if not cand:
                continue
            i = rng.choice(cand)
            if i == joined:
                joined += 1
            ops.append("r %d" % i)
            has_slice[i] = True
        else:
            cand = [i for i in range(joined) if has_slice[i]]
            if not cand:
                continue
            i = rng.choice(cand)
            has_slice[i] = False
            if i == 0:
                y = rng.random()
                if y < 0.25:
                    ops.append("us 0 1 0")                       # no delay: everything
                elif y < 0.45:
                    ops.append("us 0 0 0")                       # nothing is old enough... consume all (no break)
                else:
                    ops.append("us 0 0 %d" % (rng.getrandbits(16) if rng.random() < 0.6 else 1 << rng.randint(0, 15)))
            else:
                y = rng.random()
                ops.append("uj %d %d" % (i, 99 if y < 0.45 else rng.choice([0, 1, 1, 2, 3])))
    return ops


def _ring_oracle(ops, out, v):
    """C05 over the implementation's own outputs: every slice handed to a reader (and every range the sink-like reader
    appends) is a run of whole committed frames, 8-aligned, exactly chained, with the sizes the property demands.
    Bookkeeping here is independent of the model: a log of committed frames and one cursor (in frames) per reader."""
    log = []            # committed frames: (id, size)
    pend = None         # (id, size)
    accepting = True
    nfr = 0
    cur = {}            # reader -> index into log of its next unconsumed frame
    held = {}           # reader -> list of (off, size, id) of the slice it holds
    for k, (o, l) in enumerate(zip(ops, out)):
        w = o.split()
        res = l.split(" | ")[0].split()
        if w[0] == "new":
            log, pend, accepting, nfr, cur, held = [], None, True, 0, {}, {}
            if "BASE-UNALIGNED" in l:
                v.append(("base-unaligned", "the ring buffer itself is not 8-byte aligned (allocator assumption broken)", k))
            continue
        if w[0] == "w":
            c, ww, h, p, t = map(int, w[1:6])
            exp = fsize(c, ww, h, t)
            n = int(res[-1].split("=")[1])
            if n != exp:
                v.append(("size-field-formula", "write size for shape %s is %d, the property demands %d" % (w[1:], n, exp), k))
            if res[1] == "region" and pend is not None:
                return v        # write_map while a region is mapped
            if res[1] == "region":
                off = int(res[2])
                if off % 8:
                    v.append(("header-unaligned", "write region for a frame starts at ring offset %d (not a multiple of 8)" % off, k))
                pend = (nfr, n)
                nfr += 1
        elif w[0] in ("c", "a") and pend is None:
            return v            # commit / abort with no region mapped: not a single-writer history
        elif w[0] == "c":
            if accepting:
                log.append(pend)
            pend = None
        elif w[0] == "a":
            pend = None
        elif w[0] == "acc":
            accepting = w[1] != "0"
        elif w[0] == "r":
            i = int(w[1])
            if held.get(i):
                return v        # read_map on a reader that still holds a slice: not a history the property speaks about
            if res[1] == "-":
                held[i] = []
                continue
            off, ln = int(res[1]), int(res[2])
            frames = [tuple(map(int, f.split(":"))) for f in res[3].split("=")[1].split(",") if f]
            end = res[4].split("=")[1]
            if i not in cur:
                # a joining reader starts at some committed frame: identify it by the first header's id
                ids = [f[0] for f in log]
                if not frames or frames[0][2] not in ids:
                    v.append(("slice-not-whole-frames", "reader %d joined on a slice that does not start with a committed frame header: %s" % (i, l), k))
                    return v
                cur[i] = ids.index(frames[0][2])
            exp, o2 = [], off
            j = cur[i]
            while o2 < off + ln and j < len(log):
                exp.append((o2, log[j][1], log[j][0]))
                o2 += log[j][1]
                j += 1
            bad = None
            if off % 8:
                bad = ("header-unaligned", "slice for reader %d begins at ring offset %d (not a multiple of 8)" % (i, off))
            elif frames != exp or o2 != off + ln:
                bad = ("slice-not-whole-frames", "slice [%d,%d) for reader %d: walking by size fields gives %s, the next unconsumed committed frames "
                       "are %s (offset:size:id)" % (off, off + ln, i, frames, exp))
            elif end != str(off + ln):
                bad = ("packet-not-exact-end", "slice [%d,%d) for reader %d: stepping by the size fields ends at %s" % (off, off + ln, i, end))
            elif any(f[0] % 8 for f in frames):
                bad = ("header-unaligned", "a frame header inside the slice of reader %d is not 8-aligned: %s" % (i, frames))
            if bad:
                v.append((bad[0], bad[1], k))
                return v
            held[i] = frames
        elif w[0] in ("us", "uj"):
            i = int(w[1])
            frames = held.get(i) or []
            cons = int([x for x in res if x.startswith("consumed=")][0].split("=")[1])
            bounds = [0]
            for f in frames:
                bounds.append(bounds[-1] + f[1])
            if cons not in bounds:
                v.append(("consumed-not-boundary", "reader %d consumed %d bytes of a slice whose frame boundaries are %s" % (i, cons, bounds), k))
                return v
            if w[0] == "us" and frames:
                a, b = res[1].split("=")[1].split("..")
                if int(a) != frames[0][0] or int(b) - int(a) != cons:
                    v.append(("append-not-whole-frames", "the sink step appended [%s,%s) but consumed %d of the slice starting at %d" % (a, b, cons, frames[0][0]), k))
                    return v
            if frames and i in cur:
                cur[i] += bounds.index(cons)
            held[i] = []
    return v


# ======================================================================================================= pipe
def gen_pipe_case(rng, thorough):
    nshapes = rng.randint(1, 6)
    shapes = []
    for _ in range(nshapes):
        c, w, h, p, t = gen_shape(rng, small=rng.random() < 0.85)
        if not (0 <= t <= 7) and rng.random() < 0.7:
            t = 0
        shapes.append((c, w, h, p, t, 1 if rng.random() < 0.08 else 0))
    if all(s[5] for s in shapes):
        shapes[0] = shapes[0][:5] + (0,)
    window = 0 if rng.random() < 0.8 else rng.randint(1, 3)
    if window:
        # the filter averages frames of one shape; keep shape changes but make runs.  accumulate() supports the integer
        # sample types only (an f32 / unknown input makes the filter thread exit: C09/C10's subject, not C05's)
        shapes = [(c, w, h, p, t if t in (0, 1, 2, 3, 5, 6, 7) else 1, d) for (c, w, h, p, t, d) in shapes]
        shapes = [s for s in shapes for _ in range(rng.randint(1, 3))]
    big = max(max(fsize(c, w, h, t), fsize(c, w, h, 4)) for (c, w, h, p, t, d) in shapes)
    sz = [fsize(c, w, h, t) for (c, w, h, p, t, d) in shapes if not d]
    r = rng.random()
    k = rng.randint(2, 6)
    tot = sum(sz[i % len(sz)] for i in range(k)) if not window else k * big
    cap = tot if r < 0.4 else tot + 8 if r < 0.5 else tot + rng.randint(1, 7) if r < 0.6 else rng.randint(big + 1, 5 * big)
    cap = max(cap, big + 8)
    lines = ["CAP %d" % cap, "FCAP %d" % max(cap, big + 8), "DELAY %s" % rng.choice(["0", "0.0005", "0.002", "0.01", "0.05", "0.2", "0.5"]),
             "FILTER %d" % window, "FRAMES %d" % rng.randint(3, 60 if thorough else 30)]
    for s in shapes:
        # sometimes the camera is re-configured between the source's shape query and the exposure: the query reports the
        # transposed shape (same byte count), the frame comes with the scripted one -- the header must carry the latter
        flip = 1 if (not window and s[1] != s[2] and rng.random() < 0.15) else 0
        lines.append("SHAPE %d %d %d %d %d %d %d" % (s + (flip,)))
    if rng.random() < 0.8:
        lines.append("CLIENT " + " ".join(str(rng.choice([-1, -1, 0, 1, 1, 2, 3])) for _ in range(rng.randint(0, 30))))
    lines.append("SEED %d" % rng.randint(1, 1 << 30))
    return lines


def parse_packet(l):
    w = l.split()
    off, ln = int(w[1]), int(w[2])
    fr = w[3].split("=", 1)[1]
    frames = []
    trunc = False
    for f in fr.split(","):
        if not f:
            continue
        if f.startswith("TRUNC"):
            trunc = True
            continue
        frames.append(tuple(int(x) for x in f.split(":")))
    end = int(w[4].split("=")[1])
    return off, ln, frames, end, trunc


def _pipe_oracle(case, lines, v):
    """every packet handed to storage_append and every client mapping: 8-aligned headers, size field = 96 + image bytes
    (of the header's own shape) rounded up to 8, exact chaining onto the packet end, and -- without the filter -- the
    shape the camera reported for that frame; the client's and the sink's packets each continue where the previous
    one of the same reader stopped (frame ids)."""
    filt = any(l.startswith("FILTER ") and l.split()[1] != "0" for l in case)
    cam = {}
    nxt = {"A": None, "M": None}
    mheld = None
    for k, l in enumerate(lines):
        if l.startswith("BASE ") and l.split()[1] != "0":
            v.append(("base-unaligned", "the ring buffer itself is not 8-byte aligned (allocator assumption broken)", k))
        elif l.startswith("W "):
            w = list(map(int, l.split()[1:]))
            cam[w[0]] = tuple(w[1:])
        elif l.startswith(("A ", "M ")):
            tag = l[0]
            off, ln, frames, end, trunc = parse_packet(l)
            what = "storage_append" if tag == "A" else "client mapping"
            if trunc or end != off + ln or not frames:
                v.append(("packet-not-exact-end", "%s [%d,%d): stepping by the size fields ends at %d%s: %s" % (what, off, off + ln, end, " (truncated header)" if trunc else "", l[:300]), k))
                continue
            for (o, size, fid, c, w_, h, p, t, sp) in frames:
                if o % 8:
                    v.append(("header-unaligned", "%s [%d,%d): header at ring offset %d is not 8-aligned" % (what, off, off + ln, o), k))
                exp = HDR + up8(sp * bpp(t))
                if size != exp:
                    v.append(("size-field-formula", "%s: frame %d at %d has size field %d; header size + image bytes (%d x %d) rounded up to 8 is %d"
                              % (what, fid, o, size, sp, bpp(t), exp), k))
                if not filt:
                    if cam.get(fid) != (c, w_, h, p, t):
                        v.append(("shape-mismatch", "%s: frame %d carries shape %s, the camera reported %s" % (what, fid, (c, w_, h, p, t), cam.get(fid)), k))
                    if sp != c * w_ * h:
                        v.append(("shape-mismatch", "%s: frame %d plane stride %d for dims %s" % (what, fid, sp, (c, w_, h)), k))
            if not filt:
                ids = [f[2] for f in frames]
                if ids != list(range(ids[0], ids[0] + len(ids))):
                    v.append(("slice-not-whole-frames", "%s: frame ids in one packet are not consecutive: %s" % (what, ids), k))
                if tag == "A":
                    if nxt["A"] is not None and ids[0] != nxt["A"]:
                        v.append(("slice-not-whole-frames", "storage_append continues with frame %d, expected %d" % (ids[0], nxt["A"]), k))
                    nxt["A"] = ids[-1] + 1
                else:
                    if nxt["M"] is not None and ids[0] != nxt["M"]:
                        v.append(("slice-not-whole-frames", "client mapping starts with frame %d, the client's next unconsumed frame is %d" % (ids[0], nxt["M"]), k))
            if tag == "M":
                mheld = frames
        elif l.startswith("C ") and mheld is not None:
            cons = int(l.split()[1])
            b = [0]
            for f in mheld:
                b.append(b[-1] + f[1])
            if cons in b:
                j = b.index(cons)
                if not filt:
                    nxt["M"] = mheld[0][2] + j
            mheld = None
        elif l.startswith(("DEADLOCK", "STEPLIMIT", "STUCK", "FATAL")):
            v.append(("stuck", "the pipeline run did not finish: " + l[:200], k))
            break
    return v


def _safe(inner):
    def oracle(ops, out):
        v = []
        try:
            inner(ops, out, v)
        except Exception as ex:   # a garbled / truncated output line (the implementation wrote nonsense or died mid-line)
            v.append(("garbled-output", "the implementation's output could not be interpreted (%s: %s); last lines: %s"
                      % (type(ex).__name__, ex, [l[:160] for l in out[-2:]]), max(0, len(out) - 1)))
        return v
    return oracle


fn_oracle = _safe(_fn_oracle)
ring_oracle = _safe(_ring_oracle)
pipe_oracle = _safe(_pipe_oracle)


# ======================================================================================================= runners
def run_lines(exe, ops, timeout=300, args=()):
    rc, o, e = vlib.sh([exe] + list(args), inp="\n".join(ops) + "\n", timeout=timeout,
                       env={"ASAN_OPTIONS": "detect_leaks=0"})
    lines = o.split("\n")
    if lines and lines[-1] == "":
        lines.pop()
    return rc, lines, e
