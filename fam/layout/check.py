"""Layout family: C05 (packets are whole, exactly chained, 8-byte aligned frames).  DESIGN 6.5.

prove -> build -> corpus -> correspond -> independent property oracle -> violations with a minimised replay.
Generators, runners, oracles: layoutwork.py.  Three ties, all against the working tree of vlib.REPO:
  fn    real components.c / frame_iterator.c / vfslice.c            vs  extracted Layout.v
  ring  real channel.c carrying source-style frames, sink-like and client-like readers
                                                                    vs  extracted ChanModel/ChanGhost + Layout.v (hdr_mem)
  pipe  real source.c, sink.c, filter.c, channel.c, vfslice.c, frame_iterator.c, throttler.c under the deterministic
        scheduler with a mock camera/storage and a monitor client   vs  extracted frame_size (sizes), oracle (layout)
"""
import filecmp
import json
import os
import re
import shutil

import vlib
from layoutwork import (fn_oracle, gen_fn_case, gen_fn_tables, gen_pipe_case, gen_ring_history, parse_packet, pipe_oracle,
                        ring_oracle, run_lines)

RT = "acquire-video-runtime/src/runtime"
VR = "acquire-video-runtime/src"
L = "acquire-core-libs/src"
PROPS = L + "/acquire-device-properties"
RING_FILES = ["ChanModel", "ChanGhost", "ChanInv", "ChanLog", "ChanStream", "ChanTheorems"]


def sync_ring_model(ctx):
    """The theorems are stated over the ring family's model: coq/Chan*.v are bit-identical copies of fam/ring/coq
    (this family's _CoqProject binds its directory to the logical name Ring so the copies compile unchanged).
    Keep them identical: if the ring family's files changed, take the new ones (the proofs then have to close over
    the new model, or the Coq step reports it)."""
    src = os.path.join(vlib.VERIF, "fam", "ring", "coq")
    for f in RING_FILES:
        a, b = os.path.join(src, f + ".v"), os.path.join(ctx.coqdir, f + ".v")
        if os.path.exists(a) and (not os.path.exists(b) or not filecmp.cmp(a, b, shallow=False)):
            shutil.copyfile(a, b)
            ctx.log("re-copied %s.v from fam/ring/coq (it had changed)" % f)
            ctx.notes.append("fam/layout/coq/%s.v was refreshed from fam/ring/coq in this run" % f)


def build(ctx):
    orac = ctx.oracle_build(name="vorac")
    here = os.path.join(ctx.famdir, "harness")
    R = vlib.REPO
    inc = ["-I" + os.path.join(R, RT), "-I" + os.path.join(R, VR), "-I" + os.path.join(R, PROPS), "-DNO_UNIT_TESTS"]
    # the iterator / split differential also uses frame sizes that are not multiples of 8: no alignment trap there
    impl = ctx.cc([os.path.join(here, "h_layout.c"), RT + "/channel.c", RT + "/frame_iterator.c", RT + "/vfslice.c",
                   PROPS + "/device/props/components.c"], "h_layout",
                  flags=["-I" + os.path.join(here, "stubplat")] + inc + ["-fno-sanitize=alignment"])
    vp = os.path.join(vlib.VERIF, "harness", "vplatform")
    pipe = ctx.cc([os.path.join(here, "h_layout_pipe.c"), os.path.join(vp, "vsched.c"), RT + "/channel.c", RT + "/source.c",
                   RT + "/sink.c", RT + "/filter.c", RT + "/frame_iterator.c", RT + "/vfslice.c", RT + "/throttler.c",
                   PROPS + "/device/props/components.c"], "h_layout_pipe",
                  flags=["-I" + vp] + inc + ["-I" + os.path.join(R, L, d) for d in
                                              ("acquire-device-hal", "acquire-device-kit", "acquire-core-logger")])
    return orac, impl, pipe


# ----------------------------------------------------------------------------------------------- fn / ring
def split_cases(ops, starts):
    cs = []
    for o in ops:
        if o.split()[0] in starts or not cs:
            cs.append([o])
        else:
            cs[-1].append(o)
    return cs


def crash_key(err):
    m = re.search(r"(AddressSanitizer: [\w-]+|runtime error: [^\n]{0,80})", err or "")
    return m.group(1) if m else (err or "")[-200:]


def run_one(exe, case, timeout=30):
    """-> (complete output lines, status, stderr); status ok | hang | crash"""
    rc, out, err = run_lines(exe, case, timeout=timeout)
    if "HANG" in out or rc == 124:
        k = out.index("HANG") if "HANG" in out else len(out)
        return out[:max(0, k - 1)], "hang", err
    if len(out) < len(case):
        return out, "crash", err
    return out, "ok", err


def run_batch(exe, cases, timeout=400, max_failures=3):
    """Run many self-contained cases in one process; when the process dies or hangs inside a case, attribute it to that
    case (re-run alone) and go on with the rest (after max_failures failures the rest of the batch is skipped: every
    hang costs the 5 s watchdog).  -> list of (lines, status, stderr) per case."""
    res = [([], "skipped", "")] * len(cases)
    start = 0
    failures = 0
    while start < len(cases) and failures < max_failures:
        flat = [o for c in cases[start:] for o in c]
        rc, out, err = run_lines(exe, flat, timeout=timeout)
        pos, k = 0, start
        while k < len(cases) and pos + len(cases[k]) <= len(out) and "HANG" not in out[pos:pos + len(cases[k])]:
            res[k] = (out[pos:pos + len(cases[k])], "ok", "")
            pos += len(cases[k])
            k += 1
        if k >= len(cases):
            break
        res[k] = run_one(exe, cases[k])
        if res[k][1] != "ok":
            failures += 1
        start = k + 1
    return res


def minimise(impl, c, key, oracle_fn):
    # the first line of a ring history (new <cap>) / of a packet case (pkt ...) is its setting: keep it
    head, body = (c[:1], c[1:]) if c and c[0].split()[0] in ("new", "pkt") else ([], c)

    def fails(cand):
        ops = head + cand
        out, st, _ = run_one(impl, ops, timeout=20)
        if key in ("crash", "hang"):
            return st == key
        return st == "ok" and any(k == key for (k, _, _) in oracle_fn(ops, out))
    try:
        return head + vlib.ddmin(body, fails, max_tests=120 if key not in ("crash", "hang") else 40)
    except Exception:
        return c


def report(ctx, impl, c, vs, kind, oracle_fn, how):
    for (key, msg, k) in vs[:3]:
        if ctx.has_violation(key):
            ctx.violation(msg, None, key=key)
            continue
        small = minimise(impl, c, key, oracle_fn)
        out, st, err = run_one(impl, small, timeout=20)
        vv = [x for x in oracle_fn(small, out) if x[0] == key] if st == "ok" else []
        ctx.violation(vv[0][1] if vv else msg, {"kind": kind, "ops": small, "impl_output": out[-40:], "original_length": len(c),
                                                "stderr": (err or "")[-1500:] if st != "ok" else "", "how": how}, key=key)


def fix_wellformed(orac, histories):
    """drop the ops the model flags as not well-formed at their point (commit with nothing mapped, ...), to a fixpoint"""
    flat = [o for h in histories for o in h]
    while True:
        out = run_lines(orac, flat)[1]
        bad = {i for i, l in enumerate(out) if l.endswith("NOTWF")}
        if not bad or len(out) != len(flat):
            break
        flat = [o for i, o in enumerate(flat) if i not in bad]
    return split_cases(flat, ("new",))


def fold_lines(ctx, impl, cases, rcm, mo, em, ires, kind, oracle_fn, how):
    flat_n = sum(len(c) for c in cases)
    if rcm != 0 or len(mo) != flat_n:
        ctx.broken_tie("model oracle failed on %s cases" % kind, (em or "")[-500:])
        return
    pos = 0
    for c, (i, st, err) in zip(cases, ires):
        m = mo[pos:pos + len(c)]
        pos += len(c)
        if st == "skipped":
            ctx.count(kind + ":skipped-after-failures-in-its-batch")
            continue
        if st != "ok":
            vs = oracle_fn(c[:len(i)], i)
            what = ("did not return within 3 s of CPU time (a walk that never advances)" if st == "hang"
                    else "aborted (sanitizer report or crash): " + crash_key(err))
            vs.append((st, "the implementation %s at op '%s' of a %s case" % (what, c[min(len(i), len(c) - 1)], kind), len(i)))
            report(ctx, impl, c[:len(i) + 1], vs, kind, oracle_fn, how)
            ctx.broken_tie("model/implementation disagreement (%s): the implementation %s" % (kind, "hung" if st == "hang" else "died"),
                           {"ops": c[:len(i) + 1][-6:]})
            ctx.case("\n".join(c), nontrivial=False)
            continue
        if kind == "fn":
            nontriv = any(o.startswith("pkt") and int(o.split()[2]) >= 2 for o in c) or c[0].startswith(("bot", "img"))
            for o in c:
                ctx.count("fn:" + o.split()[0])
        else:
            wrapped = any(" region 0 n=" in l and not l.split(" | S ")[1].startswith("0 0 0 ") for l in m)
            multi = any(l.startswith("R ") and "," in l.split(" | ")[0] for l in m)
            partial = False
            lastlen = {}
            for o, l in zip(c, m):
                w = o.split()
                if w[0] == "r" and not l.startswith("R -"):
                    lastlen[w[1]] = int(l.split()[2])
                elif w[0] in ("us", "uj"):
                    cons = int(re.search(r"consumed=(\d+)", l).group(1))
                    if 0 < cons < lastlen.get(w[1], 0):
                        partial = True
                    lastlen[w[1]] = 0
            nontriv = wrapped and multi and partial
            for o in c:
                ctx.count("ring:" + o.split()[0])
            if wrapped:
                ctx.count("ring:history-wrapped")
            if partial:
                ctx.count("ring:history-with-partial-consumption")
            if any(l.startswith("W blocked") for l in m):
                ctx.count("ring:history-with-full-ring")
        ctx.case("\n".join(c), nontrivial=nontriv)
        vs = oracle_fn(c, i)
        if vs:
            report(ctx, impl, c, vs, kind, oracle_fn, how)
        if m != i:
            d = next(k for k in range(len(c)) if m[k] != i[k])
            ctx.broken_tie("model/implementation disagreement (%s)" % kind,
                           {"ops": c[max(0, d - 12):d + 1], "op": c[d], "model": m[d], "impl": i[d]})
        else:
            ctx.traces_validated += 1


def eval_lines(ctx, orac, impl, shards, kind, oracle_fn, how):
    def one(sh):
        return sh, run_lines(orac, [o for c in sh for o in c], timeout=600), run_batch(impl, sh)
    for sh, (rcm, mo, em), ires in vlib.parallel(one, shards):
        fold_lines(ctx, impl, sh, rcm, mo, em, ires, kind, oracle_fn, how)


# ----------------------------------------------------------------------------------------------- pipe
def eval_pipe(ctx, orac, pipe, cases, how):
    # in chunks: when the implementation hangs or dies in many runs (every hang costs the 20 s watchdog) the rest is skipped
    results = []
    k, step = 0, 64
    while k < len(cases):
        part = vlib.parallel(lambda c: run_lines(pipe, c, timeout=60), cases[k:k + step])
        results += part
        k += step
        step = 640
        bad = sum(1 for (rc, lines, err) in part if "HANG" in lines or rc == 124 or rc not in (0, 42, 43))
        if bad >= 8 and k < len(cases):
            ctx.count("pipe:skipped-after-failures", len(cases) - len(results))
            cases = cases[:len(results)]
            break
    shapes = {}
    dnf = 0
    for case, (rc, lines, err) in zip(cases, results):
        ended = any(l.startswith("END") for l in lines)
        hang = "HANG" in lines or rc == 124
        vs = pipe_oracle(case, lines)
        stuck = [x for x in vs if x[0] == "stuck"]
        vs = [x for x in vs if x[0] != "stuck"]
        packets = [parse_packet(l) for l in lines if l.startswith(("A ", "M "))]
        wrapped = any(b[0] < a[0] for a, b in zip(packets, packets[1:]))
        multi = any(len(p[2]) > 1 for p in packets)
        ctx.case("\n".join(case), nontrivial=ended and wrapped and multi)
        ctx.count("pipe:packets", len(packets))
        ctx.count("pipe:frames-in-packets", sum(len(p[2]) for p in packets))
        if wrapped:
            ctx.count("pipe:wrapped")
        if any(l.startswith("FILTER ") and l.split()[1] != "0" for l in case):
            ctx.count("pipe:with-filter")
        sched = next((l for l in lines if l.startswith("SCHEDULE")), None)
        rep = [l for l in case if not l.startswith("SEED")] + (["SCHED " + sched.split(" ", 1)[1]] if sched and " " in sched else
                                                                 [l for l in case if l.startswith("SEED")])
        if stuck or not ended:
            dnf += 1
            ctx.count("pipe:did-not-finish")
            san = "AddressSanitizer" in (err or "") or "runtime error" in (err or "")
            if hang or san or rc not in (0, 42, 43):
                key = "hang" if hang else "crash"
                if not ctx.has_violation(key):
                    what = ("did not return within 5 s of CPU time in a loop without scheduling points (a walk that never advances)" if hang
                            else "aborted (sanitizer report or crash): " + crash_key(err))
                    ctx.violation("the implementation %s in a pipeline run" % what,
                                  {"kind": "pipe", "case": case, "tail": [x[:300] for x in lines[-8:]], "stderr": (err or "")[-2500:], "how": how}, key=key)
                else:
                    ctx.violation("", None, key=key)
        for (key, msg, k) in vs[:3]:
            if ctx.has_violation(key):
                ctx.violation(msg, None, key=key)
                continue
            ctx.violation(msg, {"kind": "pipe", "case": rep, "line": lines[k][:400], "context": [x[:200] for x in lines[max(0, k - 6):k + 1]], "how": how}, key=key)
        if not vs:
            for p in packets:
                for (o, size, fid, c, w, h, pl, t, sp) in p[2]:
                    shapes.setdefault((c, w, h, pl, t, sp), set()).add(size)
        if ended and not vs:
            ctx.traces_validated += 1
    # sizes seen in packets vs the extracted model's frame_size of the header's own shape
    keys = sorted(shapes)
    if keys:
        q = ["img %d %d %d %d 1 %d %d %d %d" % (c, w, h, pl, c, c * w, sp, t) for (c, w, h, pl, t, sp) in keys]
        rc, mo, em = run_lines(orac, q)
        if len(mo) != len(q):
            ctx.broken_tie("model oracle failed on pipeline shapes", (em or "")[-300:])
        else:
            for kx, l in zip(keys, mo):
                fs = int(l.split("fs=")[1].split()[0])
                if shapes[kx] != {fs}:
                    ctx.broken_tie("model/implementation disagreement (pipe): size field of frames with shape (c,w,h,p,type,planes stride)",
                                   {"shape": kx, "model_frame_size": fs, "impl_size_fields": sorted(shapes[kx])})
    if cases and dnf > 0.2 * len(cases):
        ctx.broken_tie("more than 20% of the pipeline runs did not finish (deadlock / step limit / hang): the pipe tie is not exercised",
                       {"did_not_finish": dnf, "cases": len(cases)})


# ----------------------------------------------------------------------------------------------- the check
def load_corpus():
    cdir = os.path.join(vlib.VERIF, "corpus", "C05")
    res = {"fn": [], "ring": [], "pipe": []}
    if os.path.isdir(cdir):
        for fn in sorted(os.listdir(cdir)):
            ls = [l.rstrip("\n") for l in open(os.path.join(cdir, fn))]
            kind = "ring"
            for l in ls:
                m = re.match(r"#\s*kind\s*[:=]\s*(\w+)", l)
                if m:
                    kind = m.group(1)
            ops = [l.strip() for l in ls if l.strip() and not l.startswith("#")]
            if ops and kind in res:
                res[kind].append(ops)
    return res


def run(ctx):
    sync_ring_model(ctx)
    ctx.coq_prove(["Properties_C05"])
    orac, impl, pipe = build(ctx)
    thorough = ctx.tier == "thorough"
    if thorough and not getattr(ctx, "replay_file", None):
        # independent re-check of the compiled development (DESIGN 4): coqchk, with the axiom summary
        rc, o, e = vlib.sh(["coqchk", "-silent", "-o", "-Q", ".", "Ring", "Ring.Properties_C05"], cwd=ctx.coqdir, timeout=900)
        txt = o + e
        if rc != 0 or "* Axioms: <none>" not in txt:
            ctx.broken.append(("coqchk does not accept Properties_C05 without axioms", txt[-800:]))
        ctx.extra["coqchk"] = "coqchk -o Ring.Properties_C05: rc=%d, %s" % (rc, "Axioms: <none>" if "* Axioms: <none>" in txt else txt[-200:])
    how_l = ("feed `ops`, one per line, to .build/%s/h_layout (built by this check from %s; protocol at the top of "
             "fam/layout/harness/h_layout.c)" % (ctx.prop, vlib.REPO))
    how_p = ("feed `case`, one line each, to .build/%s/h_layout_pipe (built by this check from %s; protocol at the top of "
             "fam/layout/harness/h_layout_pipe.c)" % (ctx.prop, vlib.REPO))
    ctx.rule = (
        "fn: bytes_of_type for codes -3..12, 255, 65536, INT_MIN/MAX; bytes_of_image / frame size for packed shapes c in {1,3} x widths "
        "1..17,33,63..65,1920 x heights x every code (all residues mod 8) and for random strides up to 2^40; packets of 1..8 frames of mixed "
        "sizes (25%: sizes that are not multiples of 8) at aligned and unaligned offsets, frame_iterator from every start frame to every "
        "later boundary and to a point inside a frame, vfslice_split for every split position (break mask selecting each frame), no break, "
        "all break, small delay, null and empty slices. "
        "ring: single-writer histories (30..140 ops quick, ..260 thorough) of source-style frame writes of 1..4 shapes on the real channel.c, "
        "capacity = an exact sum of frame sizes (45%: nbytes = cap - head, exactly full, readers exactly at high), +8, not a multiple of 8, "
        "one frame, random; 1..3 readers joining at any time; reader 0 consumes like the sink (real vfslice_split under a scripted clock), "
        "the others like a client (0..3 frames or everything); commits, aborts, accept toggles. "
        "pipe: real source.c -> (filter.c ->) channel.c -> sink.c threads + a monitor client under one random schedule per case, 3..30 "
        "(thorough 60) frames of 1..6 scripted shapes (8% dropped frames), write delays 0..0.5 ms of the virtual clock (the sink spins while frames are younger), capacities as above. "
        "non-trivial = (fn) a packet of >= 2 frames; (ring) the writer wrapped, a slice of >= 2 frames was read and a reader consumed part "
        "of a slice; (pipe) the run ended, the ring wrapped and a packet of >= 2 frames was seen. distinct = case text")
    ctx.assumptions = [
        "the ring buffer is 8-byte aligned (allocator: memory_alloc/malloc gives 16); checked by the harness, assumed by the theorem",
        "sizes, offsets, strides are unbounded integers in the model: 64-bit wrap-around of planes stride x bytes per sample is not modelled "
        "(strides are exercised up to 2^40), negative strides are excluded",
        "a client consumes whole leading frames of its mapping or everything (DESIGN 6.5: a mid-frame count makes its next mapping start "
        "inside a frame; that case is excluded, see Example ex_mid_frame_consumption)",
        "one writer thread per channel (map, then commit or abort); at most 8 readers; no double map",
        "every header carries the size of its own write (source.c:87, filter.c:121): exercised on the real source.c/filter.c in the pipe "
        "tie, assumed (hdr_mem) by C05_packet_whole",
        "C05_shape_preserved (header shape = the camera's) is not a theorem of this family; the pipe oracle checks it on every packet",
        "the clock comparison of vfslice_split is an arbitrary predicate in the theorem; the ties drive it by a scripted clock (fn, ring) "
        "and by the scheduler's virtual clock (pipe)"]
    ctx.notes.append("coq/Chan*.v are bit-identical copies of fam/ring/coq (logical name Ring); check.py keeps them identical")
    ctx.notes.append("theorems are unbounded (all shapes, capacities, histories, clock predicates); the correspondence samples them")

    corpus = load_corpus()
    # ---- replay of a recorded violation:  tools/check.py --property C05 --replay replays/C05-n.json
    rf = getattr(ctx, "replay_file", None)
    if rf:
        obj = (json.load(open(rf)).get("replay") or {})
        corpus = {"fn": [], "ring": [], "pipe": []}
        if obj.get("kind") == "pipe" and obj.get("case"):
            corpus["pipe"].append(obj["case"])
        elif obj.get("ops"):
            corpus[obj.get("kind", "ring")].append(obj["ops"])
        else:
            ctx.broken_tie("replay file holds no case (it records a proof/tie that no longer checks, not a failing input)", rf)
            return
        for kind, ofn in (("fn", fn_oracle), ("ring", ring_oracle)):
            if corpus[kind]:
                eval_lines(ctx, orac, impl, [corpus[kind]], kind, ofn, how_l)
        eval_pipe(ctx, orac, pipe, corpus["pipe"], how_p)
        return

    nsh = vlib.NPROC * (3 if thorough else 1)
    # ---- fn
    nfn = 30000 if thorough else 1500
    fn_cases = list(corpus["fn"])
    tables = gen_fn_tables(ctx.rng, thorough)
    for k in range(0, len(tables), 400):
        fn_cases.append(tables[k:k + 400])
    ctx.count("fn:table-batches", len(fn_cases) - len(corpus["fn"]))
    for k in range(nfn):
        fn_cases.append(gen_fn_case(ctx.rng, k))
    ctx.count("fn:packets", nfn)
    eval_lines(ctx, orac, impl, [s for s in vlib.shard(fn_cases, nsh) if s], "fn", fn_oracle, how_l)

    # ---- ring
    nring = 60000 if thorough else 3600
    hist = [gen_ring_history(ctx.rng, thorough) for _ in range(nring)]
    fixed = vlib.parallel(lambda sh: fix_wellformed(orac, sh), [s for s in vlib.shard(hist, nsh) if s])
    if corpus["ring"]:
        fixed = [corpus["ring"]] + fixed
    eval_lines(ctx, orac, impl, fixed, "ring", ring_oracle, how_l)
    for sh in fixed[1:3]:
        for h in sh[:1]:
            ctx.sample({"kind": "ring", "ops": h[:30]})

    # ---- pipe
    npipe = 40000 if thorough else 2700
    pcases = list(corpus["pipe"]) + [gen_pipe_case(ctx.rng, thorough) for _ in range(npipe)]
    eval_pipe(ctx, orac, pipe, pcases, how_p)
    if len(pcases) > len(corpus["pipe"]):
        ctx.sample({"kind": "pipe", "case": pcases[len(corpus["pipe"])]})
