(* Properties_C05.v -- C05: every packet handed to a storage device or mapped by the monitoring client is a
   back-to-back sequence of whole frames: each header starts on an 8-byte boundary, its size field equals the
   header size plus the image bytes rounded up to a multiple of 8, and stepping by it lands exactly on the next
   header or on the packet end.  Statements only; proofs are in LayoutProofs / RingAlign / RingPackets /
   C05Theorems.  (The last clause of the property, "its shape is the one the camera reported",
   C05_shape_preserved, is a statement about the pipeline -- source.c copies info.shape into the header --
   and belongs to the pipeline family; it is not stated here.)

   Models: Layout.v (components.c, source.c/filter.c size computation, frame_iterator.c, vfslice.c, the
   sink's arithmetic), ChanModel.v + ChanGhost.v of the ring family (channel.c + log-index ghost state;
   bit-identical copies of fam/ring/coq), RingFrames.v (vocabulary joining the two).
   [grun (ginit c) ops = Some g]: g is reached from the empty channel of capacity c by the well-formed
   history ops (one writer mapping then committing or aborting, accept/refuse toggles, up to 8 readers
   joining at any time, any per-read consumed count); any c, any length. *)
From Coq Require Import ZArith List Bool Lia.
From Ring Require Import ChanModel ChanGhost ChanInv ChanLog ChanStream ChanTheorems.
From Ring Require Import Layout LayoutProofs RingFrames RingAlign RingPackets C05Theorems.
Import ListNotations.
Local Open Scope Z_scope.

(* ---------------------------------------------------------------------------------------------------------
   The size field.  For EVERY shape and sample-type code (known or not, any stride, so every residue of the
   image size modulo 8): the specified size is 96 + the image bytes rounded up to the next multiple of 8, it
   is a multiple of 8, it is what source.c maps and writes into bytes_of_frame, and what filter.c maps and
   writes for the f32 accumulator; "rounded up" is the least multiple of 8 not below the image size. *)
Theorem C05_size_field : forall sh,
  frame_size sh = 96 + align8 (bytes_of_image sh) /\ (8 | frame_size sh) /\
  source_nbytes sh = frame_size sh /\
  filter_nbytes sh = frame_size (with_type sh SampleType_f32) /\
  bytes_of_image sh <= align8 (bytes_of_image sh) < bytes_of_image sh + 8.
Proof. exact size_field. Qed.
Print Assumptions C05_size_field.

Theorem C05_align8_least : forall x y, (8 | y) -> x <= y -> align8 x <= y.
Proof. exact align8_least. Qed.
Print Assumptions C05_align8_least.

(* every write size of the histories below has this form, hence so has every size field of every packet *)
Theorem C05_frame_sizes : forall n, is_frame_size n ->
  exists sh, 0 <= bytes_of_image sh /\ n = 96 + align8 (bytes_of_image sh) /\ (8 | n) /\ 96 <= n.
Proof. exact is_frame_size_spec. Qed.
Print Assumptions C05_frame_sizes.

(* ---------------------------------------------------------------------------------------------------------
   Alignment.  Over the ring model, for every capacity and every well-formed history in which every write
   size is a multiple of 8 and every reader consumes a multiple of 8 or its whole slice ([al_op], checked in
   the state in which each operation runs): in the reached state g and after one more such operation o,
   head, high, mapped, every hold position and every mapping target are multiples of 8 ([aligned]); the
   region offset handed to the writer, the slice offset and the slice length handed to a reader are
   multiples of 8; and, the buffer itself being 8-aligned (ALLOCATOR ASSUMPTION: channel_new's
   memory_alloc returns an 8-aligned block -- malloc gives 16), so are the addresses.  Laps start at 0. *)
Theorem C05_offsets_aligned : forall c ops g o,
  grun (ginit c) ops = Some g -> hist_ok al_op (ginit c) ops -> al_op g o ->
  aligned g /\ aligned (fst (gstep g o)) /\
  (forall beg, snd (gstep g o) = ResW (WRegion beg) ->
     (8 | beg) /\ forall base, (8 | base) -> (8 | base + beg)) /\
  (forall rr, snd (gstep g o) = ResR rr ->
     (8 | roff rr) /\ (8 | rlen rr) /\
     forall base, (8 | base) -> (8 | base + roff rr) /\ (8 | base + roff rr + rlen rr)).
Proof. exact offsets_aligned. Qed.
Print Assumptions C05_offsets_aligned.

(* the same with a side condition that does not look at states: writes are multiples of 8, a reader consumes
   a multiple of 8 or at least the capacity (the sink's and the filter's "everything") *)
Theorem C05_offsets_aligned_static : forall c ops g o,
  0 < c -> grun (ginit c) ops = Some g -> Forall (al_op_static c) (ops ++ [o]) ->
  aligned g /\ aligned (fst (gstep g o)) /\
  (forall beg, snd (gstep g o) = ResW (WRegion beg) ->
     (8 | beg) /\ forall base, (8 | base) -> (8 | base + beg)) /\
  (forall rr, snd (gstep g o) = ResR rr ->
     (8 | roff rr) /\ (8 | rlen rr) /\
     forall base, (8 | base) -> (8 | base + roff rr) /\ (8 | base + roff rr + rlen rr)).
Proof. exact offsets_aligned_static. Qed.
Print Assumptions C05_offsets_aligned_static.

(* ---------------------------------------------------------------------------------------------------------
   Split and iterate (pure layout).  On any memory that holds the whole frames fs (sizes > 0) back to back
   from the non-null address b, for ANY clock predicate brk on timestamps and either branch of the delay
   test: vfslice_split_at_delay_ms returns (p, end) with p reached from b by j whole-frame steps -- the
   header of the first frame the clock comparison selects, or the end; the sink appends [b,p) and consumes
   p-b = the size of those j frames; iterating [b,p) or the whole slice visits exactly the headers and the
   last step lands exactly on the end.  (Fuel: number of frames + 1; [Some] = the C loops terminate.) *)
Theorem C05_split_boundary : forall m ts (brk : Z -> bool) small fs b,
  0 < b -> all_pos fs -> holds_packet m b fs ->
  (exists j, (j <= length fs)%nat /\
     split (S (length fs)) m ts brk small b (b + total fs) = Some (b + total (firstn j fs), b + total fs) /\
     (small = false -> (forall i, (i < j)%nat -> brk (ts (nth i (offsets b fs) 0)) = false) /\
                       ((j < length fs)%nat -> brk (ts (b + total (firstn j fs))) = true)) /\
     (small = true -> j = length fs) /\
     sink_step (S (length fs)) m ts brk small b (b + total fs)
       = Some (b, b + total (firstn j fs), total (firstn j fs)) /\
     holds_packet m b (firstn j fs) /\
     iter_all (S (length (firstn j fs))) m (mkIt b (b + total (firstn j fs)))
       = (offsets b (firstn j fs), Some (b + total (firstn j fs)))) /\
  iter_all (S (length fs)) m (mkIt b (b + total fs)) = (offsets b fs, Some (b + total fs)).
Proof. exact split_and_iterate. Qed.
Print Assumptions C05_split_boundary.

(* writing headers back to back makes the memory hold the packet (so the hypothesis above is satisfiable
   for every list of positive sizes) *)
Theorem C05_store_holds : forall m b fs, all_pos fs -> holds_packet (store_packet m b fs) b fs.
Proof. exact store_packet_holds. Qed.
Print Assumptions C05_store_holds.

(* ---------------------------------------------------------------------------------------------------------
   Packets are whole.  Histories: every write size is the size field of some shape ([frame_write]: what
   source.c and filter.c map), and every reader consumes either its whole slice or a count that ends on a
   write boundary of the log ([whole_unmap]; by the last conjunct below this says exactly: the sizes of
   leading frames of its slice).  The sink always does (conjunct on sink_step, for any clock), the filter
   consumes everything; for the monitoring client it is the hypothesis (DESIGN 6.5 "Partial").
   Then every non-empty slice [roff, roff+rlen) handed to reader i is the concatenation of the whole
   committed frames fs that follow its cursor in the log ([chain] over the write boundaries, each size a
   frame size, ring cells = consecutive log bytes), and -- every header carrying the size of its write
   ([hdr_mem], the model of source.c:87 / filter.c:121) -- the iterator started at the slice begin visits
   exactly the headers of fs and its last step lands exactly on the slice end; after wraps, for mixed
   sizes, any number of readers. *)
Theorem C05_packet_whole : forall c ops g i g' rr,
  0 < c -> grun (ginit c) ops = Some g -> hist_ok frame_hist_op (ginit c) ops ->
  wf_op g (OReadMap i) -> gstep g (OReadMap i) = (g', ResR rr) -> 0 < rlen rr ->
  exists r' fs,
    nth_error (rds (cs g')) i = Some r' /\ rmapped r' = true /\ hpos r' = roff rr /\
    0 <= roff rr /\ roff rr + rlen rr <= cap (cs g') /\
    fs <> [] /\ Forall is_frame_size fs /\
    In (idx g' r') (bounds g') /\ chain (bounds g') (idx g' r') fs /\ total fs = rlen rr /\
    (forall j, 0 <= j < rlen rr -> cell g' (roff rr + j) = Some (idx g' r' + j)) /\
    (forall base, 0 < base ->
       holds_packet (hdr_mem g' base) (base + roff rr) fs /\
       iter_all (S (length fs)) (hdr_mem g' base) (mkIt (base + roff rr) (base + roff rr + rlen rr))
         = (offsets (base + roff rr) fs, Some (base + roff rr + rlen rr)) /\
       forall ts brk small, exists j, (j <= length fs)%nat /\
         sink_step (S (length fs)) (hdr_mem g' base) ts brk small (base + roff rr) (base + roff rr + rlen rr)
           = Some (base + roff rr, base + roff rr + total (firstn j fs), total (firstn j fs)) /\
         whole_unmap g' (OReadUnmap i (total (firstn j fs)))) /\
    (forall k, 0 <= k ->
       (whole_unmap g' (OReadUnmap i k) <->
        (rlen rr <= k \/ exists j, (j <= length fs)%nat /\ k = total (firstn j fs)))).
Proof. exact packet_whole. Qed.
Print Assumptions C05_packet_whole.

(* a count that is whole when the slice is mapped is still whole when the reader unmaps, whatever the writer
   and the other readers do in between (so the sink's count satisfies the hypothesis on histories) *)
Theorem C05_sink_count_stays_whole : forall c ops1 ops2 g1 g2 i k r,
  0 < c -> grun (ginit c) ops1 = Some g1 -> grun g1 ops2 = Some g2 -> Forall (not_by i) ops2 ->
  nth_error (rds (cs g1)) i = Some r -> rmapped r = true ->
  whole_unmap g1 (OReadUnmap i k) -> whole_unmap g2 (OReadUnmap i k).
Proof. exact sink_count_stays_whole. Qed.
Print Assumptions C05_sink_count_stays_whole.

(* the packet a reader mapped in g1 (frames fs from its cursor) is still in the ring, header by header, in every
   later state g2 reached while the reader keeps the slice mapped: it is whole when storage_append / the client
   actually walk it, not only at the instant of the mapping *)
Theorem C05_packet_stays_whole : forall c ops1 ops2 g1 g2 i r fs base,
  0 < c -> grun (ginit c) ops1 = Some g1 -> hist_ok frame_hist_op (ginit c) ops1 ->
  grun g1 ops2 = Some g2 -> hist_ok frame_hist_op g1 ops2 -> Forall (not_by i) ops2 ->
  nth_error (rds (cs g1)) i = Some r -> rmapped r = true ->
  chain (bounds g1) (idx g1 r) fs -> total fs = avail r (high (cs g1)) ->
  holds_packet (hdr_mem g2 base) (base + hpos r) fs /\
  exists r', nth_error (rds (cs g2)) i = Some r' /\ rmapped r' = true /\ hpos r' = hpos r /\
    avail r' (high (cs g2)) = avail r (high (cs g1)).
Proof. exact packet_stays_whole. Qed.
Print Assumptions C05_packet_stays_whole.

(* in every reachable state every reader's cursor, and the end of every mapped slice, is a write boundary *)
Theorem C05_holds_on_frame_boundaries : forall c ops g j r,
  0 < c -> grun (ginit c) ops = Some g -> hist_ok frame_hist_op (ginit c) ops ->
  nth_error (rds (cs g)) j = Some r ->
  In (idx g r) (bounds g) /\ (rmapped r = true -> In (idx g r + avail r (high (cs g))) (bounds g)).
Proof. exact holds_on_frame_boundaries. Qed.
Print Assumptions C05_holds_on_frame_boundaries.

(* ========================================================================================================
   Non-vacuity and sanity (tests, not theorems). *)

(* bytes_of_type for every code of components.h and for codes outside it *)
Example ex_bytes_of_type :
  map bytes_of_type [0; 1; 2; 3; 4; 5; 6; 7; 8; 9; 10; 255; -1] = [1; 2; 1; 2; 4; 2; 2; 2; 0; 0; 0; 0; 0].
Proof. vm_compute. reflexivity. Qed.

(* every residue of the image size modulo 8 (u8, widths 1..9; the test suite's 33x47 u8; a u16 and an f32 one) *)
Example ex_frame_sizes :
  map (fun w => frame_size (packed 1 w 1 1 0)) [1; 2; 3; 4; 5; 6; 7; 8; 9] = [104; 104; 104; 104; 104; 104; 104; 104; 112] /\
  frame_size (packed 1 33 47 1 0) = 96 + 1552 /\ bytes_of_image (packed 1 33 47 1 0) = 1551 /\
  frame_size (packed 1 33 47 1 1) = 96 + 3104 /\ filter_nbytes (packed 1 33 47 1 0) = 96 + 6208 /\
  frame_size (packed 1 33 47 1 12) = 96.
Proof. vm_compute. repeat split. Qed.

(* a capacity-320 ring, a sink (reader 0) that consumes one frame of a two-frame slice, a client (reader 1),
   mixed sizes 104/112, a write that lands exactly on the capacity (nbytes = cap - head), a wrap *)
Definition ex_ops : list op :=
  [OReadMap 0%nat; OReadMap 1%nat;
   OWriteMap 104; OCommit; OWriteMap 112; OCommit;
   OReadMap 0%nat; OReadUnmap 0%nat 104;
   OReadMap 1%nat; OReadUnmap 1%nat 320;
   OReadMap 0%nat; OReadUnmap 0%nat 112;
   OWriteMap 104; OCommit;
   OWriteMap 112; OCommit].

(* the hypotheses of C05_packet_whole and C05_offsets_aligned hold of it (boolean checkers, proved sound) *)
Example ex_hist_ok : hist_ok frame_hist_op (ginit 320) ex_ops.
Proof. apply (frame_histb_sound [packed 1 3 1 1 0; packed 1 5 1 1 1]). vm_compute. reflexivity. Qed.

Example ex_hist_al : hist_ok al_op (ginit 320) ex_ops.
Proof. apply al_histb_sound. vm_compute. reflexivity. Qed.

(* the state reached: the writer has wrapped (lap 1, head 112, high 320), the sink's hold is at 216 in lap 0;
   its next read is the one-frame packet [216,320) at the end of the old lap; C05_packet_whole applies *)
Example ex_reached :
  match grun (ginit 320) ex_ops with
  | Some g =>
      cyc (cs g) = 1 /\ head (cs g) = 112 /\ high (cs g) = 320 /\ bounds g = [432; 320; 216; 104; 0] /\
      wf_opb g (OReadMap 0%nat) = true /\
      let g' := fst (gstep g (OReadMap 0%nat)) in
      snd (gstep g (OReadMap 0%nat)) = ResR (mkRres 216 104 false) /\
      hdr_mem g' 4096 (4096 + 216) = 104 /\
      iter_all 2 (hdr_mem g' 4096) (mkIt (4096 + 216) (4096 + 320)) = ([4312], Some 4416)
  | None => False
  end.
Proof. vm_compute. repeat split. Qed.

(* the two-frame packet [0,216) the sink maps first: the iterator visits 0+base and 104+base and lands on 216+base;
   a clock that selects the second frame makes the sink append one frame and consume 104 *)
Example ex_two_frames :
  match grun (ginit 320) (firstn 6 ex_ops) with
  | Some g =>
      let g' := fst (gstep g (OReadMap 0%nat)) in
      snd (gstep g (OReadMap 0%nat)) = ResR (mkRres 0 216 false) /\
      iter_all 3 (hdr_mem g' 4096) (mkIt 4096 (4096 + 216)) = ([4096; 4200], Some 4312) /\
      sink_step 3 (hdr_mem g' 4096) (fun a => a) (fun t => 4200 <=? t) false 4096 (4096 + 216) = Some (4096, 4200, 104) /\
      sink_step 3 (hdr_mem g' 4096) (fun a => a) (fun t => false) false 4096 (4096 + 216) = Some (4096, 4312, 216) /\
      sink_step 3 (hdr_mem g' 4096) (fun a => a) (fun t => false) true 4096 (4096 + 216) = Some (4096, 4312, 216)
  | None => False
  end.
Proof. vm_compute. repeat split. Qed.

(* a client that consumes a count that is NOT a frame boundary leaves the model's next packet starting inside a
   frame: the hypothesis of C05_packet_whole is necessary (excluded case, DESIGN 6.5 "Partial") *)
Example ex_mid_frame_consumption :
  match grun (ginit 320) [OReadMap 0%nat; OWriteMap 104; OCommit; OWriteMap 112; OCommit; OReadMap 0%nat; OReadUnmap 0%nat 8] with
  | Some g => snd (gstep g (OReadMap 0%nat)) = ResR (mkRres 8 208 false) /\ field (fst (gstep g (OReadMap 0%nat))) 8 = None
  | None => False
  end.
Proof. vm_compute. repeat split. Qed.
