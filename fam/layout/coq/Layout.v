(* Layout.v -- executable model of the frame layout code of acquire-common (DESIGN 6.5, property C05).
   NO proofs in this file (it must extract when a proof breaks).

   Modelled, statement by statement:
     components.h   struct ImageShape / struct VideoFrame   (sizeof(struct VideoFrame) = 96 = [hdr])
     components.c   bytes_of_type, bytes_of_image
     source.c:61-64 size of the region the source maps and writes into VideoFrame.bytes_of_frame
     filter.c:110-115 size of the accumulator frame
     frame_iterator.c  frame_iterator_next
     vfslice.c      vfslice_split_at_delay_ms (the clock comparison is a parameter: any predicate on timestamps)
     sink.c:63-70,76-79  the range handed to storage_append and the byte count given to channel_read_unmap

   Numbers are unbounded Z (64-bit wrap-around of size_t is not modelled); pointers are addresses in Z,
   0 is the null pointer.  Memory is seen through two functions: [m a] = the bytes_of_frame field of a
   header at address a, [ts a] = its timestamps.acq_thread field. *)
From Coq Require Import ZArith List Bool.
Import ListNotations.
Local Open Scope Z_scope.

(* ------------------------------------------------------------------ components.h / components.c *)
Definition hdr : Z := 96.                     (* sizeof(struct VideoFrame); checked by the harness *)

Definition align8 (x : Z) : Z := 8 * ((x + 7) / 8).

(* enum SampleType: u8 u16 i8 i16 f32 u10 u12 u14, SampleTypeCount = 8, SampleType_Unknown = 9 *)
Definition type_table : list Z := [1; 2; 1; 2; 4; 2; 2; 2].
Definition SampleType_f32 : Z := 4.

(* size_t bytes_of_type(enum SampleType type): the enum is unsigned, so a negative int is a huge
   unsigned value; `if (type >= countof(table)) return 0; return table[type];` *)
Definition bytes_of_type (t : Z) : Z :=
  if (t <? 0) || (Z.of_nat (length type_table) <=? t) then 0
  else nth (Z.to_nat t) type_table 0.

Record shape := mkShape {
  d_channels : Z; d_width : Z; d_height : Z; d_planes : Z;     (* dims    (uint32_t) *)
  s_channels : Z; s_width : Z; s_height : Z; s_planes : Z;     (* strides (int64_t)  *)
  stype : Z                                                    (* enum SampleType    *)
}.

(* size_t bytes_of_image(const struct ImageShape * sh): shape->strides.planes * bytes_of_type(shape->type) *)
Definition bytes_of_image (sh : shape) : Z := s_planes sh * bytes_of_type (stype sh).

(* the size field every frame is specified to carry *)
Definition frame_size (sh : shape) : Z := align8 (hdr + bytes_of_image sh).

(* source.c:  sz = bytes_of_image(&info.shape); nbytes = sizeof(struct VideoFrame) + sz;
              nbytes_aligned = 8*((nbytes+7)/8);  -- mapped size AND .bytes_of_frame *)
Definition source_nbytes (sh : shape) : Z :=
  let sz := bytes_of_image sh in
  let nbytes := hdr + sz in
  8 * ((nbytes + 7) / 8).

Definition with_type (sh : shape) (t : Z) : shape :=
  mkShape (d_channels sh) (d_width sh) (d_height sh) (d_planes sh)
          (s_channels sh) (s_width sh) (s_height sh) (s_planes sh) t.

(* filter.c:  shape = in->shape; shape.type = SampleType_f32;
              nbytes = bytes_of_image(&shape) + sizeof(struct VideoFrame);
              bytes_of_accumulator = 8*((nbytes+7)/8);  -- mapped size AND .bytes_of_frame *)
Definition filter_nbytes (sh : shape) : Z :=
  let shape := with_type sh SampleType_f32 in
  let nbytes := bytes_of_image shape + hdr in
  8 * ((nbytes + 7) / 8).

(* strides as the simulated cameras compute them (compute_strides): 1, c, c*w, c*w*h *)
Definition packed (c w h p t : Z) : shape := mkShape c w h p 1 c (c * w) (c * w * h) t.

(* ------------------------------------------------------------------ packets *)
(* a packet = the size fields of its frames, laid out back to back from a start address *)
Fixpoint total (sizes : list Z) : Z :=
  match sizes with [] => 0 | n :: l => n + total l end.

Fixpoint offsets (beg : Z) (sizes : list Z) : list Z :=
  match sizes with [] => [] | n :: l => beg :: offsets (beg + n) l end.

Definition put (m : Z -> Z) (a v : Z) : Z -> Z := fun x => if x =? a then v else m x.

(* memory after the headers of a packet were written from [beg] on *)
Fixpoint store_packet (m : Z -> Z) (beg : Z) (sizes : list Z) : Z -> Z :=
  match sizes with [] => m | n :: l => store_packet (put m beg n) (beg + n) l end.

(* ------------------------------------------------------------------ frame_iterator.c *)
Record iter := mkIt { ibeg : Z; iend : Z }.     (* struct frame_iterator { struct slice remaining; } *)

(* struct VideoFrame* frame_iterator_next(struct frame_iterator* it) *)
Definition iter_next (m : Z -> Z) (s : iter) : iter * option Z :=
  if (ibeg s =? 0) || (iend s <=? ibeg s) then (mkIt 0 0, None)
  else (mkIt (ibeg s + m (ibeg s)) (iend s), Some (ibeg s)).

(* while ((f = frame_iterator_next(&it))) visit(f);
   result: the frames visited, and [Some b] when the loop ended, b = remaining.beg at the call that
   returned 0 (before it is reset); None = fuel exhausted (the C would still be looping). *)
Fixpoint iter_all (fuel : nat) (m : Z -> Z) (s : iter) : list Z * option Z :=
  match fuel with
  | O => ([], None)
  | S f =>
      match iter_next m s with
      | (_, None) => ([], Some (ibeg s))
      | (s', Some a) => let (l, e) := iter_all f m s' in (a :: l, e)
      end
  end.

(* ------------------------------------------------------------------ vfslice.c *)
(* for (cur = slice->beg; cur < slice->end; cur = offsetby(cur, cur->bytes_of_frame))
       if (clock_cmp(&now, cur->timestamps.acq_thread) > 0) break;                       *)
Fixpoint split_loop (fuel : nat) (m ts : Z -> Z) (brk : Z -> bool) (cur e : Z) : option Z :=
  match fuel with
  | O => None
  | S f =>
      if cur <? e then
        if brk (ts cur) then Some cur
        else split_loop f m ts brk (cur + m cur) e
      else Some cur
  end.

(* struct vfslice vfslice_split_at_delay_ms(const struct vfslice* slice, float delay_ms)
   [small] = (delay_ms < 1.0e-3f), [brk t] = (clock_cmp(&now, t) > 0) *)
Definition split (fuel : nat) (m ts : Z -> Z) (brk : Z -> bool) (small : bool) (b e : Z) : option (Z * Z) :=
  if e <=? b then Some (b, e)
  else if small then Some (e, e)
  else match split_loop fuel m ts brk b e with
       | Some cur => Some (cur, e)
       | None => None
       end.

(* ------------------------------------------------------------------ sink.c *)
(* one pass of the sink's inner loop over the slice [b,e):
   (first, last) of storage_append(storage, slice.beg, remaining.beg) and the count given to
   channel_read_unmap, (uint8_t* )remaining.beg - (uint8_t* )slice.beg *)
Definition sink_step (fuel : nat) (m ts : Z -> Z) (brk : Z -> bool) (small : bool) (b e : Z)
  : option (Z * Z * Z) :=
  match split fuel m ts brk small b e with
  | Some (rb, _) => Some (b, rb, rb - b)
  | None => None
  end.

(* the flush loop: storage_append(storage, slice.beg, slice.end); unmap(slice.end - slice.beg) *)
Definition sink_flush (b e : Z) : Z * Z * Z := (b, e, e - b).
