(* ChanGhost.v -- ghost state the properties talk about and channel.c does not store (DESIGN 5.1).
   The committed stream is identified with log indices 0,1,2,...; [cell o] says which committed byte
   currently occupies ring offset o (None: never written, or scribbled by a mapped/aborted write).
   The concrete component of a ghost step is literally ChanModel.step. *)
From Coq Require Import ZArith List Bool.
From Ring Require Import ChanModel.
Import ListNotations.
Local Open Scope Z_scope.

Record gst := mkG {
  cs : chan;
  pend : bool;               (* a write region is mapped and neither committed nor aborted *)
  loglen : Z;                (* number of committed bytes so far *)
  cell : Z -> option Z;      (* ring offset -> log index of the byte stored there *)
  bounds : list Z            (* write boundaries: 0 and the log length after every commit *)
}.

Definition ginit (capacity : Z) : gst := mkG (init capacity) false 0 (fun _ => None) [0].

Definition fill (f : Z -> option Z) (beg n : Z) (v : Z -> option Z) : Z -> option Z :=
  fun o => if (beg <=? o) && (o <? beg + n) then v o else f o.

(* The writer may write into a mapped region at any time: the model scribbles it at once. *)
Definition gstep (g : gst) (o : op) : gst * res :=
  let (s', r) := step (cs g) o in
  match o with
  | OWriteMap n =>
      match r with
      | ResW (WRegion beg) => (mkG s' true (loglen g) (fill (cell g) beg n (fun _ => None)) (bounds g), r)
      | _ => (mkG s' (pend g) (loglen g) (cell g) (bounds g), r)
      end
  | OCommit =>
      if pend g && accepting (cs g) then
        let beg := head (cs g) in
        let n := mapped (cs g) - beg in
        (mkG s' false (loglen g + n)
             (fill (cell g) beg n (fun o => Some (loglen g + (o - beg))))
             ((loglen g + n) :: bounds g), r)
      else (mkG s' false (loglen g) (cell g) (bounds g), r)
  | OAbort => (mkG s' false (loglen g) (cell g) (bounds g), r)
  | _ => (mkG s' (pend g) (loglen g) (cell g) (bounds g), r)
  end.

(* Histories the property quantifies over: one writer that maps, then commits or aborts;
   readers numbered in join order, at most 8; a reader maps only when it is not mapped
   (the double-map path belongs to C06). *)
Definition wf_op (g : gst) (o : op) : Prop :=
  match o with
  | OWriteMap n => pend g = false /\ 0 <= n
  | OCommit | OAbort => pend g = true
  | OAccept _ => True
  | OReadMap i => (i <= length (rds (cs g)))%nat /\ (i < 8)%nat /\
                  (forall r, nth_error (rds (cs g)) i = Some r -> rmapped r = false)
  | OReadUnmap i k => 0 <= k
  end.

Definition wf_opb (g : gst) (o : op) : bool :=
  match o with
  | OWriteMap n => negb (pend g) && (0 <=? n)
  | OCommit | OAbort => pend g
  | OAccept _ => true
  | OReadMap i => (i <=? length (rds (cs g)))%nat && (i <? 8)%nat &&
                  match nth_error (rds (cs g)) i with Some r => negb (rmapped r) | None => true end
  | OReadUnmap i k => 0 <=? k
  end.

(* run a history; None as soon as an operation is not well-formed at its point *)
Fixpoint grun (g : gst) (ops : list op) : option gst :=
  match ops with
  | [] => Some g
  | o :: ops' => if wf_opb g o then grun (fst (gstep g o)) ops' else None
  end.

(* log index of the byte at a reader's hold position (derived, not stored) *)
Definition idx (g : gst) (r : rd) : Z :=
  if hcyc r =? cyc (cs g)
  then loglen g - head (cs g) + hpos r
  else loglen g - head (cs g) - high (cs g) + hpos r.

(* ring offset o holds a committed byte that reader r has not consumed yet *)
Definition unread (g : gst) (r : rd) (o : Z) : Prop :=
  if hcyc r =? cyc (cs g)
  then hpos r <= o < head (cs g)
  else (hpos r <= o < high (cs g)) \/ (0 <= o < head (cs g)).
