(* ChanInv.v -- the ring invariant (DESIGN 5.1) and its preservation by every well-formed operation. *)
From Coq Require Import ZArith List Bool Lia.
From Ring Require Import ChanModel ChanGhost.
Import ListNotations.
Local Open Scope Z_scope.

(* ------------------------------------------------------------------ the invariant *)

(* a hold is in the writer's lap (first disjunct) or in the previous one *)
Definition hold_ok (hd hi cy mp : Z) (pd : bool) (ll : Z) (cl : Z -> option Z) (r : rd) : Prop :=
  (hcyc r = cy /\ 0 <= hpos r <= hd) \/
  (hcyc r = cy - 1 /\ hd <= hpos r <= hi /\ (pd = true -> mp <= hpos r) /\
   forall o, hpos r <= o < hi -> cl o = Some (ll - hd - hi + o)).

(* a mapped reader's target cursor: (A) inside the lap of its hold, (B) the start of the next lap *)
Definition map_ok (hd hi cy : Z) (r : rd) : Prop :=
  rmapped r = true ->
  (rcyc r = hcyc r /\ hpos r < rpos r /\ (hcyc r = cy -> rpos r <= hd) /\ (hcyc r = cy - 1 -> rpos r <= hi)) \/
  (rcyc r = hcyc r + 1 /\ rpos r = 0 /\ hcyc r = cy - 1 /\ hpos r < hi).

Definition rd_ok (g : gst) (r : rd) : Prop :=
  let s := cs g in
  hold_ok (head s) (high s) (cyc s) (mapped s) (pend g) (loglen g) (cell g) r /\
  map_ok (head s) (high s) (cyc s) r /\ rstatus r = 0.

Record Inv (g : gst) : Prop := mkInv {
  i_cap : 0 < cap (cs g);
  i_head : 0 <= head (cs g) <= cap (cs g);
  i_high : 0 <= high (cs g) <= cap (cs g);
  i_pend : pend g = true -> head (cs g) <= mapped (cs g) <= cap (cs g);
  i_cur : forall o, 0 <= o < head (cs g) -> cell g o = Some (loglen g - head (cs g) + o);
  i_rds : Forall (rd_ok g) (rds (cs g));
  i_len : (length (rds (cs g)) <= 8)%nat;
  i_lap : 0 <= loglen g - head (cs g);
  i_bnd : In (loglen g) (bounds g) /\ In (loglen g - head (cs g)) (bounds g)
}.

(* ------------------------------------------------------------------ list facts *)
Lemma upd_length l i f : length (upd l i f) = length l.
Proof. revert i; induction l as [|r l IH]; intros [|i]; simpl; auto. Qed.

Lemma nth_upd_same l i f r : nth_error l i = Some r -> nth_error (upd l i f) i = Some (f r).
Proof. revert i; induction l as [|a l IH]; intros [|i]; simpl; intros H; try discriminate.
  - inversion H; reflexivity.
  - apply IH; exact H. Qed.

Lemma nth_upd_other l i j f : i <> j -> nth_error (upd l i f) j = nth_error l j.
Proof. revert i j; induction l as [|a l IH]; intros [|i] [|j] H; simpl; auto; try congruence. Qed.

Lemma Forall_upd (P : rd -> Prop) l i f :
  Forall P l -> (forall r, nth_error l i = Some r -> P r -> P (f r)) -> Forall P (upd l i f).
Proof. revert i; induction l as [|a l IH]; intros [|i] H Hf; simpl; auto.
  - inversion H; subst. constructor; auto.
  - inversion H; subst. constructor; auto. Qed.

Lemma Forall_nth (P : rd -> Prop) l i r : Forall P l -> nth_error l i = Some r -> P r.
Proof. intros H Hn. rewrite Forall_forall in H. apply H. eapply nth_error_In; eauto. Qed.

(* ------------------------------------------------------------------ reader_min *)
Definition le_lex (a b : rd) : Prop := hcyc a < hcyc b \/ (hcyc a = hcyc b /\ hpos a <= hpos b).

Lemma le_lex_refl a : le_lex a a.
Proof. right; lia. Qed.

Lemma le_lex_trans a b c : le_lex a b -> le_lex b c -> le_lex a c.
Proof. unfold le_lex; lia. Qed.

Lemma cursor_cmp_1 ca pa cb pb :
  (cursor_cmp ca pa cb pb =? 1) = true <-> (cb < ca \/ (ca = cb /\ pb < pa)).
Proof. unfold cursor_cmp.
  destruct (Z.ltb_spec ca cb); [simpl; split; [discriminate|lia]|].
  destruct (Z.ltb_spec cb ca); [simpl; split; [lia|reflexivity]|].
  destruct (Z.ltb_spec pa pb); [simpl; split; [discriminate|lia]|].
  destruct (Z.ltb_spec pb pa); simpl; split; try discriminate; try lia; reflexivity. Qed.

Lemma reader_min_spec l : forall mn,
  let m := reader_min mn l in
  In m (mn :: l) /\ le_lex m mn /\ forall r, In r l -> le_lex m r.
Proof. induction l as [|r l IH]; intros mn; simpl.
  - split; [left; reflexivity|]. split; [apply le_lex_refl|]. intros r [].
  - destruct (cursor_cmp (hcyc mn) (hpos mn) (hcyc r) (hpos r) =? 1) eqn:E.
    + apply cursor_cmp_1 in E. destruct (IH r) as (Hin & Hle & Hall).
      split; [right; exact Hin|]. split.
      * eapply le_lex_trans; [exact Hle|]. unfold le_lex; lia.
      * intros x [<-|Hx]; [exact Hle | apply Hall; exact Hx].
    + assert (E' : ~ (hcyc r < hcyc mn \/ (hcyc mn = hcyc r /\ hpos r < hpos mn))).
      { intros C. apply cursor_cmp_1 in C. congruence. }
      destruct (IH mn) as (Hin & Hle & Hall).
      split; [destruct Hin as [Hin|Hin]; [left; exact Hin | right; right; exact Hin]|].
      split; [exact Hle|].
      intros x [<-|Hx]; [|apply Hall; exact Hx].
      eapply le_lex_trans; [exact Hle|]. unfold le_lex; lia. Qed.

(* ------------------------------------------------------------------ channel_write_map, characterised *)
Lemma inv_rd g r : Inv g -> In r (rds (cs g)) -> rd_ok g r.
Proof. intros I H. pose proof (i_rds g I) as F. rewrite Forall_forall in F. auto. Qed.

Lemma rd_lap g r : Inv g -> In r (rds (cs g)) ->
  (hcyc r = cyc (cs g) /\ 0 <= hpos r <= head (cs g)) \/
  (hcyc r = cyc (cs g) - 1 /\ head (cs g) <= hpos r <= high (cs g)).
Proof. intros I H. destruct (inv_rd g r I H) as ([H1|H1] & _); [left|right]; tauto. Qed.

Lemma rd_unmapped_at_head g r : Inv g -> In r (rds (cs g)) ->
  hcyc r = cyc (cs g) -> hpos r = head (cs g) -> rmapped r = false.
Proof. intros I H Hc Hp. destruct (inv_rd g r I H) as (_ & M & _).
  destruct (rmapped r) eqn:E; [|reflexivity]. exfalso.
  destruct (M E) as [(?&?&?&?)|(?&?&?&?)]; lia. Qed.

Lemma write_map_cases g n s' beg :
  Inv g -> 0 <= n -> write_map (cs g) n = (s', WRegion beg) ->
  let s := cs g in
  n < cap s /\
  ( (s' = set_mapped s (head s + n) /\ beg = head s /\ head s + n <= cap s /\
       forall r, In r (rds s) -> hcyc r = cyc s - 1 -> head s + n <= hpos r)
  \/ (s' = set_mapped (wrap_to s 0) n /\ beg = 0 /\ 0 < head s /\
       forall r, In r (rds s) -> hcyc r = cyc s /\ n <= hpos r)
  \/ (s' = set_mapped (reset_holds (wrap_to s 0)) n /\ beg = 0 /\ 0 < head s /\
       forall r, In r (rds s) -> hcyc r = cyc s /\ hpos r = head s /\ rmapped r = false) ).
Proof.
  intros I Hn. unfold write_map.
  pose proof (i_head g I) as Hh. pose proof (i_high g I) as Hhi.
  destruct (Z.leb_spec (cap (cs g)) n) as [|Hcap]; [discriminate|].
  destruct (rds (cs g)) as [|r0 rest] eqn:Hr.
  - (* no registered reader *)
    destruct (Z.leb_spec (cap (cs g)) (head (cs g) + n)) as [Hw|Hw]; intros E; inversion E; subst; clear E.
    + split; [lia|]. right; left. split; [reflexivity|]. split; [reflexivity|]. split; [lia|].
      intros r [].
    + split; [lia|]. left. split; [reflexivity|]. split; [reflexivity|]. split; [lia|].
      intros r [].
  - destruct (accepting (cs g)) eqn:Ha; simpl; [|discriminate].
    unfold next_write. rewrite Ha, Hr. simpl.
    pose proof (reader_min_spec rest r0) as (Hin & Hle0 & Hall).
    set (m := reader_min r0 rest) in *.
    assert (Hconv : forall r, In r (r0 :: rest) -> In r (rds (cs g))) by (rewrite Hr; auto).
    assert (Hle : forall r, In r (r0 :: rest) -> le_lex m r).
    { intros r [<-|Hx]; auto. }
    pose proof (rd_lap g m I (Hconv m Hin)) as Lm.
    destruct (Z.ltb_spec (head (cs g)) (hpos m)) as [H1|H1].
    { (* case 1: free space up to the slowest reader of the previous lap *)
      destruct (Z.leb_spec n (hpos m - head (cs g))) as [H2|H2]; [|discriminate].
      rewrite Z.eqb_refl. intros E; inversion E; subst; clear E. split; [lia|]. left.
      split; [reflexivity|]. split; [reflexivity|]. split; [lia|].
      intros r Hr' Hc. pose proof (Hle r Hr') as L. unfold le_lex in L. lia. }
    destruct ((hpos m =? head (cs g)) && (cyc (cs g) =? hcyc m + 1)) eqn:H2; [discriminate|].
    assert (Hcur : forall r, In r (r0 :: rest) -> hcyc r = cyc (cs g)).
    { intros r Hr'. pose proof (Hle r Hr') as L. pose proof (rd_lap g r I (Hconv r Hr')) as Lr.
      apply andb_false_iff in H2. unfold le_lex in L.
      destruct H2 as [H2|H2]; [apply Z.eqb_neq in H2 | apply Z.eqb_neq in H2]; lia. }
    destruct (Z.leb_spec n (cap (cs g) - head (cs g))) as [H3|H3].
    { rewrite Z.eqb_refl. intros E; inversion E; subst; clear E. split; [lia|]. left.
      split; [reflexivity|]. split; [reflexivity|]. split; [lia|].
      intros r Hr' Hc. pose proof (Hcur r Hr'). lia. }
    assert (Hne : (0 =? head (cs g)) = false) by (apply Z.eqb_neq; lia).
    destruct (Z.leb_spec n (hpos m)) as [H4|H4].
    { rewrite Hne. intros E; inversion E; subst; clear E. split; [lia|]. right; left.
      split; [reflexivity|]. split; [reflexivity|]. split; [lia|].
      intros r Hr'. pose proof (Hcur r Hr') as C. pose proof (Hle r Hr') as L. unfold le_lex in L.
      pose proof (Hcur m Hin). lia. }
    destruct (Z.eqb_spec (hpos m) (head (cs g))) as [H5|H5]; [|discriminate].
    destruct (Z.ltb_spec n (cap (cs g))) as [H6|H6]; [|discriminate].
    rewrite Hne. intros E; inversion E; subst; clear E. split; [lia|]. right; right.
    split; [reflexivity|]. split; [reflexivity|]. split; [lia|].
    intros r Hr'. pose proof (Hcur r Hr') as C. pose proof (Hle r Hr') as L. unfold le_lex in L.
    pose proof (Hcur m Hin). pose proof (rd_lap g r I (Hconv r Hr')) as Lr.
    assert (hpos r = head (cs g)) by lia.
    repeat split; auto. eapply rd_unmapped_at_head; eauto.
Qed.

(* ------------------------------------------------------------------ preservation: writer side *)
Lemma fill_out f beg n v o : ~ (beg <= o < beg + n) -> fill f beg n v o = f o.
Proof. unfold fill. intros H.
  destruct (Z.leb_spec beg o); destruct (Z.ltb_spec o (beg + n)); simpl; auto; lia. Qed.

Lemma fill_in f beg n v o : beg <= o < beg + n -> fill f beg n v o = v o.
Proof. unfold fill. intros H.
  destruct (Z.leb_spec beg o); destruct (Z.ltb_spec o (beg + n)); simpl; auto; lia. Qed.

Lemma write_map_keeps s n s' w : write_map s n = (s', w) -> (forall b, w <> WRegion b) -> s' = s.
Proof. unfold write_map. intros E H.
  destruct (cap s <=? n); [inversion E; auto|].
  destruct (rds s).
  - destruct (cap s <=? head s + n); inversion E; subst; exfalso; eapply H; reflexivity.
  - destruct (negb (accepting s)); [inversion E; auto|].
    destruct (next_write s n); inversion E; subst; auto. exfalso; eapply H; reflexivity. Qed.

Lemma Inv_same g g' :
  cs g' = cs g -> pend g' = pend g -> loglen g' = loglen g -> (forall o, cell g' o = cell g o) ->
  bounds g' = bounds g -> Inv g -> Inv g'.
Proof. intros Hc Hp Hl Hce Hb I. destruct I as [A B C D E F G H J].
  constructor; rewrite ?Hc, ?Hp, ?Hl, ?Hb; auto.
  - intros o Ho. rewrite Hce. auto.
  - eapply Forall_impl; [|exact F]. intros r (Ho & Hm & Hs). unfold rd_ok. rewrite Hc, Hp, Hl.
    split; [|split; auto]. destruct Ho as [Ho|(H1 & H2 & H3 & H4)]; [left; exact Ho|right].
    repeat split; try tauto. intros o Hoo. rewrite Hce. auto. Qed.

Lemma inv_write_map g n : Inv g -> pend g = false -> 0 <= n -> Inv (fst (gstep g (OWriteMap n))).
Proof.
  intros I Hp Hn. unfold gstep, step.
  destruct (write_map (cs g) n) as [s' w] eqn:E.
  destruct w as [| | |beg]; simpl;
    try (apply (Inv_same g); simpl; auto; eapply write_map_keeps; [exact E|intros b; discriminate]).
  pose proof (write_map_cases g n s' beg I Hn E) as (Hcap & [(Hs & Hb & Hfit & Hpr)|[(Hs & Hb & Hh & Hall)|(Hs & Hb & Hh & Hall)]]);
    subst s' beg; destruct I as [A B C D Ec F G H J].
  - (* A: no wrap *)
    constructor; simpl; auto; try lia.
    + intros o Ho. rewrite fill_out by lia. auto.
    + eapply Forall_forall. intros r Hr. rewrite Forall_forall in F. destruct (F r Hr) as (Ho & Hm & Hst).
      split; [|split; auto]. simpl.
      destruct Ho as [Ho|(H1 & H2 & H3 & H4)]; [left; exact Ho|right].
      pose proof (Hpr r Hr H1).
      repeat split; try lia. intros o Hoo. rewrite fill_out by lia. auto.
  - (* B: wrap, holds stay where they are *)
    constructor; simpl; auto; try lia.
    + eapply Forall_forall. intros r Hr. rewrite Forall_forall in F. destruct (F r Hr) as (Ho & Hm & Hst).
      destruct (Hall r Hr) as (Hc & Hge).
      split; [|split; auto]; simpl.
      * right. destruct Ho as [(H1 & H2)|(H1 & _)]; [|lia].
        repeat split; try lia. intros o Hoo. rewrite fill_out by lia. rewrite Ec by lia. f_equal; lia.
      * intros Hmp. destruct (Hm Hmp) as [(M1 & M2 & M3 & M4)|(M1 & M2 & M3 & M4)]; [left|lia].
        repeat split; auto; lia.
    + destruct J as (J1 & J2). split; auto. replace (loglen g - 0) with (loglen g) by lia. auto.
  - (* C: wrap and reset every hold *)
    constructor; simpl; auto; try lia.
    + eapply Forall_forall. intros r' Hr'. apply in_map_iff in Hr'. destruct Hr' as (r & <- & Hr).
      rewrite Forall_forall in F. destruct (F r Hr) as (Ho & Hm & Hst).
      destruct (Hall r Hr) as (Hc & Hge & Hum).
      split; [|split; auto]; simpl.
      * left. simpl. lia.
      * intros Hmp. simpl in Hmp. congruence.
    + rewrite map_length. auto.
    + destruct J as (J1 & J2). split; auto. replace (loglen g - 0) with (loglen g) by lia. auto.
Qed.

Lemma inv_commit g : Inv g -> pend g = true -> Inv (fst (gstep g OCommit)).
Proof.
  intros I Hp. unfold gstep, step, write_unmap. rewrite Hp. simpl.
  destruct (accepting (cs g)) eqn:Ha; simpl.
  - destruct I as [A B C D Ec F G H J]. specialize (D Hp).
    constructor; simpl; auto; try lia; try discriminate.
    + intros o Ho. destruct (Z.lt_ge_cases o (head (cs g))).
      * rewrite fill_out by lia. rewrite Ec by lia. f_equal; lia.
      * rewrite fill_in by lia. f_equal; lia.
    + eapply Forall_forall. intros r Hr. rewrite Forall_forall in F. destruct (F r Hr) as (Ho & Hm & Hst).
      split; [|split; auto]; simpl.
      * destruct Ho as [Ho|(H1 & H2 & H3 & H4)]; [left; lia|right]. specialize (H3 Hp).
        repeat split; try lia; try discriminate. intros o Hoo. rewrite fill_out by lia. rewrite H4 by lia. f_equal; lia.
      * intros Hmp. destruct (Hm Hmp) as [(M1 & M2 & M3 & M4)|(M1 & M2 & M3 & M4)]; [left|right]; repeat split; auto; lia.
    + destruct J as (J1 & J2). split; [left; reflexivity|right].
      replace (loglen g + (mapped (cs g) - head (cs g)) - mapped (cs g)) with (loglen g - head (cs g)) by lia. auto.
  - destruct I as [A B C D Ec F G H J].
    constructor; simpl; auto; try discriminate.
    eapply Forall_impl; [|exact F]. intros r (Ho & Hm & Hst). split; [|split; auto]; simpl.
    destruct Ho as [Ho|(H1 & H2 & H3 & H4)]; [left; exact Ho|right]. repeat split; try lia; try discriminate. auto.
Qed.

Lemma inv_abort g : Inv g -> pend g = true -> Inv (fst (gstep g OAbort)).
Proof.
  intros I Hp. unfold gstep, step, abort_write. simpl.
  destruct I as [A B C D Ec F G H J].
  destruct (accepting (cs g)) eqn:Ha; simpl;
    (constructor; simpl; auto; try discriminate;
     eapply Forall_impl; [|exact F]; intros r (Ho & Hm & Hst); split; [|split; auto]; simpl;
     destruct Ho as [Ho|(H1 & H2 & H3 & H4)]; [left; exact Ho|right]; repeat split; try lia; try discriminate; auto).
Qed.

Lemma inv_accept g b : Inv g -> Inv (fst (gstep g (OAccept b))).
Proof.
  intros I. unfold gstep, step, accept_writes. simpl.
  destruct I as [A B C D Ec F G H J]. constructor; simpl; auto.
Qed.

(* ------------------------------------------------------------------ preservation: reader side *)
Lemma inv_set_rds g l :
  Inv g -> Forall (rd_ok g) l -> (length l <= 8)%nat ->
  Inv (mkG (set_rds (cs g) l) (pend g) (loglen g) (cell g) (bounds g)).
Proof. intros [A B C D Ec F G H J] Hl Hn. constructor; simpl; auto. Qed.

Lemma read_map_join s i : Nat.eqb i (length (rds s)) = true -> read_map s i = read_map (join s) i.
Proof. intros E. unfold read_map at 1 2. rewrite E.
  replace (Nat.eqb i (length (rds (join s)))) with false; [reflexivity|].
  symmetry. apply Nat.eqb_eq in E. apply Nat.eqb_neq. unfold join; simpl. rewrite app_length; simpl. lia. Qed.

Lemma inv_join g : Inv g -> (length (rds (cs g)) < 8)%nat ->
  Inv (mkG (join (cs g)) (pend g) (loglen g) (cell g) (bounds g)).
Proof. intros I Hl. unfold join. apply inv_set_rds; auto.
  - apply Forall_app. split; [exact (i_rds g I)|]. constructor; [|constructor].
    split; [|split]; simpl; auto.
    + left. simpl. pose proof (i_head g I). lia.
    + intros Hm. simpl in Hm. discriminate.
  - rewrite app_length. simpl. lia. Qed.

Lemma inv_read_existing g i r :
  Inv g -> nth_error (rds (cs g)) i = Some r -> rmapped r = false ->
  Inv (mkG (fst (read_map (cs g) i)) (pend g) (loglen g) (cell g) (bounds g)).
Proof.
  intros I Hn Hu. unfold read_map.
  assert (Hlt : Nat.eqb i (length (rds (cs g))) = false).
  { apply Nat.eqb_neq. intros ->. rewrite (proj2 (nth_error_None _ _)) in Hn; [discriminate|lia]. }
  rewrite Hlt, Hn, Hu.
  assert (Hin : In r (rds (cs g))) by (eapply nth_error_In; eauto).
  pose proof (rd_lap g r I Hin) as L. pose proof (inv_rd g r I Hin) as (Ho & Hm & Hst).
  pose proof (i_head g I) as Hh.
  assert (Hl8 : forall f, (length (upd (rds (cs g)) i f) <= 8)%nat) by (intros f; rewrite upd_length; apply (i_len g I)).
  destruct ((hpos r =? head (cs g)) && (hcyc r =? cyc (cs g))) eqn:E1; simpl.
  { apply (Inv_same g); simpl; auto. }
  apply andb_false_iff in E1.
  destruct (Z.ltb_spec (hpos r) (head (cs g))) as [E2|E2].
  - assert (Hc : hcyc r = cyc (cs g)) by lia.
    rewrite (proj2 (Z.eqb_eq _ _) Hc). simpl.
    apply inv_set_rds; auto. apply Forall_upd; [exact (i_rds g I)|].
    intros r0 Hr0 (Ho0 & Hm0 & Hst0). rewrite Hn in Hr0. inversion Hr0; subst r0.
    split; [|split]; simpl; auto.
    intros _. left. simpl. repeat split; try lia.
  - assert (Hc : cyc (cs g) = hcyc r + 1).
    { destruct E1 as [E1|E1]; apply Z.eqb_neq in E1; lia. }
    rewrite (proj2 (Z.eqb_eq _ _) Hc). simpl.
    destruct (Z.eqb_spec (high (cs g) - hpos r) 0) as [E3|E3].
    + destruct (Z.ltb_spec 0 (head (cs g))) as [E4|E4]; simpl;
        (apply inv_set_rds; auto; apply Forall_upd; [exact (i_rds g I)|];
         intros r0 Hr0 (Ho0 & Hm0 & Hst0); rewrite Hn in Hr0; inversion Hr0; subst r0;
         split; [|split]; simpl; auto).
      * left. simpl. lia.
      * intros _. left. simpl. repeat split; try lia.
      * left. simpl. lia.
      * intros Hx. simpl in Hx. discriminate.
    + simpl. apply inv_set_rds; auto. apply Forall_upd; [exact (i_rds g I)|].
      intros r0 Hr0 (Ho0 & Hm0 & Hst0). rewrite Hn in Hr0. inversion Hr0; subst r0.
      split; [|split]; simpl; auto.
      intros _. right. simpl. repeat split; try lia.
Qed.

Lemma inv_read_map g i : Inv g -> wf_op g (OReadMap i) -> Inv (fst (gstep g (OReadMap i))).
Proof.
  intros I (Hle & H8 & Hu). unfold gstep, step.
  destruct (read_map (cs g) i) as [s' rr] eqn:E. simpl.
  destruct (Nat.eqb i (length (rds (cs g)))) eqn:Ej.
  - rewrite read_map_join in E by exact Ej. apply Nat.eqb_eq in Ej.
    pose proof (inv_join g I ltac:(lia)) as I'.
    set (g1 := mkG (join (cs g)) (pend g) (loglen g) (cell g) (bounds g)) in *.
    assert (Hn : nth_error (rds (cs g1)) i = Some (mkRd 0 (cyc (cs g)) 0 0 false 0)).
    { simpl. rewrite nth_error_app2 by lia. rewrite Ej, Nat.sub_diag. reflexivity. }
    pose proof (inv_read_existing g1 i _ I' Hn eq_refl) as R. simpl in R. rewrite E in R. exact R.
  - apply Nat.eqb_neq in Ej.
    destruct (nth_error (rds (cs g)) i) as [r|] eqn:Hn.
    + pose proof (inv_read_existing g i r I Hn (Hu r eq_refl)) as R. rewrite E in R. exact R.
    + apply nth_error_None in Hn. lia.
Qed.

Lemma avail_mapped g r : Inv g -> In r (rds (cs g)) -> rmapped r = true ->
  0 < avail r (high (cs g)) /\
  ((rcyc r = hcyc r /\ avail r (high (cs g)) = rpos r - hpos r /\
    (0 < rpos r /\ (hcyc r = cyc (cs g) -> rpos r <= head (cs g)) /\ (hcyc r = cyc (cs g) - 1 -> rpos r <= high (cs g)))) \/
   (rcyc r = hcyc r + 1 /\ rpos r = 0 /\ hcyc r = cyc (cs g) - 1 /\ avail r (high (cs g)) = high (cs g) - hpos r)).
Proof.
  intros I Hin Hm. pose proof (rd_lap g r I Hin) as L. pose proof (inv_rd g r I Hin) as (_ & M & _).
  pose proof (i_head g I). unfold avail.
  destruct (M Hm) as [(M1 & M2 & M3 & M4)|(M1 & M2 & M3 & M4)].
  - replace (rpos r =? hpos r) with false by (symmetry; apply Z.eqb_neq; lia). simpl.
    replace (rpos r =? 0) with false by (symmetry; apply Z.eqb_neq; lia).
    split; [lia|]. left. repeat split; try lia; auto.
  - replace (rcyc r =? hcyc r) with false by (symmetry; apply Z.eqb_neq; lia). rewrite andb_false_r.
    rewrite M2. simpl. split; [lia|]. right. repeat split; lia.
Qed.

Lemma inv_read_unmap g i k : Inv g -> 0 <= k -> Inv (fst (gstep g (OReadUnmap i k))).
Proof.
  intros I Hk. unfold gstep, step.
  destruct (read_unmap (cs g) i k) as [s' nt] eqn:E. simpl. revert E. unfold read_unmap.
  destruct (nth_error (rds (cs g)) i) as [r|] eqn:Hn;
    [|intros E; inversion E; subst; apply (Inv_same g); simpl; auto].
  destruct (rmapped r) eqn:Hm; simpl;
    [|intros E; inversion E; subst; apply (Inv_same g); simpl; auto].
  intros E; inversion E; subst s' nt; clear E.
  assert (Hin : In r (rds (cs g))) by (eapply nth_error_In; eauto).
  pose proof (avail_mapped g r I Hin Hm) as (Hpos & Hav).
  pose proof (inv_rd g r I Hin) as (Ho & _ & Hst).
  pose proof (i_head g I) as Hh. pose proof (i_high g I) as Hhi.
  set (len := avail r (high (cs g))) in *.
  apply inv_set_rds; auto; [|rewrite upd_length; apply (i_len g I)].
  apply Forall_upd; [exact (i_rds g I)|]. intros r0 Hr0 _. clear r0 Hr0.
  split; [|split]; [| intros Hx; simpl in Hx; discriminate
                    | destruct (len <=? Z.min len k); destruct (_ && _); simpl; exact Hst].
  (* the hold after consumption, r1, then after normalisation, r2 *)
  assert (H1 : hold_ok (head (cs g)) (high (cs g)) (cyc (cs g)) (mapped (cs g)) (pend g) (loglen g) (cell g)
                 (if len <=? Z.min len k then set_hold (rpos r) (rcyc r) r else set_hold (hpos r + Z.min len k) (hcyc r) r)).
  { destruct (Z.leb_spec len (Z.min len k)) as [Hf|Hf].
    - destruct Hav as [(A1 & A2 & A3)|(A1 & A2 & A3 & A4)].
      + destruct A3 as (A3 & A4 & A5).
        destruct Ho as [(O1 & O2)|(O1 & O2 & O3 & O4)]; [left; simpl; specialize (A4 O1); lia|right].
        specialize (A5 O1). simpl; repeat split; try lia.
        * intros Hp. specialize (O3 Hp). lia.
        * intros o Hoo. apply O4. lia.
      + left. simpl. lia.
    - destruct Ho as [(O1 & O2)|(O1 & O2 & O3 & O4)]; [left|right]; simpl.
      + destruct Hav as [(A1 & A2 & A3 & A4 & A5)|(A1 & A2 & A3 & A4)]; [specialize (A4 O1)|]; lia.
      + repeat split; try lia.
        * intros Hp. specialize (O3 Hp). lia.
        * intros o Hoo. apply O4. lia. }
  set (r1 := if len <=? Z.min len k then set_hold (rpos r) (rcyc r) r else set_hold (hpos r + Z.min len k) (hcyc r) r) in *.
  destruct ((head (cs g) <? hpos r1) && (hpos r1 =? high (cs g))) eqn:En.
  - apply andb_true_iff in En. destruct En as (En1 & En2).
    apply Z.ltb_lt in En1. apply Z.eqb_eq in En2.
    destruct H1 as [(O1 & O2)|(O1 & O2 & O3 & O4)]; [lia|].
    left. simpl. lia.
  - destruct H1 as [H1|(O1 & O2 & O3 & O4)]; [left; simpl; exact H1|right; simpl; repeat split; auto; lia].
Qed.

(* ------------------------------------------------------------------ every reachable state *)
Lemma inv_init c : 0 < c -> Inv (ginit c).
Proof. intros H. constructor; simpl; auto; try lia; try discriminate. Qed.

Lemma wf_opb_ok g o : wf_opb g o = true -> wf_op g o.
Proof. destruct o as [n| | |b|i|i k]; simpl; auto.
  - intros H. apply andb_true_iff in H. destruct H as (H1 & H2). apply Z.leb_le in H2.
    destruct (pend g); simpl in *; try discriminate. auto.
  - intros H. apply andb_true_iff in H. destruct H as (H & H3). apply andb_true_iff in H. destruct H as (H1 & H2).
    apply Nat.leb_le in H1. apply Nat.ltb_lt in H2. repeat split; auto.
    intros r Hr. rewrite Hr in H3. destruct (rmapped r); simpl in *; auto; discriminate.
  - intros H. apply Z.leb_le in H. exact H. Qed.

Lemma inv_step g o : Inv g -> wf_op g o -> Inv (fst (gstep g o)).
Proof. destruct o as [n| | |b|i|i k]; simpl; intros I W.
  - destruct W. apply inv_write_map; auto.
  - apply inv_commit; auto.
  - apply inv_abort; auto.
  - apply inv_accept; auto.
  - apply inv_read_map; auto.
  - apply inv_read_unmap; auto. Qed.

Lemma inv_run ops : forall g g', Inv g -> grun g ops = Some g' -> Inv g'.
Proof. induction ops as [|o ops IH]; simpl; intros g g' I E.
  - inversion E; subst; exact I.
  - destruct (wf_opb g o) eqn:W; [|discriminate].
    eapply IH; [|exact E]. apply inv_step; auto. apply wf_opb_ok; exact W. Qed.

Theorem reachable_inv c ops g : 0 < c -> grun (ginit c) ops = Some g -> Inv g.
Proof. intros Hc E. eapply inv_run; [apply inv_init; exact Hc|exact E]. Qed.
