(* ChanTheorems.v -- the statements Properties_C01/C02 export, assembled from ChanInv/ChanLog/ChanStream. *)
From Coq Require Import ZArith List Bool Lia.
From Ring Require Import ChanModel ChanGhost ChanInv ChanLog ChanStream.
Import ListNotations.
Local Open Scope Z_scope.

(* a non-empty read hands out exactly the next unread log bytes, unaltered; an empty read means drained;
   a joining reader starts at a write boundary not later than the join *)
Lemma read_returns_next_unread g i g' res :
  Inv g -> wf_op g (OReadMap i) -> gstep g (OReadMap i) = (g', res) ->
  exists rr r', res = ResR rr /\ nth_error (rds (cs g')) i = Some r' /\
    loglen g' = loglen g /\ 0 <= rlen rr /\
    (forall r, nth_error (rds (cs g)) i = Some r -> idx g' r' = idx g r) /\
    (nth_error (rds (cs g)) i = None ->
       idx g' r' = loglen g - head (cs g) /\ In (idx g' r') (bounds g) /\ idx g' r' <= loglen g) /\
    (0 < rlen rr ->
       0 <= roff rr /\ roff rr + rlen rr <= cap (cs g') /\ idx g' r' + rlen rr <= loglen g' /\
       forall j, 0 <= j < rlen rr -> cell g' (roff rr + j) = Some (idx g' r' + j)) /\
    (rlen rr = 0 -> idx g' r' = loglen g').
Proof.
  intros I W E. pose proof (inv_step g _ I W) as I'. rewrite E in I'. simpl in I'.
  destruct (read_map_spec g i I W g' res E) as (rr & -> & F & O & r' & R1 & R2 & R3 & R4 & R5 & R6).
  exists rr, r'. split; [reflexivity|]. split; [exact R1|].
  split. { destruct F as (_&_&_&_&_&_&_&L&_). exact L. }
  split; [exact R4|]. split; [exact R2|]. split; [exact R3|]. split.
  - intros Hp. destruct (R5 Hp) as (M & Off & Av).
    assert (Hin : In r' (rds (cs g'))) by (eapply nth_error_In; eauto).
    destruct (slice_committed g' r' I' Hin M) as (S1 & S2 & S3). rewrite Av in *. rewrite Off.
    split; [lia|]. split; [lia|]. split.
    + destruct (S3 (rlen rr - 1) ltac:(lia)) as (U & _).
      destruct (unread_cells g' r' _ I' Hin U) as (j & J1 & J2 & J3).
      destruct (S3 (rlen rr - 1) ltac:(lia)) as (_ & C). rewrite C in J2. inversion J2. lia.
    + intros j Hj. apply S3. exact Hj.
  - intros Hz. apply R6. exact Hz.
Qed.

(* an unmap advances the reader's cursor by exactly the bytes it consumed and nobody else's *)
Lemma unmap_advances g i k r :
  Inv g -> 0 <= k -> nth_error (rds (cs g)) i = Some r -> rmapped r = true ->
  let g' := fst (gstep g (OReadUnmap i k)) in
  exists r', nth_error (rds (cs g')) i = Some r' /\ rmapped r' = false /\
    idx g' r' = idx g r + Z.min (avail r (high (cs g))) k /\
    loglen g' = loglen g /\
    forall j, j <> i -> nth_error (rds (cs g')) j = nth_error (rds (cs g)) j.
Proof.
  intros I Hk Hn Hm. destruct (read_unmap_spec g i k r I Hk Hn Hm) as (F & O & r' & R1 & R2 & R3).
  exists r'. repeat split; auto. destruct F as (_&_&_&_&_&_&_&L&_). exact L.
Qed.

Lemma status_ok g r : Inv g -> In r (rds (cs g)) -> rstatus r = 0.
Proof. intros I Hin. destruct (inv_rd g r I Hin) as (_ & _ & S). exact S. Qed.

(* a mapped slice is untouched for as long as its reader does not unmap it *)
Definition not_by (i : nat) (o : op) : Prop :=
  match o with OReadMap j | OReadUnmap j _ => j <> i | _ => True end.

Lemma slice_stable ops : forall g g' i r,
  Inv g -> grun g ops = Some g' -> Forall (not_by i) ops ->
  nth_error (rds (cs g)) i = Some r -> rmapped r = true ->
  exists r', nth_error (rds (cs g')) i = Some r' /\ rmapped r' = true /\ hpos r' = hpos r /\
    avail r' (high (cs g')) = avail r (high (cs g)) /\
    forall j, 0 <= j < avail r (high (cs g)) -> cell g' (hpos r + j) = cell g (hpos r + j).
Proof.
  induction ops as [|o ops IH]; intros g g' i r I E Hnb Hn Hm; simpl in E.
  - inversion E; subst. exists r. repeat split; auto.
  - destruct (wf_opb g o) eqn:W; [|discriminate]. apply wf_opb_ok in W.
    inversion Hnb as [|o' ops' Ho Hops]; subst.
    pose proof (inv_step g o I W) as I1.
    assert (Hin : In r (rds (cs g))) by (eapply nth_error_In; eauto).
    destruct (slice_committed g r I Hin Hm) as (S1 & S2 & S3).
    assert (K : exists r1, nth_error (rds (cs (fst (gstep g o)))) i = Some r1 /\ rmapped r1 = true /\
                  hpos r1 = hpos r /\ avail r1 (high (cs (fst (gstep g o)))) = avail r (high (cs g))).
    { destruct o as [n| | |b|j|j k].
      1-4: (destruct (writer_spec g _ I W ltac:(exact Logic.I)) as (_ & K); destruct (K i r Hn) as (r1 & A1 & _ & A3 & A4);
            destruct (A4 Hm) as (A5 & A6); exists r1; repeat split; auto; congruence).
      - simpl in Ho. destruct (gstep g (OReadMap j)) as [g1 res] eqn:Eg.
        destruct (read_map_spec g j I W g1 res Eg) as (rr & _ & F & O & _). simpl.
        exists r. rewrite (O i) by auto. destruct F as (_&_&Fh&_). rewrite Fh. repeat split; auto.
      - simpl in Ho, W. destruct (nth_error (rds (cs g)) j) as [rj|] eqn:Hj; [destruct (rmapped rj) eqn:Hmj|].
        + destruct (read_unmap_spec g j k rj I W Hj Hmj) as (F & O & _).
          exists r. rewrite (O i) by auto. destruct F as (_&_&Fh&_). rewrite Fh. repeat split; auto.
        + exists r. rewrite read_unmap_unmapped; [repeat split; auto|].
          intros r0 Hr0. rewrite Hj in Hr0. inversion Hr0; subst; auto.
        + exists r. rewrite read_unmap_unmapped; [repeat split; auto|].
          intros r0 Hr0. rewrite Hj in Hr0. discriminate. }
    destruct K as (r1 & N1 & M1 & P1 & A1).
    destruct (IH _ g' i r1 I1 E Hops N1 M1) as (r' & N2 & M2 & P2 & A2 & C2).
    exists r'. split; [exact N2|]. split; [exact M2|]. split; [congruence|]. split; [congruence|].
    intros j Hj. rewrite <- P1. rewrite C2 by (rewrite A1; exact Hj). rewrite P1.
    apply (unread_stable g o r); auto. apply S3. exact Hj.
Qed.
