(* RingAlign.v -- every position the channel keeps or hands out is a multiple of 8 as long as every write
   size is (and readers consume multiples of 8 or their whole slice).  Invariant over ChanModel, by
   induction over histories (any capacity, any length). *)
From Coq Require Import ZArith List Bool Lia ZifyBool.
From Ring Require Import ChanModel ChanGhost ChanInv ChanLog Layout RingFrames.
Import ListNotations.
Local Open Scope Z_scope.
Ltac Zify.zify_post_hook ::= Z.div_mod_to_equations.

Definition m8 (x : Z) : Prop := x mod 8 = 0.

Lemma m8_div x : m8 x <-> (8 | x).
Proof. unfold m8. apply Z.mod_divide. lia. Qed.

Definition rd_al (r : rd) : Prop := m8 (hpos r) /\ m8 (rpos r).
Definition ch_al (s : chan) : Prop := m8 (head s) /\ m8 (high s) /\ m8 (mapped s) /\ Forall rd_al (rds s).

Ltac m8 := unfold m8 in *; lia.

Lemma aligned_ch_al g : aligned g <-> ch_al (cs g).
Proof. unfold aligned, ch_al, rd_al. rewrite <- !m8_div. split; intros (A & B & C & D); repeat split; auto.
  - eapply Forall_impl; [|exact D]. intros r. cbv beta. rewrite <- !m8_div. auto.
  - eapply Forall_impl; [|exact D]. intros r. cbv beta. rewrite <- !m8_div. auto. Qed.

(* the concrete component of a ghost step is ChanModel.step *)
Lemma gstep_cs g o : cs (fst (gstep g o)) = fst (step (cs g) o) /\ snd (gstep g o) = snd (step (cs g) o).
Proof. unfold gstep. destruct (step (cs g) o) as [s' r]. destruct o; simpl; auto.
  - destruct r as [w| |]; simpl; auto. destruct w; simpl; auto.
  - destruct (pend g && accepting (cs g)); simpl; auto. Qed.

(* ------------------------------------------------------------------ writer *)
Lemma ch_al_set_mapped s x : ch_al s -> m8 x -> ch_al (set_mapped s x).
Proof. intros (A & B & C & D) H. repeat split; simpl; auto. Qed.

Lemma ch_al_wrap_to s b : ch_al s -> m8 b -> ch_al (wrap_to s b).
Proof. intros (A & B & C & D) H. repeat split; simpl; auto. Qed.

Lemma ch_al_reset s : ch_al s -> ch_al (reset_holds s).
Proof. intros (A & B & C & D). repeat split; simpl; auto.
  apply Forall_forall. intros r' Hr'. apply in_map_iff in Hr'. destruct Hr' as (r & <- & Hr).
  rewrite Forall_forall in D. destruct (D r Hr) as (D1 & D2). split; simpl; auto. m8. Qed.

Lemma next_write_beg s n beg w : next_write s n = NwAt beg w -> beg = head s \/ beg = 0.
Proof. unfold next_write.
  destruct (negb (accepting s)); [discriminate|].
  destruct (rds s) as [|r0 rest]; [discriminate|].
  destruct (head s <? hpos (reader_min r0 rest)).
  { destruct (n <=? hpos (reader_min r0 rest) - head s); intros E; inversion E; auto. }
  destruct ((hpos (reader_min r0 rest) =? head s) && (cyc s =? hcyc (reader_min r0 rest) + 1)); [discriminate|].
  destruct (n <=? cap s - head s); [intros E; inversion E; auto|].
  destruct (n <=? hpos (reader_min r0 rest)); [intros E; inversion E; auto|].
  destruct (hpos (reader_min r0 rest) =? head s); [|discriminate].
  destruct (n <? cap s); intros E; inversion E; auto. Qed.

Lemma write_map_al s n : ch_al s -> m8 n ->
  ch_al (fst (write_map s n)) /\ forall beg, snd (write_map s n) = WRegion beg -> m8 beg.
Proof.
  intros Hs Hn. pose proof Hs as (A & B & C & D). unfold write_map.
  destruct (cap s <=? n); [simpl; split; [exact Hs|discriminate]|].
  destruct (rds s) as [|r0 rest] eqn:Hr.
  - destruct (cap s <=? head s + n); simpl.
    + split. { apply ch_al_set_mapped; [apply ch_al_wrap_to; auto; m8|exact Hn]. }
      intros beg E; inversion E; m8.
    + split. { apply ch_al_set_mapped; auto. m8. }
      intros beg E; inversion E; subst; exact A.
  - destruct (negb (accepting s)); [simpl; split; [exact Hs|discriminate]|].
    destruct (next_write s n) as [|beg w] eqn:En; [simpl; split; [exact Hs|discriminate]|].
    simpl. assert (Hb : m8 beg).
    { destruct (next_write_beg s n beg w En) as [->| ->]; [exact A|m8]. }
    split; [|intros b E; inversion E; subst; exact Hb].
    apply ch_al_set_mapped; [|m8].
    assert (H1 : ch_al (if beg =? head s then s else wrap_to s beg)).
    { destruct (beg =? head s); [exact Hs|apply ch_al_wrap_to; auto]. }
    destruct w; [apply ch_al_reset|]; exact H1.
Qed.

Lemma write_unmap_al s : ch_al s -> ch_al (write_unmap s).
Proof. intros (A & B & C & D). unfold write_unmap. destruct (accepting s); repeat split; simpl; auto. Qed.

Lemma abort_write_al s : ch_al s -> ch_al (abort_write s).
Proof. intros (A & B & C & D). unfold abort_write. destruct (accepting s); repeat split; simpl; auto. Qed.

(* ------------------------------------------------------------------ readers *)
Lemma ch_al_set_rds s l : ch_al s -> Forall rd_al l -> ch_al (set_rds s l).
Proof. intros (A & B & C & D) H. repeat split; simpl; auto. Qed.

Lemma read_map_al s0 i : ch_al s0 ->
  ch_al (fst (read_map s0 i)) /\ m8 (roff (snd (read_map s0 i))) /\ m8 (rlen (snd (read_map s0 i))).
Proof.
  intros H0. unfold read_map.
  assert (Hs : ch_al (if Nat.eqb i (length (rds s0)) then join s0 else s0)).
  { destruct (Nat.eqb i (length (rds s0))); [|exact H0]. destruct H0 as (A & B & C & D).
    unfold join. apply ch_al_set_rds; [repeat split; auto|].
    apply Forall_app. split; [exact D|]. constructor; [|constructor]. split; simpl; m8. }
  set (s := if Nat.eqb i (length (rds s0)) then join s0 else s0) in *. clearbody s. clear H0 s0.
  pose proof Hs as (A & B & C & D).
  assert (Z0 : m8 0) by m8.
  destruct (nth_error (rds s) i) as [r|] eqn:Hn; [|simpl; auto].
  pose proof (Forall_nth _ _ _ _ D Hn) as (R1 & R2).
  assert (U : forall f, (forall x, rd_al x -> rd_al (f x)) -> ch_al (set_rds s (upd (rds s) i f))).
  { intros f Hf. apply ch_al_set_rds; auto. apply Forall_upd; auto. }
  destruct (rmapped r).
  { simpl. split; [|auto]. apply U. intros x (X1 & X2). split; simpl; auto. }
  destruct ((hpos r =? head s) && (hcyc r =? cyc s)).
  { simpl. auto. }
  destruct (hpos r <? head s).
  { destruct (negb (hcyc r =? cyc s)); simpl.
    - split; [|auto]. apply U. intros x (X1 & X2). split; simpl; auto.
    - split; [|split; [auto|m8]]. apply U. intros x (X1 & X2). split; simpl; auto. }
  destruct (negb (cyc s =? hcyc r + 1)); simpl.
  { split; [|auto]. apply U. intros x (X1 & X2). split; simpl; auto. }
  destruct (high s - hpos r =? 0).
  - destruct (0 <? head s); simpl.
    + split; [|auto]. apply U. intros x (X1 & X2). split; simpl; auto.
    + split; [|auto]. apply U. intros x (X1 & X2). split; simpl; auto.
  - simpl. split; [|split; [auto|m8]]. apply U. intros x (X1 & X2). split; simpl; auto.
Qed.

Lemma avail_al r hi : rd_al r -> m8 hi -> m8 (avail r hi).
Proof. intros (A & B) H. unfold avail.
  destruct ((rpos r =? hpos r) && (rcyc r =? hcyc r)); [m8|]. destruct (rpos r =? 0); m8. Qed.

Lemma read_unmap_al s i k : ch_al s ->
  (m8 k \/ forall r, nth_error (rds s) i = Some r -> rmapped r = true -> avail r (high s) <= k) ->
  ch_al (fst (read_unmap s i k)).
Proof.
  intros Hs Hk. pose proof Hs as (A & B & C & D). unfold read_unmap.
  destruct (nth_error (rds s) i) as [r|] eqn:Hn; [|exact Hs].
  destruct (rmapped r) eqn:Hm; [|exact Hs]. simpl.
  pose proof (Forall_nth _ _ _ _ D Hn) as Hr. pose proof Hr as (R1 & R2).
  pose proof (avail_al r (high s) Hr B) as Hav.
  set (len := avail r (high s)) in *.
  apply ch_al_set_rds; auto. apply Forall_upd; auto. intros r0 _ _. clear r0.
  assert (H1 : rd_al (if len <=? Z.min len k then set_hold (rpos r) (rcyc r) r
                      else set_hold (hpos r + Z.min len k) (hcyc r) r)).
  { destruct (Z.leb_spec len (Z.min len k)) as [Hf|Hf]; split; simpl; auto.
    assert (Z.min len k = k) as -> by lia.
    destruct Hk as [Hk|Hk]; [m8|]. specialize (Hk r eq_refl Hm). fold len in Hk. lia. }
  set (r1 := if len <=? Z.min len k then set_hold (rpos r) (rcyc r) r
             else set_hold (hpos r + Z.min len k) (hcyc r) r) in *.
  destruct H1 as (P1 & P2).
  destruct ((head s <? hpos r1) && (hpos r1 =? high s)); split; simpl; auto. m8.
Qed.

(* ------------------------------------------------------------------ one step, any history *)
Definition al_c (s : chan) (o : op) : Prop :=
  match o with
  | OWriteMap n => m8 n
  | OReadUnmap i k => m8 k \/ forall r, nth_error (rds s) i = Some r -> rmapped r = true -> avail r (high s) <= k
  | _ => True
  end.

Lemma step_al s o : ch_al s -> al_c s o ->
  ch_al (fst (step s o)) /\
  (forall beg, snd (step s o) = ResW (WRegion beg) -> m8 beg) /\
  (forall rr, snd (step s o) = ResR rr -> m8 (roff rr) /\ m8 (rlen rr)).
Proof.
  intros Hs Ho. destruct o as [n| | |b|i|i k]; simpl in *.
  - destruct (write_map_al s n Hs Ho) as (W1 & W2). destruct (write_map s n) as [s' w]; simpl in *.
    split; [exact W1|]. split; [|discriminate]. intros beg E; inversion E; subst; auto.
  - split; [apply write_unmap_al; exact Hs|]. split; discriminate.
  - split; [apply abort_write_al; exact Hs|]. split; discriminate.
  - split; [|split; discriminate]. destruct Hs as (A & B & C & D). repeat split; simpl; auto.
  - destruct (read_map_al s i Hs) as (R1 & R2 & R3). destruct (read_map s i) as [s' rr]; simpl in *.
    split; [exact R1|]. split; [discriminate|]. intros rr' E; inversion E; subst; auto.
  - pose proof (read_unmap_al s i k Hs Ho) as U. destruct (read_unmap s i k) as [s' nt]; simpl in *.
    split; [exact U|]. split; discriminate.
Qed.

Lemma al_op_c g o : al_op g o -> al_c (cs g) o.
Proof. destruct o; simpl; auto.
  - apply m8_div.
  - intros [H|H]; [left; apply m8_div; exact H|right; exact H]. Qed.

Lemma gstep_al g o : aligned g -> al_op g o ->
  aligned (fst (gstep g o)) /\
  (forall beg, snd (gstep g o) = ResW (WRegion beg) -> (8 | beg)) /\
  (forall rr, snd (gstep g o) = ResR rr -> (8 | roff rr) /\ (8 | rlen rr)).
Proof.
  intros Ha Ho. destruct (gstep_cs g o) as (E1 & E2).
  destruct (step_al (cs g) o (proj1 (aligned_ch_al g) Ha) (al_op_c g o Ho)) as (S1 & S2 & S3).
  split; [apply aligned_ch_al; rewrite E1; exact S1|]. rewrite E2. split.
  - intros beg E. apply m8_div. apply S2. exact E.
  - intros rr E. rewrite <- !m8_div. apply S3. exact E.
Qed.

Lemma aligned_init c : aligned (ginit c).
Proof. unfold aligned; simpl. repeat split; try apply Z.divide_0_r. constructor. Qed.

Lemma aligned_run ops : forall g g',
  aligned g -> grun g ops = Some g' -> hist_ok al_op g ops -> aligned g'.
Proof. induction ops as [|o ops IH]; simpl; intros g g' Ha E H.
  - inversion E; subst; exact Ha.
  - destruct (wf_opb g o); [|discriminate]. destruct H as (H1 & H2).
    eapply IH; [|exact E|exact H2]. apply gstep_al; auto. Qed.

(* C05_offsets_aligned: in every state reached by a well-formed history whose write sizes are multiples of 8
   (readers consuming multiples of 8 or everything), every position is a multiple of 8, and so are the
   region offset / slice offset / slice length of the next operation; with an 8-aligned buffer (allocator
   assumption) the addresses handed out are 8-aligned. *)
Theorem offsets_aligned c ops g o :
  grun (ginit c) ops = Some g -> hist_ok al_op (ginit c) ops -> al_op g o ->
  aligned g /\ aligned (fst (gstep g o)) /\
  (forall beg, snd (gstep g o) = ResW (WRegion beg) ->
     (8 | beg) /\ forall base, (8 | base) -> (8 | base + beg)) /\
  (forall rr, snd (gstep g o) = ResR rr ->
     (8 | roff rr) /\ (8 | rlen rr) /\
     forall base, (8 | base) -> (8 | base + roff rr) /\ (8 | base + roff rr + rlen rr)).
Proof.
  intros E H Ho. pose proof (aligned_run ops _ _ (aligned_init c) E H) as Ha.
  destruct (gstep_al g o Ha Ho) as (S1 & S2 & S3).
  split; [exact Ha|]. split; [exact S1|]. split.
  - intros beg Eb. specialize (S2 beg Eb). split; [exact S2|]. intros base Hb. apply Z.divide_add_r; auto.
  - intros rr Er. destruct (S3 rr Er) as (T1 & T2). split; [exact T1|]. split; [exact T2|].
    intros base Hb. split; repeat apply Z.divide_add_r; auto.
Qed.

(* ------------------------------------------------------------------ the state-free side condition *)
Lemma step_cap s o : cap (fst (step s o)) = cap s.
Proof. destruct o as [n| | |b|i|i k]; simpl.
  - unfold write_map. destruct (cap s <=? n); [reflexivity|].
    destruct (rds s).
    + destruct (cap s <=? head s + n); reflexivity.
    + destruct (negb (accepting s)); [reflexivity|].
      destruct (next_write s n) as [|beg w]; [reflexivity|]. simpl.
      destruct w; destruct (beg =? head s); reflexivity.
  - unfold write_unmap. destruct (accepting s); reflexivity.
  - unfold abort_write. destruct (accepting s); reflexivity.
  - reflexivity.
  - unfold read_map.
    assert (J : cap (if Nat.eqb i (length (rds s)) then join s else s) = cap s)
      by (destruct (Nat.eqb i (length (rds s))); reflexivity).
    set (s1 := if Nat.eqb i (length (rds s)) then join s else s) in *. clearbody s1.
    destruct (nth_error (rds s1) i) as [r|]; [|exact J].
    repeat match goal with |- context [if ?c then _ else _] => destruct c end; simpl; exact J.
  - unfold read_unmap. destruct (nth_error (rds s) i) as [r|]; [|reflexivity].
    destruct (negb (rmapped r)); reflexivity.
Qed.

Lemma gstep_cap g o : cap (cs (fst (gstep g o))) = cap (cs g).
Proof. destruct (gstep_cs g o) as (E & _). rewrite E. apply step_cap. Qed.

Lemma static_al g o : Inv g -> al_op_static (cap (cs g)) o -> al_op g o.
Proof. intros I. destruct o as [n| | |b|i|i k]; simpl; auto.
  intros [H|H]; [left; exact H|right]. intros r Hn Hm.
  assert (Hin : In r (rds (cs g))) by (eapply nth_error_In; eauto).
  destruct (slice_committed g r I Hin Hm) as (S1 & S2 & _). lia. Qed.

Lemma static_hist c ops : forall g g',
  Inv g -> cap (cs g) = c -> grun g ops = Some g' -> Forall (al_op_static c) ops -> hist_ok al_op g ops.
Proof. induction ops as [|o ops IH]; simpl; intros g g' I Hc E F; auto.
  destruct (wf_opb g o) eqn:W; [|discriminate]. inversion F; subst.
  split; [apply static_al; auto|].
  eapply IH; [| |exact E|auto].
  - apply inv_step; auto. apply wf_opb_ok; exact W.
  - apply gstep_cap. Qed.

Theorem offsets_aligned_static c ops g o :
  0 < c -> grun (ginit c) ops = Some g -> Forall (al_op_static c) (ops ++ [o]) ->
  aligned g /\ aligned (fst (gstep g o)) /\
  (forall beg, snd (gstep g o) = ResW (WRegion beg) ->
     (8 | beg) /\ forall base, (8 | base) -> (8 | base + beg)) /\
  (forall rr, snd (gstep g o) = ResR rr ->
     (8 | roff rr) /\ (8 | rlen rr) /\
     forall base, (8 | base) -> (8 | base + roff rr) /\ (8 | base + roff rr + rlen rr)).
Proof.
  intros Hc E F. apply Forall_app in F. destruct F as (F1 & F2). inversion F2; subst.
  pose proof (reachable_inv c ops g Hc E) as I.
  assert (Hcap : cap (cs g) = c).
  { clear - E. revert E. generalize (eq_refl : cap (cs (ginit c)) = c). generalize (ginit c).
    induction ops as [|o ops IH]; simpl; intros g0 H0 E.
    - inversion E; subst; auto.
    - destruct (wf_opb g0 o); [|discriminate]. eapply IH; [|exact E]. rewrite gstep_cap. exact H0. }
  apply (offsets_aligned c ops g o E).
  - eapply static_hist; [apply inv_init; exact Hc|reflexivity|exact E|exact F1].
  - apply static_al; auto. rewrite Hcap. assumption.
Qed.
