(* ChanStream.v -- trace-level statement of C01: what a reader consumes over any history is a run of
   consecutive log indices starting at its cursor; nothing lost, duplicated, reordered or altered. *)
From Coq Require Import ZArith List Bool Lia.
From Ring Require Import ChanModel ChanGhost ChanInv ChanLog.
Import ListNotations.
Local Open Scope Z_scope.

Fixpoint zrange (a : Z) (n : nat) : list Z :=
  match n with O => [] | S n' => a :: zrange (a + 1) n' end.

Lemma zrange_length a n : length (zrange a n) = n.
Proof. revert a; induction n; simpl; auto. Qed.

Lemma zrange_app a n m : zrange a (n + m) = zrange a n ++ zrange (a + Z.of_nat n) m.
Proof. revert a; induction n as [|n IH]; intros a; simpl.
  - replace (a + 0) with a by lia. reflexivity.
  - rewrite IH. f_equal. f_equal. f_equal. lia. Qed.

Lemma zrange_map (f g : Z -> option Z) a b n :
  (forall j, 0 <= j < Z.of_nat n -> f (a + j) = g (b + j)) -> map f (zrange a n) = map g (zrange b n).
Proof. revert a b; induction n as [|n IH]; intros a b H; simpl; auto.
  f_equal.
  - specialize (H 0). rewrite !Z.add_0_r in H. apply H. lia.
  - apply IH. intros j Hj. replace (a + 1 + j) with (a + (1 + j)) by lia.
    replace (b + 1 + j) with (b + (1 + j)) by lia. apply H. lia. Qed.

(* the ring cells reader i consumes when it unmaps k bytes in state g (what it has seen through its slice) *)
Definition consumed_cells (g : gst) (i : nat) (k : Z) : list (option Z) :=
  match nth_error (rds (cs g)) i with
  | Some r => if rmapped r
              then map (cell g) (zrange (hpos r) (Z.to_nat (Z.min (avail r (high (cs g))) k)))
              else []
  | None => []
  end.

Definition op_delivers (g : gst) (o : op) (i : nat) : list (option Z) :=
  match o with
  | OReadUnmap j k => if Nat.eqb j i then consumed_cells g i k else []
  | _ => []
  end.

(* everything reader i consumes over a history, in order *)
Fixpoint delivered (g : gst) (ops : list op) (i : nat) : list (option Z) :=
  match ops with
  | [] => []
  | o :: ops' => op_delivers g o i ++ delivered (fst (gstep g o)) ops' i
  end.

Lemma gstep_reader_frame g o : ~ writer_op o -> 
  loglen (fst (gstep g o)) = loglen g /\ cell (fst (gstep g o)) = cell g.
Proof. destruct o as [n| | |b|i|i k]; simpl; try tauto; intros _; unfold gstep, step.
  - destruct (read_map (cs g) i); simpl; auto.
  - destruct (read_unmap (cs g) i k); simpl; auto. Qed.

Lemma step_stream g o i r : Inv g -> wf_op g o -> nth_error (rds (cs g)) i = Some r ->
  let g' := fst (gstep g o) in
  let d := op_delivers g o i in
  exists r', nth_error (rds (cs g')) i = Some r' /\
    d = map Some (zrange (idx g r) (length d)) /\
    idx g' r' = idx g r + Z.of_nat (length d).
Proof.
  intros I W Hn. cbv zeta.
  destruct o as [n| | |b|j|j k].
  1-4: (destruct (writer_spec g _ I W ltac:(exact Logic.I)) as (_ & K);
        destruct (K i r Hn) as (r' & R1 & R2 & _); exists r'; split; [exact R1|]; split; [reflexivity|];
        rewrite R2; simpl; lia).
  - (* read_map by some reader *)
    destruct (gstep g (OReadMap j)) as [g' res] eqn:E.
    destruct (read_map_spec g j I W g' res E) as (rr & _ & F & O & r' & R1 & R2 & _).
    simpl. destruct (Nat.eq_dec j i) as [->|Hne].
    + exists r'. split; [exact R1|]. split; [reflexivity|]. rewrite (R2 r Hn). lia.
    + exists r. split; [rewrite (O i) by auto; exact Hn|]. split; [reflexivity|].
      rewrite (idx_frame g g' r F). lia.
  - (* read_unmap by some reader *)
    simpl in W. unfold op_delivers.
    destruct (Nat.eqb_spec j i) as [->|Hne].
    + unfold consumed_cells. rewrite Hn.
      destruct (rmapped r) eqn:Hm.
      * destruct (read_unmap_spec g i k r I W Hn Hm) as (F & O & r' & R1 & R2 & R3).
        assert (Hin : In r (rds (cs g))) by (eapply nth_error_In; eauto).
        destruct (slice_committed g r I Hin Hm) as (S1 & S2 & S3).
        pose proof (avail_mapped g r I Hin Hm) as (Hpos & _).
        set (len := avail r (high (cs g))) in *.
        exists r'. split; [exact R1|]. rewrite map_length, zrange_length.
        split.
        { apply zrange_map. intros jj Hjj. apply S3. lia. }
        rewrite R3. lia.
      * exists r. split.
        { rewrite read_unmap_unmapped; [exact Hn|]. intros r0 Hr0. rewrite Hn in Hr0. inversion Hr0; subst; exact Hm. }
        split; [reflexivity|]. simpl.
        unfold idx. rewrite read_unmap_unmapped.
        2:{ intros r0 Hr0. rewrite Hn in Hr0. inversion Hr0; subst; exact Hm. }
        destruct (gstep_reader_frame g (OReadUnmap i k) ltac:(simpl; tauto)) as (Hl & _). rewrite Hl. lia.
    + destruct (nth_error (rds (cs g)) j) as [rj|] eqn:Hj.
      * destruct (rmapped rj) eqn:Hmj.
        -- destruct (read_unmap_spec g j k rj I W Hj Hmj) as (F & O & _).
           exists r. split; [rewrite (O i) by auto; exact Hn|]. split; [reflexivity|].
           rewrite (idx_frame _ _ r F). simpl. lia.
        -- exists r. split.
           { rewrite read_unmap_unmapped; [exact Hn|]. intros r0 Hr0. rewrite Hj in Hr0. inversion Hr0; subst; exact Hmj. }
           split; [reflexivity|]. simpl. unfold idx. rewrite read_unmap_unmapped.
           2:{ intros r0 Hr0. rewrite Hj in Hr0. inversion Hr0; subst; exact Hmj. }
           destruct (gstep_reader_frame g (OReadUnmap j k) ltac:(simpl; tauto)) as (Hl & _). rewrite Hl. lia.
      * exists r. split.
        { rewrite read_unmap_unmapped; [exact Hn|]. intros r0 Hr0. rewrite Hj in Hr0. discriminate. }
        split; [reflexivity|]. simpl. unfold idx. rewrite read_unmap_unmapped.
        2:{ intros r0 Hr0. rewrite Hj in Hr0. discriminate. }
        destruct (gstep_reader_frame g (OReadUnmap j k) ltac:(simpl; tauto)) as (Hl & _). rewrite Hl. lia.
Qed.

Theorem stream_exact ops : forall g g' i r,
  Inv g -> grun g ops = Some g' -> nth_error (rds (cs g)) i = Some r ->
  exists r', nth_error (rds (cs g')) i = Some r' /\
    delivered g ops i = map Some (zrange (idx g r) (length (delivered g ops i))) /\
    idx g' r' = idx g r + Z.of_nat (length (delivered g ops i)).
Proof.
  induction ops as [|o ops IH]; intros g g' i r I E Hn; simpl in *.
  - inversion E; subst. exists r. split; [exact Hn|]. split; [reflexivity|]. lia.
  - destruct (wf_opb g o) eqn:W; [|discriminate]. apply wf_opb_ok in W.
    destruct (step_stream g o i r I W Hn) as (r1 & N1 & D1 & X1).
    pose proof (inv_step g o I W) as I1.
    destruct (IH _ g' i r1 I1 E N1) as (r' & N2 & D2 & X2).
    exists r'. split; [exact N2|].
    rewrite app_length. split.
    + rewrite zrange_app, map_app. f_equal; [exact D1|].
      rewrite D2 at 1. rewrite X1. reflexivity.
    + rewrite X2, X1. lia.
Qed.
