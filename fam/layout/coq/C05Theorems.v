(* C05Theorems.v -- the statements Properties_C05 exports, assembled from LayoutProofs / RingAlign / RingPackets. *)
From Coq Require Import ZArith List Bool Lia ZifyBool.
From Ring Require Import ChanModel ChanGhost ChanInv ChanLog ChanStream ChanTheorems.
From Ring Require Import Layout LayoutProofs RingFrames RingAlign RingPackets.
Import ListNotations.
Local Open Scope Z_scope.

Lemma is_frame_size_pos n : is_frame_size n -> 0 < n.
Proof. intros (sh & H & ->). pose proof (frame_size_lower sh H). lia. Qed.

Lemma is_frame_size_spec n : is_frame_size n ->
  exists sh, 0 <= bytes_of_image sh /\ n = 96 + align8 (bytes_of_image sh) /\ (8 | n) /\ 96 <= n.
Proof. intros (sh & H & ->). exists sh. destruct (size_field sh) as (E & D & _).
  split. { unfold bytes_of_image. pose proof (bytes_of_type_nonneg (stype sh)). nia. }
  split; [exact E|]. split; [exact D|]. apply frame_size_lower; exact H. Qed.

(* a history of frame writes is in particular a history of writes of multiples of 8 *)
Lemma frame_write_al g o : frame_write o -> (forall i k, o <> OReadUnmap i k) -> al_op g o.
Proof. destruct o as [n| | |b|i|i k]; simpl; auto.
  - intros (sh & _ & ->) _. apply align8_divide.
  - intros _ H. exfalso. eapply H; reflexivity. Qed.

Lemma hist_frame_fb ops : forall g,
  hist_ok frame_hist_op g ops -> hist_ok (fb_op is_frame_size) g ops.
Proof. induction ops as [|o ops IH]; simpl; intros g H; [exact H|].
  destruct H as (H1 & H3). split; [exact H1|apply IH; exact H3]. Qed.

Lemma reachable_fb c ops g :
  0 < c -> grun (ginit c) ops = Some g -> hist_ok frame_hist_op (ginit c) ops ->
  Inv g /\ FB is_frame_size g.
Proof. intros Hc E H.
  apply (fb_run is_frame_size is_frame_size_pos ops (ginit c) g (inv_init c Hc) (fb_init is_frame_size c) E).
  apply hist_frame_fb; exact H. Qed.

(* ------------------------------------------------------------------ the boolean checkers are sound *)
Lemma hist_okb_sound (Q : gst -> op -> Prop) (q : gst -> op -> bool) :
  (forall g o, q g o = true -> Q g o) -> forall ops g, hist_okb q g ops = true -> hist_ok Q g ops.
Proof. intros H. induction ops as [|o ops IH]; simpl; intros g E; auto.
  apply andb_true_iff in E. destruct E as (E1 & E2). split; auto. Qed.

Lemma frame_hist_opb_sound cands g o : frame_hist_opb cands g o = true -> frame_hist_op g o.
Proof. unfold frame_hist_opb, frame_hist_op. intros E. apply andb_true_iff in E. destruct E as (E1 & E2). split.
  - destruct o; simpl in *; auto. apply existsb_exists in E1. destruct E1 as (sh & _ & E1).
    apply andb_true_iff in E1. destruct E1 as (A & B). exists sh. split; lia.
  - destruct o as [n| | |b|i|i k]; simpl in *; auto. intros r Hr Hm. rewrite Hr, Hm in E2.
    apply orb_true_iff in E2. destruct E2 as [E2|E2]; [left; lia|right].
    apply existsb_exists in E2. destruct E2 as (x & Hx & E2). apply Z.eqb_eq in E2. subst x. exact Hx. Qed.

Lemma al_opb_sound g o : al_opb g o = true -> al_op g o.
Proof. destruct o as [n| | |b|i|i k]; simpl; auto.
  - intros E. apply Z.mod_divide; lia.
  - intros E. apply orb_true_iff in E. destruct E as [E|E]; [left; apply Z.mod_divide; lia|right].
    intros r Hr Hm. rewrite Hr, Hm in E. lia. Qed.

Lemma frame_histb_sound cands ops g : hist_okb (frame_hist_opb cands) g ops = true -> hist_ok frame_hist_op g ops.
Proof. apply hist_okb_sound. apply frame_hist_opb_sound. Qed.

Lemma al_histb_sound ops g : hist_okb al_opb g ops = true -> hist_ok al_op g ops.
Proof. apply hist_okb_sound. apply al_opb_sound. Qed.

(* C05_packet_whole *)
Theorem packet_whole c ops g i g' rr :
  0 < c -> grun (ginit c) ops = Some g -> hist_ok frame_hist_op (ginit c) ops ->
  wf_op g (OReadMap i) -> gstep g (OReadMap i) = (g', ResR rr) -> 0 < rlen rr ->
  exists r' fs,
    nth_error (rds (cs g')) i = Some r' /\ rmapped r' = true /\ hpos r' = roff rr /\
    0 <= roff rr /\ roff rr + rlen rr <= cap (cs g') /\
    (* the slice is the concatenation of the whole committed frames fs of the log, starting at the cursor *)
    fs <> [] /\ Forall is_frame_size fs /\
    In (idx g' r') (bounds g') /\ chain (bounds g') (idx g' r') fs /\ total fs = rlen rr /\
    (forall j, 0 <= j < rlen rr -> cell g' (roff rr + j) = Some (idx g' r' + j)) /\
    (* stepping by the size field visits exactly their headers and lands on the slice end *)
    (forall base, 0 < base ->
       holds_packet (hdr_mem g' base) (base + roff rr) fs /\
       iter_all (S (length fs)) (hdr_mem g' base) (mkIt (base + roff rr) (base + roff rr + rlen rr))
         = (offsets (base + roff rr) fs, Some (base + roff rr + rlen rr)) /\
       (* the sink: whatever the clock says, it appends a whole-frame prefix and consumes exactly its size,
          which is a whole count in the sense of the hypothesis on histories *)
       forall ts brk small, exists j, (j <= length fs)%nat /\
         sink_step (S (length fs)) (hdr_mem g' base) ts brk small (base + roff rr) (base + roff rr + rlen rr)
           = Some (base + roff rr, base + roff rr + total (firstn j fs), total (firstn j fs)) /\
         whole_unmap g' (OReadUnmap i (total (firstn j fs)))) /\
    (* the hypothesis on consumption counts says: everything, or the sizes of leading frames *)
    (forall k, 0 <= k ->
       (whole_unmap g' (OReadUnmap i k) <->
        (rlen rr <= k \/ exists j, (j <= length fs)%nat /\ k = total (firstn j fs)))).
Proof.
  intros Hc E H W G Hpos. destruct (reachable_fb c ops g Hc E H) as (I & F).
  destruct (packet_at_read is_frame_size is_frame_size_pos g i g' rr I F W G Hpos)
    as (r' & fs & N & Mm & Ho & Ma & S1 & S2 & Hne & Hfs & B1 & C & T & Hh & Hw).
  destruct (read_returns_next_unread g i g' _ I W G) as (rr0 & r0 & Er & N0 & _ & _ & _ & _ & S & _).
  inversion Er; subst rr0; clear Er. rewrite N in N0. inversion N0; subst r0; clear N0.
  destruct (S Hpos) as (_ & _ & _ & S4).
  exists r', fs. repeat (split; [assumption|]). split; [|exact Hw].
  intros base Hb.
  assert (Hp : all_pos fs).
  { eapply Forall_impl; [|exact Hfs]. intros n Hn. apply is_frame_size_pos; exact Hn. }
  specialize (Hh base). split; [exact Hh|]. split.
  - rewrite <- T. replace (base + roff rr + total fs) with ((base + roff rr) + total fs) by lia.
    apply iter_exact; auto. lia.
  - intros ts brk small. rewrite <- T.
    destruct (sink_step_whole (hdr_mem g' base) ts brk small fs (base + roff rr) Hp Hh) as (j & J1 & J2 & J3 & J4).
    exists j. split; [exact J1|]. split; [exact J2|].
    apply Hw; [lia|]. right. exists j. split; auto.
Qed.

(* the sink's count, computed at map time, is still a whole count when the sink unmaps, whatever the writer
   and the other readers did meanwhile *)
Theorem sink_count_stays_whole c ops1 ops2 g1 g2 i k r :
  0 < c -> grun (ginit c) ops1 = Some g1 -> grun g1 ops2 = Some g2 -> Forall (not_by i) ops2 ->
  nth_error (rds (cs g1)) i = Some r -> rmapped r = true ->
  whole_unmap g1 (OReadUnmap i k) -> whole_unmap g2 (OReadUnmap i k).
Proof. intros Hc E1 E2 Nb Hn Hm Wh.
  exact (whole_unmap_stable ops2 g1 g2 i k r (reachable_inv c ops1 g1 Hc E1) E2 Nb Hn Hm Wh). Qed.

(* the packet mapped in g1 is still in the ring, header by header, in any later state g2 reached while reader i
   keeps its slice mapped (the writer commits more frames, other readers come and go) *)
Theorem packet_stays_whole c ops1 ops2 g1 g2 i r fs base :
  0 < c -> grun (ginit c) ops1 = Some g1 -> hist_ok frame_hist_op (ginit c) ops1 ->
  grun g1 ops2 = Some g2 -> hist_ok frame_hist_op g1 ops2 -> Forall (not_by i) ops2 ->
  nth_error (rds (cs g1)) i = Some r -> rmapped r = true ->
  chain (bounds g1) (idx g1 r) fs -> total fs = avail r (high (cs g1)) ->
  holds_packet (hdr_mem g2 base) (base + hpos r) fs /\
  exists r', nth_error (rds (cs g2)) i = Some r' /\ rmapped r' = true /\ hpos r' = hpos r /\
    avail r' (high (cs g2)) = avail r (high (cs g1)).
Proof.
  intros Hc E1 H1 E2 H2 Nb Hn Hm C T.
  destruct (reachable_fb c ops1 g1 Hc E1 H1) as (I1 & F1).
  destruct (fb_run is_frame_size is_frame_size_pos ops2 g1 g2 I1 F1 E2 (hist_frame_fb ops2 g1 H2)) as (I2 & F2).
  destruct (slice_stable ops2 g1 g2 i r I1 E2 Nb Hn Hm) as (r' & N' & M' & P' & A' & Cs).
  assert (Hin : In r (rds (cs g1))) by (eapply nth_error_In; eauto).
  destruct (slice_committed g1 r I1 Hin Hm) as (_ & _ & S3).
  destruct (bounds_run_ext ops2 g1 g2 E2) as (l & Hl).
  split; [|exists r'; auto].
  apply (holds_chain g2 base fs (idx g1 r) (hpos r)).
  - apply (fb_sd _ _ F2).
  - rewrite Hl. apply chain_front. exact C.
  - intros j Hj. rewrite Cs by lia. apply S3. lia.
Qed.

(* every reader's cursor and every mapped slice's end are write boundaries, in every reachable state *)
Theorem holds_on_frame_boundaries c ops g j r :
  0 < c -> grun (ginit c) ops = Some g -> hist_ok frame_hist_op (ginit c) ops ->
  nth_error (rds (cs g)) j = Some r ->
  In (idx g r) (bounds g) /\ (rmapped r = true -> In (idx g r + avail r (high (cs g))) (bounds g)).
Proof. intros Hc E H Hn. destruct (reachable_fb c ops g Hc E H) as (_ & F). apply (fb_rd _ _ F j r Hn). Qed.

(* C05_split_boundary (pure layout): split and the iterator on any memory that holds whole frames *)
Theorem split_and_iterate m ts (brk : Z -> bool) small fs b :
  0 < b -> all_pos fs -> holds_packet m b fs ->
  (exists j, (j <= length fs)%nat /\
     split (S (length fs)) m ts brk small b (b + total fs) = Some (b + total (firstn j fs), b + total fs) /\
     (small = false -> (forall i, (i < j)%nat -> brk (ts (nth i (offsets b fs) 0)) = false) /\
                       ((j < length fs)%nat -> brk (ts (b + total (firstn j fs))) = true)) /\
     (small = true -> j = length fs) /\
     sink_step (S (length fs)) m ts brk small b (b + total fs)
       = Some (b, b + total (firstn j fs), total (firstn j fs)) /\
     holds_packet m b (firstn j fs) /\
     iter_all (S (length (firstn j fs))) m (mkIt b (b + total (firstn j fs)))
       = (offsets b (firstn j fs), Some (b + total (firstn j fs)))) /\
  iter_all (S (length fs)) m (mkIt b (b + total fs)) = (offsets b fs, Some (b + total fs)).
Proof.
  intros Hb Hp Hh. split; [|apply iter_exact; auto].
  destruct (split_boundary m ts brk small fs b Hp Hh) as (j & J1 & J2 & J3 & J4).
  exists j. split; [exact J1|]. split; [exact J2|]. split; [exact J3|]. split; [exact J4|].
  split. { unfold sink_step. rewrite J2. f_equal. f_equal. lia. }
  split; [apply holds_packet_firstn; exact Hh|].
  apply iter_exact; auto.
  - unfold all_pos in *. rewrite Forall_forall in *. intros x Hx. apply Hp.
    rewrite <- (firstn_skipn j fs). apply in_or_app; left; exact Hx.
  - apply holds_packet_firstn; exact Hh.
Qed.
