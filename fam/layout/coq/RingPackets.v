(* RingPackets.v -- slices handed to readers are concatenations of whole committed frames, and the size
   fields chain exactly from the slice begin to the slice end.  Over ChanModel/ChanGhost of fam/ring,
   using its invariant (ChanInv.Inv), by induction over histories. *)
From Coq Require Import ZArith List Bool Lia ZifyBool.
From Ring Require Import ChanModel ChanGhost ChanInv ChanLog ChanStream ChanTheorems.
From Ring Require Import Layout LayoutProofs RingFrames.
Import ListNotations.
Local Open Scope Z_scope.

(* ------------------------------------------------------------------ strictly descending boundary lists *)
Fixpoint sdesc (l : list Z) : Prop :=
  match l with [] => True | b :: tl => (forall x, In x tl -> x < b) /\ sdesc tl end.

Lemma consec_in bs a b : consec bs a b -> In a bs /\ In b bs.
Proof. intros (l1 & l2 & ->). split; apply in_or_app; right; simpl; auto. Qed.

Lemma consec_cons x bs a b : consec bs a b -> consec (x :: bs) a b.
Proof. intros (l1 & l2 & ->). exists (x :: l1), l2. reflexivity. Qed.

Lemma consec_cons_inv x bs a b : consec (x :: bs) a b ->
  (b = x /\ exists tl, bs = a :: tl) \/ consec bs a b.
Proof. intros (l1 & l2 & E). destruct l1 as [|y l1]; simpl in E; inversion E; subst.
  - left. split; auto. eexists; reflexivity.
  - right. exists l1, l2. reflexivity. Qed.

Lemma consec_lt bs a b : sdesc bs -> consec bs a b -> a < b.
Proof. intros H (l1 & l2 & ->). induction l1 as [|y l1 IH]; simpl in H.
  - destruct H as (H & _). apply H. simpl; auto.
  - apply IH. tauto. Qed.

Lemma chain_cons x bs a fs : chain bs a fs -> chain (x :: bs) a fs.
Proof. revert a. induction fs as [|n l IH]; simpl; auto. intros a (H1 & H2). split; auto using consec_cons. Qed.

Lemma chain_app bs a f1 f2 : chain bs a f1 -> chain bs (a + total f1) f2 -> chain bs a (f1 ++ f2).
Proof. revert a. induction f1 as [|n l IH]; simpl; intros a.
  - rewrite Z.add_0_r. auto.
  - intros (H1 & H2) H3. split; auto. apply IH; auto. replace (a + n + total l) with (a + (n + total l)) by lia. auto. Qed.

Lemma chain_pos bs a fs : sdesc bs -> chain bs a fs -> all_pos fs.
Proof. intros H. revert a. induction fs as [|n l IH]; simpl; intros a; [constructor|].
  intros (H1 & H2). constructor; [|eapply IH; eauto]. pose proof (consec_lt bs a (a + n) H H1). lia. Qed.

Lemma chain_sizes (P : Z -> Prop) bs a fs :
  (forall x y, consec bs x y -> P (y - x)) -> chain bs a fs -> Forall P fs.
Proof. intros H. revert a. induction fs as [|n l IH]; simpl; intros a; [constructor|].
  intros (H1 & H2). constructor; [|eapply IH; eauto]. replace n with (a + n - a) by lia. auto. Qed.

(* between two write boundaries lie whole frames *)
Lemma chain_exists bs : sdesc bs -> forall a b, In a bs -> In b bs -> a <= b ->
  exists fs, chain bs a fs /\ a + total fs = b.
Proof.
  induction bs as [|x tl IH]; intros Hs a b Ha Hb Hab; [destruct Ha|].
  destruct Hs as (Hx & Hs). specialize (IH Hs).
  destruct Hb as [<-|Hb]; destruct Ha as [<-|Ha].
  - exists []. simpl. split; auto. lia.
  - (* from a inside tl up to the newest boundary x: first up to the head of tl, then one more frame *)
    destruct tl as [|y tl']; [destruct Ha|].
    assert (Hay : a <= y).
    { destruct Ha as [<-|Ha]; [lia|]. destruct Hs as (Hy & _). specialize (Hy a Ha). lia. }
    destruct (IH a y Ha (or_introl eq_refl) Hay) as (fs & C & T).
    exists (fs ++ [x - y]). split.
    + apply chain_app; [apply chain_cons; exact C|]. simpl. split; auto.
      rewrite T. replace (y + (x - y)) with x by lia. exists [], tl'. reflexivity.
    + rewrite total_app. simpl. lia.
  - specialize (Hx b Hb). lia.
  - destruct (IH a b Ha Hb Hab) as (fs & C & T). exists fs. split; auto using chain_cons.
Qed.

Lemma chain_in bs a fs j : In a bs -> chain bs a fs -> In (a + total (firstn j fs)) bs.
Proof. revert a j. induction fs as [|n l IH]; intros a [|j] Ha C; simpl; rewrite ?Z.add_0_r; auto.
  destruct C as (C1 & C2). replace (a + (n + total (firstn j l))) with (a + n + total (firstn j l)) by lia.
  apply IH; auto. apply (consec_in _ _ _ C1). Qed.

(* a boundary inside the range of a chain is one of its partial sums *)
Lemma chain_boundary bs a fs x : sdesc bs -> chain bs a fs -> In x bs -> a <= x <= a + total fs ->
  exists j, (j <= length fs)%nat /\ x = a + total (firstn j fs).
Proof.
  intros Hs. revert a. induction fs as [|n l IH]; intros a C Hx Hr; simpl in *.
  - exists O. simpl. split; auto. lia.
  - destruct C as (C1 & C2). destruct (Z.eq_dec x a) as [->|Hne].
    + exists O. simpl. split; lia.
    + (* x > a, so x >= a + n: nothing lies strictly between consecutive boundaries *)
      assert (Hge : a + n <= x).
      { destruct C1 as (l1 & l2 & E). subst bs. clear - Hs Hx Hr Hne.
        induction l1 as [|y l1 IH]; simpl in *.
        - destruct Hs as (H1 & H2 & _). destruct Hx as [<-|[<-|Hx]]; try lia. specialize (H2 x Hx). lia.
        - destruct Hs as (H1 & Hs). destruct Hx as [<-|Hx]; [|auto].
          specialize (H1 (a + n) ltac:(apply in_or_app; right; simpl; auto)). lia. }
      destruct (IH (a + n) C2 Hx ltac:(lia)) as (j & J1 & J2).
      exists (S j). simpl. split; lia.
Qed.

Lemma size_at_consec bs a b : sdesc bs -> consec bs a b -> size_at bs a = Some (b - a).
Proof.
  intros Hs (l1 & l2 & ->). induction l1 as [|y l1 IH].
  - simpl. rewrite Z.eqb_refl. reflexivity.
  - destruct Hs as (Hy & Hs). specialize (IH Hs).
    change ((y :: l1) ++ b :: a :: l2) with (y :: (l1 ++ b :: a :: l2)).
    assert (Hhd : exists h t, l1 ++ b :: a :: l2 = h :: t /\ a < h).
    { destruct l1 as [|h t]; simpl in *.
      - exists b, (a :: l2). split; auto. destruct Hs as (Hb & _). apply Hb. simpl; auto.
      - exists h, (t ++ b :: a :: l2). split; auto. destruct Hs as (Hh & _). apply Hh.
        apply in_or_app; right; simpl; auto. }
    destruct Hhd as (h & t & E & Hlt). rewrite E in *.
    cbn [size_at]. replace (h =? a) with false by lia. exact IH.
Qed.

(* ------------------------------------------------------------------ the frame-boundary invariant *)
Section FrameBoundaries.
Variable P : Z -> Prop.               (* what is known about every write size *)
Hypothesis P_pos : forall n, P n -> 0 < n.

Record FB (g : gst) : Prop := mkFB {
  fb_sd : sdesc (bounds g);
  fb_hd : exists tl, bounds g = loglen g :: tl;
  fb_sizes : forall a b, consec (bounds g) a b -> P (b - a);
  fb_pend : pend g = true -> P (mapped (cs g) - head (cs g));
  fb_rd : forall j r, nth_error (rds (cs g)) j = Some r ->
          In (idx g r) (bounds g) /\
          (rmapped r = true -> In (idx g r + avail r (high (cs g))) (bounds g))
}.

Definition P_write (o : op) : Prop := match o with OWriteMap n => P n | _ => True end.

Lemma fb_init c : FB (ginit c).
Proof. constructor; simpl; auto.
  - split; auto. intros x [].
  - eexists; reflexivity.
  - intros a b (l1 & l2 & E). destruct l1 as [|? [|? ?]]; simpl in E; inversion E.
  - discriminate.
  - intros j r H. destruct j; discriminate.
Qed.

Lemma rd_kept_back g g' j r' : rd_kept g g' -> nth_error (rds (cs g')) j = Some r' ->
  exists r, nth_error (rds (cs g)) j = Some r /\ idx g' r' = idx g r /\ rmapped r' = rmapped r /\
    (rmapped r = true -> avail r' (high (cs g')) = avail r (high (cs g))).
Proof. intros (L & K) H. destruct (nth_error (rds (cs g)) j) as [r|] eqn:E.
  - destruct (K j r E) as (r1 & N & A & B & C). rewrite H in N. inversion N; subst r1.
    exists r. repeat split; auto. intros Hm. apply C; auto.
  - apply nth_error_None in E. assert (nth_error (rds (cs g')) j = None) by (apply nth_error_None; lia). congruence.
Qed.

(* readers are carried over a writer operation; the boundary list only grows *)
Lemma fb_rd_kept g g' : rd_kept g g' -> incl (bounds g) (bounds g') ->
  (forall j r, nth_error (rds (cs g)) j = Some r ->
     In (idx g r) (bounds g) /\ (rmapped r = true -> In (idx g r + avail r (high (cs g))) (bounds g))) ->
  forall j r, nth_error (rds (cs g')) j = Some r ->
     In (idx g' r) (bounds g') /\ (rmapped r = true -> In (idx g' r + avail r (high (cs g'))) (bounds g')).
Proof. intros K Hi H j r' Hn. destruct (rd_kept_back g g' j r' K Hn) as (r & N & A & B & C).
  destruct (H j r N) as (H1 & H2). rewrite A. split; [apply Hi; exact H1|].
  intros Hm. rewrite B in Hm. rewrite (C Hm). apply Hi. auto. Qed.

Lemma read_unmap_noop g i k :
  (forall r, nth_error (rds (cs g)) i = Some r -> rmapped r = false) ->
  fst (gstep g (OReadUnmap i k)) = g.
Proof. intros H. unfold gstep, step, read_unmap.
  destruct (nth_error (rds (cs g)) i) as [r|] eqn:Hn; [rewrite (H r eq_refl)|]; destruct g; reflexivity. Qed.

(* how far a read reaches: to the log end or to the end of the reader's lap (both are write boundaries) *)
Lemma read_map_lap g i g' rr r' : Inv g -> wf_op g (OReadMap i) ->
  gstep g (OReadMap i) = (g', ResR rr) -> nth_error (rds (cs g')) i = Some r' ->
  idx g' r' + rlen rr = loglen g \/ idx g' r' + rlen rr = loglen g - head (cs g).
Proof.
  intros I W E Hn'. pose proof W as (Hle & H8 & Hu).
  unfold gstep, step in E. destruct (read_map (cs g) i) as [s' rr0] eqn:Em. inversion E; subst g' rr0; clear E.
  simpl in Hn'.
  destruct (Nat.eqb i (length (rds (cs g)))) eqn:Ej.
  - rewrite read_map_join in Em by exact Ej. apply Nat.eqb_eq in Ej.
    pose proof (inv_join g I ltac:(lia)) as I1.
    set (g1 := mkG (join (cs g)) (pend g) (loglen g) (cell g) (bounds g)) in *.
    set (r0 := mkRd 0 (cyc (cs g)) 0 0 false 0).
    assert (Hn : nth_error (rds (cs g1)) i = Some r0).
    { simpl. rewrite nth_error_app2 by lia. rewrite Ej, Nat.sub_diag. reflexivity. }
    destruct (read_existing_spec g1 i r0 I1 Hn eq_refl s' rr Em) as (_ & _ & r1 & R1 & R2 & _).
    simpl in R1. rewrite Hn' in R1. inversion R1; subst r1. simpl in R2.
    pose proof (read_existing_lap g1 i r0 I1 Hn eq_refl s' rr Em) as L. simpl in L.
    rewrite R2. destruct L as [L|(L & _)]; [left|right]; exact L.
  - apply Nat.eqb_neq in Ej.
    destruct (nth_error (rds (cs g)) i) as [r|] eqn:Hn; [|apply nth_error_None in Hn; lia].
    destruct (read_existing_spec g i r I Hn (Hu r eq_refl) s' rr Em) as (_ & _ & r1 & R1 & R2 & _).
    simpl in R1. rewrite Hn' in R1. inversion R1; subst r1. simpl in R2.
    pose proof (read_existing_lap g i r I Hn (Hu r eq_refl) s' rr Em) as L.
    rewrite R2. destruct L as [L|(L & _)]; [left|right]; exact L.
Qed.

Lemma fb_step g o : Inv g -> FB g -> wf_op g o -> P_write o -> whole_unmap g o -> FB (fst (gstep g o)).
Proof.
  intros I F W Pw Wh. destruct F as [Fsd Fhd Fsz Fpe Frd].
  destruct o as [n| | |b|i|i k].
  - (* write_map *)
    pose proof (writer_spec g (OWriteMap n) I W Logic.I) as K.
    destruct W as (Hp & Hn). simpl in Pw.
    destruct (gstep g (OWriteMap n)) as [g' res] eqn:E. simpl in *.
    assert (Hb : bounds g' = bounds g /\ loglen g' = loglen g).
    { unfold gstep in E. destruct (step (cs g) (OWriteMap n)) as [s' r].
      destruct r as [w| |]; try destruct w; inversion E; subst; simpl; auto. }
    destruct Hb as (Hb & Hl).
    constructor; rewrite ?Hb, ?Hl; auto.
    + (* the pending region has the size just requested *)
      intros Hp'. unfold gstep, step in E. destruct (write_map (cs g) n) as [s' w] eqn:Ew.
      destruct w as [| | |beg]; inversion E; subst; simpl in *; try congruence.
      assert (G : gstep g (OWriteMap n) = (mkG s' true (loglen g) (fill (cell g) beg n (fun _ => None)) (bounds g), ResW (WRegion beg))).
      { unfold gstep, step. rewrite Ew. reflexivity. }
      destruct (write_map_region g n _ beg I (conj Hp Hn) G) as (_ & Hh & Hm & _). simpl in Hh, Hm.
      rewrite Hh, Hm. replace (beg + n - beg) with n by lia. exact Pw.
    + rewrite <- Hb. apply (fb_rd_kept g g'); auto. rewrite Hb. apply incl_refl.
  - (* commit *)
    pose proof (writer_spec g OCommit I W Logic.I) as K. simpl in W.
    destruct Fhd as (tl & Fhd).
    assert (Hall : forall x, In x (bounds g) -> x <= loglen g).
    { intros x Hx. rewrite Fhd in Hx, Fsd. destruct Hx as [<-|Hx]; [lia|]. destruct Fsd as (Fsd & _). specialize (Fsd x Hx). lia. }
    revert K. unfold gstep, step. rewrite W. simpl.
    destruct (accepting (cs g)) eqn:Ha; simpl; intros K.
    + pose proof (P_pos _ (Fpe W)) as Hpos.
      constructor; simpl; auto.
      * split; auto. intros x Hx. specialize (Hall x Hx). lia.
      * eexists; reflexivity.
      * intros a b C. apply consec_cons_inv in C. destruct C as [(-> & tl' & Et)|C]; [|auto].
        rewrite Fhd in Et. inversion Et; subst a.
        replace (loglen g + (mapped (cs g) - head (cs g)) - loglen g) with (mapped (cs g) - head (cs g)) by lia. auto.
      * discriminate.
      * apply (fb_rd_kept g _ K); auto. simpl. apply incl_tl, incl_refl.
    + constructor; simpl; auto; [eexists; exact Fhd|discriminate|].
      apply (fb_rd_kept g _ K); auto. simpl. apply incl_refl.
  - (* abort *)
    pose proof (writer_spec g OAbort I W Logic.I) as K. revert K. unfold gstep, step. simpl. intros K.
    constructor; simpl; auto; [discriminate|].
    apply (fb_rd_kept g _ K); auto. simpl. apply incl_refl.
  - (* accept *)
    pose proof (writer_spec g (OAccept b) I W Logic.I) as K. revert K. unfold gstep, step. simpl. intros K.
    constructor; simpl; auto; try (apply (fb_rd_kept g _ K); auto; simpl; apply incl_refl).
  - (* read_map *)
    destruct (gstep g (OReadMap i)) as [g' res] eqn:E.
    destruct (read_map_spec g i I W g' res E) as (rr & -> & Fe & Os & r' & R1 & R2 & R3 & R4 & R5 & R6).
    pose proof (read_map_lap g i g' rr r' I W E R1) as Lap.
    pose proof (i_bnd g I) as (B1 & B2).
    pose proof Fe as (Fc & Fh & Fhi & Fy & Fm & Fa & Fp & Fl & Fce & Fb). simpl.
    constructor; rewrite ?Fb, ?Fl, ?Fp, ?Fm, ?Fh; auto.
    intros j r Hj. destruct (Nat.eq_dec j i) as [->|Hne].
    + rewrite R1 in Hj. inversion Hj; subst r. split.
      * destruct (nth_error (rds (cs g)) i) as [r0|] eqn:Hn0.
        -- rewrite (R2 r0 eq_refl). apply (Frd i r0 Hn0).
        -- apply (R3 eq_refl).
      * intros Hm. destruct (Z.eq_dec (rlen rr) 0) as [Hz|Hz].
        -- destruct (R6 Hz) as (Hu & _). congruence.
        -- destruct (R5 ltac:(lia)) as (_ & _ & Av). rewrite Av. destruct Lap as [-> | ->]; auto.
    + rewrite (Os j Hne) in Hj. rewrite (idx_frame g g' r Fe), Fhi. apply (Frd j r Hj).
  - (* read_unmap *)
    simpl in W, Wh.
    destruct (nth_error (rds (cs g)) i) as [r|] eqn:Hn.
    2:{ rewrite read_unmap_noop; [constructor; auto|]. intros r Hr. congruence. }
    destruct (rmapped r) eqn:Hm.
    2:{ rewrite read_unmap_noop; [constructor; auto|]. intros r0 Hr. congruence. }
    destruct (read_unmap_spec g i k r I W Hn Hm) as (Fe & Os & r' & R1 & R2 & R3).
    set (g' := fst (gstep g (OReadUnmap i k))) in *.
    pose proof Fe as (Fc & Fh & Fhi & Fy & Fm & Fa & Fp & Fl & Fce & Fb).
    constructor; rewrite ?Fb, ?Fl, ?Fp, ?Fm, ?Fh; auto.
    intros j r1 Hj. destruct (Nat.eq_dec j i) as [->|Hne].
    + rewrite R1 in Hj. inversion Hj; subst r1. split; [|congruence].
      rewrite R3. destruct (Frd i r Hn) as (F1 & F2). specialize (F2 Hm).
      destruct (Z.le_gt_cases (avail r (high (cs g))) k) as [Hle|Hgt].
      * rewrite Z.min_l by lia. exact F2.
      * rewrite Z.min_r by lia. destruct (Wh r eq_refl Hm) as [Hx|Hx]; [lia|exact Hx].
    + rewrite (Os j Hne) in Hj. rewrite (idx_frame g g' r1 Fe), Fhi. apply (Frd j r1 Hj).
Qed.

Definition fb_op (g : gst) (o : op) : Prop := P_write o /\ whole_unmap g o.

Lemma fb_run ops : forall g g',
  Inv g -> FB g -> grun g ops = Some g' -> hist_ok fb_op g ops -> Inv g' /\ FB g'.
Proof. induction ops as [|o ops IH]; simpl; intros g g' I F E H.
  - inversion E; subst; auto.
  - destruct (wf_opb g o) eqn:W; [|discriminate]. apply wf_opb_ok in W. destruct H as ((H1 & H2) & H3).
    eapply IH; [| |exact E|exact H3].
    + apply inv_step; auto.
    + apply fb_step; auto. Qed.

(* ------------------------------------------------------------------ the packet a read hands out *)
Lemma holds_chain g base fs : forall a o,
  sdesc (bounds g) -> chain (bounds g) a fs ->
  (forall j, 0 <= j < total fs -> cell g (o + j) = Some (a + j)) ->
  holds_packet (hdr_mem g base) (base + o) fs.
Proof.
  induction fs as [|n l IH]; intros a o Hs C Hc; simpl; auto.
  destruct C as (C1 & C2). pose proof (chain_pos _ _ _ Hs C2) as Hp.
  pose proof (total_nonneg l Hp). pose proof (consec_lt _ _ _ Hs C1).
  split.
  - unfold hdr_mem, field. replace (base + o - base) with o by lia.
    specialize (Hc 0). rewrite !Z.add_0_r in Hc. rewrite Hc by (simpl; lia).
    rewrite (size_at_consec _ _ _ Hs C1). lia.
  - replace (base + o + n) with (base + (o + n)) by lia. apply (IH (a + n)); auto.
    intros j Hj. replace (o + n + j) with (o + (n + j)) by lia. rewrite Hc by (simpl; lia). f_equal. lia.
Qed.

Lemma packet_at_read g i g' rr :
  Inv g -> FB g -> wf_op g (OReadMap i) -> gstep g (OReadMap i) = (g', ResR rr) -> 0 < rlen rr ->
  exists r' fs,
    nth_error (rds (cs g')) i = Some r' /\ rmapped r' = true /\ hpos r' = roff rr /\
    avail r' (high (cs g')) = rlen rr /\ 0 <= roff rr /\ roff rr + rlen rr <= cap (cs g') /\
    fs <> [] /\ Forall P fs /\
    In (idx g' r') (bounds g') /\ chain (bounds g') (idx g' r') fs /\
    total fs = rlen rr /\
    (forall base, holds_packet (hdr_mem g' base) (base + roff rr) fs) /\
    (forall k, 0 <= k ->
       (whole_unmap g' (OReadUnmap i k) <->
        (rlen rr <= k \/ exists j, (j <= length fs)%nat /\ k = total (firstn j fs)))).
Proof.
  intros I F W E Hpos.
  pose proof (fb_step g (OReadMap i) I F W Logic.I Logic.I) as F'. rewrite E in F'. simpl in F'.
  pose proof (inv_step g _ I W) as I'. rewrite E in I'. simpl in I'.
  destruct (read_returns_next_unread g i g' _ I W E) as (rr0 & r' & Er & N & Ll & _ & _ & _ & S & _).
  inversion Er; subst rr0; clear Er.
  destruct (S Hpos) as (S1 & S2 & S3 & S4).
  destruct (read_map_spec g i I W g' _ E) as (rr0 & Er & _ & _ & r1 & N1 & _ & _ & _ & M & _).
  inversion Er; subst rr0; clear Er. rewrite N in N1. inversion N1; subst r1; clear N1.
  destruct (M Hpos) as (Mm & Mo & Ma).
  destruct F' as [Fsd Fhd Fsz Fpe Frd]. destruct (Frd i r' N) as (B1 & B2). specialize (B2 Mm). rewrite Ma in B2.
  destruct (chain_exists _ Fsd _ _ B1 B2 ltac:(lia)) as (fs & C & T).
  exists r', fs. split; [exact N|]. split; [exact Mm|]. split; [auto|]. split; [exact Ma|].
  split; [exact S1|]. split; [exact S2|].
  split. { intros ->. simpl in T. lia. }
  split. { eapply chain_sizes; eauto. }
  split; [exact B1|]. split; [exact C|]. split; [lia|]. split.
  { intros base. apply (holds_chain g' base fs (idx g' r') (roff rr)); auto.
    intros j Hj. apply S4. lia. }
  intros k Hk0. simpl. split.
  - intros H. destruct (H r' N Mm) as [H1|H1]; [left; lia|].
    destruct (Z.le_gt_cases (rlen rr) k); [left; assumption|].
    right. destruct (chain_boundary _ _ _ _ Fsd C H1 ltac:(lia)) as (j & J1 & J2).
    exists j. split; auto. lia.
  - intros [H|(j & J1 & ->)] r Hr _; rewrite N in Hr; inversion Hr; subst r.
    + left. lia.
    + right. apply chain_in; auto.
Qed.

End FrameBoundaries.

(* ------------------------------------------------------------------ a whole count stays whole while the slice is mapped *)
Lemma bounds_incl g o : incl (bounds g) (bounds (fst (gstep g o))).
Proof. unfold gstep. destruct (step (cs g) o) as [s' r]. destruct o; simpl; try apply incl_refl.
  - destruct r as [w| |]; try destruct w; simpl; apply incl_refl.
  - destruct (pend g && accepting (cs g)); simpl; [apply incl_tl|]; apply incl_refl. Qed.

Lemma unmap_noop g i k :
  (forall r, nth_error (rds (cs g)) i = Some r -> rmapped r = false) ->
  fst (gstep g (OReadUnmap i k)) = g.
Proof. intros H. unfold gstep, step, read_unmap.
  destruct (nth_error (rds (cs g)) i) as [r|] eqn:Hn; [rewrite (H r eq_refl)|]; destruct g; reflexivity. Qed.

(* operations of the writer and of the other readers leave a mapped reader's cursor and slice length alone *)
Lemma mapped_kept g o i r : Inv g -> wf_op g o -> not_by i o ->
  nth_error (rds (cs g)) i = Some r -> rmapped r = true ->
  exists r1, nth_error (rds (cs (fst (gstep g o)))) i = Some r1 /\ rmapped r1 = true /\
    idx (fst (gstep g o)) r1 = idx g r /\
    avail r1 (high (cs (fst (gstep g o)))) = avail r (high (cs g)).
Proof.
  intros I W Nb Hn Hm. destruct o as [n| | |b|j|j k].
  1-4: (destruct (writer_spec g _ I W Logic.I) as (_ & K); destruct (K i r Hn) as (r1 & A1 & A2 & A3 & A4);
        destruct (A4 Hm) as (_ & A6); exists r1; repeat split; auto; congruence).
  - simpl in Nb. destruct (gstep g (OReadMap j)) as [g1 res] eqn:Eg.
    destruct (read_map_spec g j I W g1 res Eg) as (rr & _ & F & O & _). simpl.
    exists r. rewrite (O i) by auto. rewrite (idx_frame g g1 r F).
    destruct F as (_ & _ & Fh & _). rewrite Fh. repeat split; auto.
  - simpl in Nb, W.
    destruct (nth_error (rds (cs g)) j) as [rj|] eqn:Hj; [destruct (rmapped rj) eqn:Hmj|].
    + destruct (read_unmap_spec g j k rj I W Hj Hmj) as (F & O & _).
      exists r. rewrite (O i) by auto. rewrite (idx_frame _ _ r F).
      destruct F as (_ & _ & Fh & _). rewrite Fh. repeat split; auto.
    + exists r. rewrite unmap_noop; [repeat split; auto|]. intros r0 Hr0. congruence.
    + exists r. rewrite unmap_noop; [repeat split; auto|]. intros r0 Hr0. congruence.
Qed.

Lemma whole_unmap_stable ops : forall g g' i k r,
  Inv g -> grun g ops = Some g' -> Forall (not_by i) ops ->
  nth_error (rds (cs g)) i = Some r -> rmapped r = true ->
  whole_unmap g (OReadUnmap i k) -> whole_unmap g' (OReadUnmap i k).
Proof.
  induction ops as [|o ops IH]; intros g g' i k r I E Nb Hn Hm Wh; simpl in E.
  - inversion E; subst; exact Wh.
  - destruct (wf_opb g o) eqn:W; [|discriminate]. apply wf_opb_ok in W.
    inversion Nb as [|? ? No Nops]; subst.
    destruct (mapped_kept g o i r I W No Hn Hm) as (r1 & N1 & M1 & X1 & A1).
    apply (IH (fst (gstep g o)) g' i k r1); [apply inv_step; auto|exact E|exact Nops|exact N1|exact M1|].
    simpl. intros r2 Hr2 _. rewrite N1 in Hr2. inversion Hr2; subst r2.
    rewrite X1, A1. destruct (Wh r Hn Hm) as [H|H]; [left; exact H|right].
    apply bounds_incl. exact H.
Qed.

(* ------------------------------------------------------------------ the packet is still there when it is read later *)
Lemma bounds_ext g o : exists l, bounds (fst (gstep g o)) = l ++ bounds g.
Proof. unfold gstep. destruct (step (cs g) o) as [s' r]. destruct o; simpl; try (exists []; reflexivity).
  - destruct r as [w| |]; try destruct w; simpl; exists []; reflexivity.
  - destruct (pend g && accepting (cs g)); simpl; [eexists [_]|exists []]; reflexivity. Qed.

Lemma bounds_run_ext ops : forall g g', grun g ops = Some g' -> exists l, bounds g' = l ++ bounds g.
Proof. induction ops as [|o ops IH]; simpl; intros g g' E.
  - inversion E; subst. exists []; reflexivity.
  - destruct (wf_opb g o); [|discriminate]. destruct (IH _ _ E) as (l & H). destruct (bounds_ext g o) as (l0 & H0).
    exists (l ++ l0). rewrite H, H0, app_assoc. reflexivity. Qed.

Lemma chain_front l bs a fs : chain bs a fs -> chain (l ++ bs) a fs.
Proof. induction l as [|x l IH]; simpl; auto. intros H. apply chain_cons. auto. Qed.
