(* ChanModel.v -- executable model of acquire-video-runtime/src/runtime/channel.c (field by field).
   One function per C function; every `if` of the C is one `if` here, in the same order.
   Positions are Z; the C's size_t subtractions are only executed where the invariant (ChanInv.v)
   makes them non-negative.  Reader handles are numbered in the order in which they join
   (reader_initialize), so `channel_reader.id - 1` is the index into [rds]. *)
From Coq Require Import ZArith List Bool.
Import ListNotations.
Local Open Scope Z_scope.

(* holds.pos[i], holds.cycles[i] and the client-side struct channel_reader of the reader with id i+1 *)
Record rd := mkRd {
  hpos : Z;        (* holds.pos[i]     *)
  hcyc : Z;        (* holds.cycles[i]  *)
  rpos : Z;        (* reader->pos      : target cursor of the current mapping *)
  rcyc : Z;        (* reader->cycle    *)
  rmapped : bool;  (* reader->state == ChannelState_Mapped *)
  rstatus : Z      (* reader->status : 0 Ok, 1 Error, 2 Expected_Unmapped_Reader *)
}.

Record chan := mkChan {
  cap : Z; head : Z; high : Z; cyc : Z; mapped : Z;
  accepting : bool;
  rds : list rd
}.

Definition init (capacity : Z) : chan :=
  mkChan capacity 0 0 0 0 true [].

(* cursor_cmp *)
Definition cursor_cmp (ca pa cb pb : Z) : Z :=
  if ca <? cb then -1 else
  if cb <? ca then 1 else
  if pa <? pb then -1 else
  if pb <? pa then 1 else 0.

(* reader_min: the hold that is lexicographically smallest, first one on ties *)
Fixpoint reader_min (mn : rd) (l : list rd) : rd :=
  match l with
  | [] => mn
  | r :: l' =>
      if cursor_cmp (hcyc mn) (hpos mn) (hcyc r) (hpos r) =? 1
      then reader_min r l' else reader_min mn l'
  end.

Inductive nw := NwNo | NwAt (beg : Z) (wrap : bool).

(* next_write (only called with at least one registered reader) *)
Definition next_write (s : chan) (n : Z) : nw :=
  if negb (accepting s) then NwNo else
  match rds s with
  | [] => NwNo
  | r0 :: rest =>
    let m := reader_min r0 rest in
    let tail := hpos m in
    if head s <? tail then
      (if n <=? tail - head s then NwAt (head s) false else NwNo)
    else if (tail =? head s) && (cyc s =? hcyc m + 1) then NwNo
    else if n <=? cap s - head s then NwAt (head s) false
    else if n <=? tail then NwAt 0 false
    else if tail =? head s then (if n <? cap s then NwAt 0 true else NwNo)
    else NwNo
  end.

Definition set_head_mapped (s : chan) (h m : Z) : chan :=
  mkChan (cap s) h (high s) (cyc s) m (accepting s) (rds s).

Definition wrap_to (s : chan) (beg : Z) : chan :=
  mkChan (cap s) beg (head s) (cyc s + 1) (mapped s) (accepting s) (rds s).

Definition reset_holds (s : chan) : chan :=
  mkChan (cap s) (head s) (high s) (cyc s) (mapped s) (accepting s)
    (map (fun r => mkRd 0 (cyc s) (rpos r) (rcyc r) (rmapped r) (rstatus r)) (rds s)).

Definition set_mapped (s : chan) (m : Z) : chan :=
  mkChan (cap s) (head s) (high s) (cyc s) m (accepting s) (rds s).

Inductive wres := WTooBig | WRefused | WBlocked | WRegion (beg : Z).

(* channel_write_map; WBlocked = the call would enter condition_variable_wait (state unchanged) *)
Definition write_map (s : chan) (n : Z) : chan * wres :=
  if cap s <=? n then (s, WTooBig) else
  match rds s with
  | [] =>
      if cap s <=? head s + n
      then (set_mapped (wrap_to s 0) n, WRegion 0)
      else (set_mapped s (head s + n), WRegion (head s))
  | _ :: _ =>
      if negb (accepting s) then (s, WRefused) else
      match next_write s n with
      | NwNo => (s, WBlocked)
      | NwAt beg wrap =>
          let s1 := if beg =? head s then s else wrap_to s beg in
          let s2 := if wrap then reset_holds s1 else s1 in
          (set_mapped s2 (beg + n), WRegion beg)
      end
  end.

(* channel_write_unmap *)
Definition write_unmap (s : chan) : chan :=
  if accepting s then set_head_mapped s (mapped s) (mapped s) else s.

(* channel_abort_write *)
Definition abort_write (s : chan) : chan :=
  if accepting s then set_mapped s (head s) else s.

(* channel_accept_writes *)
Definition accept_writes (s : chan) (b : bool) : chan :=
  mkChan (cap s) (head s) (high s) (cyc s) (mapped s) b (rds s).

Fixpoint upd (l : list rd) (i : nat) (f : rd -> rd) : list rd :=
  match l, i with
  | [], _ => []
  | r :: l', O => f r :: l'
  | r :: l', S i' => r :: upd l' i' f
  end.

Definition set_rds (s : chan) (l : list rd) : chan :=
  mkChan (cap s) (head s) (high s) (cyc s) (mapped s) (accepting s) l.

Definition set_hold (p c : Z) (r : rd) : rd := mkRd p c (rpos r) (rcyc r) (rmapped r) (rstatus r).
Definition set_target (p c : Z) (m : bool) (r : rd) : rd := mkRd (hpos r) (hcyc r) p c m (rstatus r).
Definition set_status (st : Z) (r : rd) : rd := mkRd (hpos r) (hcyc r) (rpos r) (rcyc r) (rmapped r) st.
Definition set_unmapped (r : rd) : rd := mkRd (hpos r) (hcyc r) (rpos r) (rcyc r) false (rstatus r).

(* result of channel_read_map: byte offset of slice.beg from the buffer base, length, whether
   condition_variable_notify_all was called (lap hop), status after the call *)
Record rres := mkRres { roff : Z; rlen : Z; rnotified : bool }.

(* reader_initialize: a reader whose id is 0 joins at offset 0 of the writer's lap *)
Definition join (s : chan) : chan :=
  set_rds s (rds s ++ [mkRd 0 (cyc s) 0 0 false 0]).

(* channel_read_map for the reader with index i (i = length (rds s) : the reader joins first) *)
Definition read_map (s0 : chan) (i : nat) : chan * rres :=
  let s := if Nat.eqb i (length (rds s0)) then join s0 else s0 in
  match nth_error (rds s) i with
  | None => (s, mkRres 0 0 false)
  | Some r =>
    if rmapped r then
      (* Expected_Unmapped_Reader; AdvanceToWriterHead *)
      (set_rds s (upd (rds s) i (fun r => set_status 2 (set_hold (head s) (cyc s) r))), mkRres 0 0 false)
    else if (hpos r =? head s) && (hcyc r =? cyc s) then
      (s, mkRres (hpos r) 0 false)
    else if hpos r <? head s then
      if negb (hcyc r =? cyc s) then
        (set_rds s (upd (rds s) i (fun r => set_status 1 (set_hold (head s) (cyc s) r))), mkRres 0 0 false)
      else
        (set_rds s (upd (rds s) i (set_target (head s) (cyc s) true)), mkRres (hpos r) (head s - hpos r) false)
    else
      if negb (cyc s =? hcyc r + 1) then
        (set_rds s (upd (rds s) i (fun r => set_status 1 (set_hold (head s) (cyc s) r))), mkRres 0 0 false)
      else if high s - hpos r =? 0 then
        (* nothing left in the old lap: hop to the start of the writer's lap, tell the writer,
           and map what the new lap already holds *)
        if 0 <? head s then
          (set_rds s (upd (rds s) i (fun r => set_target (head s) (cyc s) true (set_hold 0 (cyc s) r))),
           mkRres 0 (head s) true)
        else
          (set_rds s (upd (rds s) i (fun r => set_target 0 (hcyc r + 1) false (set_hold 0 (cyc s) r))),
           mkRres 0 0 true)
      else
        (set_rds s (upd (rds s) i (set_target 0 (hcyc r + 1) true)), mkRres (hpos r) (high s - hpos r) false)
  end.

(* get_available_byte_count *)
Definition avail (r : rd) (hi : Z) : Z :=
  if (rpos r =? hpos r) && (rcyc r =? hcyc r) then 0 else
  if rpos r =? 0 then hi - hpos r else rpos r - hpos r.

(* channel_read_unmap; second component: notify_all called *)
Definition read_unmap (s : chan) (i : nat) (k : Z) : chan * bool :=
  match nth_error (rds s) i with
  | None => (s, false)
  | Some r =>
    if negb (rmapped r) then (s, false) else
    let len := avail r (high s) in
    let c := Z.min len k in
    let r1 := if len <=? c then set_hold (rpos r) (rcyc r) r else set_hold (hpos r + c) (hcyc r) r in
    let r2 := if (head s <? hpos r1) && (hpos r1 =? high s) then set_hold 0 (hcyc r1 + 1) r1 else r1 in
    (set_rds s (upd (rds s) i (fun _ => set_unmapped r2)), true)
  end.

(* ------------------------------------------------------------------ operations *)
Inductive op :=
| OWriteMap (n : Z)
| OCommit
| OAbort
| OAccept (b : bool)
| OReadMap (i : nat)
| OReadUnmap (i : nat) (k : Z).

Inductive res :=
| ResW (w : wres)
| ResUnit (notified : bool)
| ResR (r : rres).

Definition step (s : chan) (o : op) : chan * res :=
  match o with
  | OWriteMap n => let (s', w) := write_map s n in (s', ResW w)
  | OCommit => (write_unmap s, ResUnit false)
  | OAbort => (abort_write s, ResUnit false)
  | OAccept b => (accept_writes s b, ResUnit true)
  | OReadMap i => let (s', r) := read_map s i in (s', ResR r)
  | OReadUnmap i k => let (s', nt) := read_unmap s i k in (s', ResUnit nt)
  end.
