(* ChanLog.v -- what the invariant means for the byte stream: every reader's hold sits at a log index (idx)
   that only its own unmap advances; slices are the next unread log bytes; empty means drained;
   the writer's region never meets unread bytes; unread cells never change.  (DESIGN 6.1, 6.2) *)
From Coq Require Import ZArith List Bool Lia.
From Ring Require Import ChanModel ChanGhost ChanInv.
Import ListNotations.
Local Open Scope Z_scope.

(* everything but the reader table is unchanged *)
Definition frame_eq (g g' : gst) : Prop :=
  cap (cs g') = cap (cs g) /\ head (cs g') = head (cs g) /\ high (cs g') = high (cs g) /\
  cyc (cs g') = cyc (cs g) /\ mapped (cs g') = mapped (cs g) /\ accepting (cs g') = accepting (cs g) /\
  pend g' = pend g /\ loglen g' = loglen g /\ cell g' = cell g /\ bounds g' = bounds g.

Lemma idx_frame g g' r : frame_eq g g' -> idx g' r = idx g r.
Proof. intros (A & B & C & D & E & F & G & H & J & K). unfold idx. rewrite B, C, D, H. reflexivity. Qed.

(* ------------------------------------------------------------------ committed data under a hold *)
Lemma unread_cells g r o : Inv g -> In r (rds (cs g)) -> unread g r o ->
  exists j, 0 <= j /\ cell g o = Some (idx g r + j) /\ idx g r + j < loglen g.
Proof.
  intros I Hin. pose proof (inv_rd g r I Hin) as (Ho & _ & _). pose proof (i_cur g I) as Ec.
  pose proof (i_head g I) as Hh. unfold unread, idx.
  destruct Ho as [(O1 & O2)|(O1 & O2 & O3 & O4)].
  - rewrite (proj2 (Z.eqb_eq _ _) O1). intros Hu. exists (o - hpos r).
    split; [lia|]. rewrite Ec by lia. split; [f_equal|]; lia.
  - replace (hcyc r =? cyc (cs g)) with false by (symmetry; apply Z.eqb_neq; lia).
    intros [Hu|Hu].
    + exists (o - hpos r). split; [lia|]. rewrite O4 by lia. split; [f_equal|]; lia.
    + exists (high (cs g) - hpos r + o). split; [lia|]. rewrite Ec by lia. split; [f_equal|]; lia.
Qed.

(* the slice a mapped reader holds is exactly the next [avail] unread log bytes *)
Lemma slice_committed g r : Inv g -> In r (rds (cs g)) -> rmapped r = true ->
  0 <= hpos r /\ hpos r + avail r (high (cs g)) <= cap (cs g) /\
  forall j, 0 <= j < avail r (high (cs g)) ->
    unread g r (hpos r + j) /\ cell g (hpos r + j) = Some (idx g r + j).
Proof.
  intros I Hin Hm. pose proof (avail_mapped g r I Hin Hm) as (Hpos & Hav).
  pose proof (inv_rd g r I Hin) as (Ho & _ & _). pose proof (i_cur g I) as Ec.
  pose proof (i_head g I) as Hh. pose proof (i_high g I) as Hhi.
  set (len := avail r (high (cs g))) in *.
  destruct Ho as [(O1 & O2)|(O1 & O2 & O3 & O4)].
  - destruct Hav as [(A1 & A2 & A3 & A4 & A5)|(A1 & A2 & A3 & A4)]; [|lia]. specialize (A4 O1).
    split; [lia|]. split; [lia|]. intros j Hj. unfold unread, idx. rewrite (proj2 (Z.eqb_eq _ _) O1).
    split; [lia|]. rewrite Ec by lia. f_equal; lia.
  - assert (hpos r + len <= high (cs g)).
    { destruct Hav as [(A1 & A2 & A3 & A4 & A5)|(A1 & A2 & A3 & A4)]; [specialize (A5 O1)|]; lia. }
    split; [lia|]. split; [lia|]. intros j Hj. unfold unread, idx.
    replace (hcyc r =? cyc (cs g)) with false by (symmetry; apply Z.eqb_neq; lia).
    split; [left; lia|]. rewrite O4 by lia. f_equal; lia.
Qed.

(* ------------------------------------------------------------------ channel_read_map *)
Definition others_same (g g' : gst) (i : nat) : Prop :=
  forall j, j <> i -> nth_error (rds (cs g')) j = nth_error (rds (cs g)) j.

Lemma set_rds_frame g l : frame_eq g (mkG (set_rds (cs g) l) (pend g) (loglen g) (cell g) (bounds g)).
Proof. unfold frame_eq; simpl; repeat split; reflexivity. Qed.

Lemma read_existing_spec g i r :
  Inv g -> nth_error (rds (cs g)) i = Some r -> rmapped r = false ->
  forall s' rr, read_map (cs g) i = (s', rr) ->
  let g' := mkG s' (pend g) (loglen g) (cell g) (bounds g) in
  frame_eq g g' /\ others_same g g' i /\
  exists r', nth_error (rds (cs g')) i = Some r' /\ idx g' r' = idx g r /\
    0 <= rlen rr /\
    (0 < rlen rr -> rmapped r' = true /\ roff rr = hpos r' /\ avail r' (high (cs g')) = rlen rr) /\
    (rlen rr = 0 -> rmapped r' = false /\ idx g' r' = loglen g').
Proof.
  intros I Hn Hu s' rr. unfold read_map.
  assert (Hlt : Nat.eqb i (length (rds (cs g))) = false).
  { apply Nat.eqb_neq. intros ->. rewrite (proj2 (nth_error_None _ _)) in Hn; [discriminate|lia]. }
  rewrite Hlt, Hn, Hu.
  assert (Hin : In r (rds (cs g))) by (eapply nth_error_In; eauto).
  pose proof (rd_lap g r I Hin) as L. pose proof (i_head g I) as Hh. pose proof (i_high g I) as Hhi.
  assert (OS : forall f, others_same g (mkG (set_rds (cs g) (upd (rds (cs g)) i f)) (pend g) (loglen g) (cell g) (bounds g)) i).
  { intros f j Hj. simpl. apply nth_upd_other. auto. }
  destruct ((hpos r =? head (cs g)) && (hcyc r =? cyc (cs g))) eqn:E1.
  { intros E; inversion E; subst; clear E. simpl.
    apply andb_true_iff in E1. destruct E1 as (E1 & E2). apply Z.eqb_eq in E1. apply Z.eqb_eq in E2.
    split; [unfold frame_eq; simpl; repeat split; reflexivity|]. split; [intros j Hj; reflexivity|].
    exists r. split; [exact Hn|]. unfold idx; simpl. rewrite (proj2 (Z.eqb_eq _ _) E2).
    split; [reflexivity|]. split; [lia|]. split; [lia|]. intros _. split; [exact Hu|lia]. }
  apply andb_false_iff in E1.
  destruct (Z.ltb_spec (hpos r) (head (cs g))) as [E2|E2].
  - assert (Hc : hcyc r = cyc (cs g)) by lia.
    rewrite (proj2 (Z.eqb_eq _ _) Hc). simpl.
    intros E; inversion E; subst; clear E. simpl.
    split; [apply set_rds_frame|]. split; [apply OS|].
    eexists. split; [apply nth_upd_same; exact Hn|]. unfold idx, avail; simpl.
    rewrite (proj2 (Z.eqb_eq _ _) Hc). split; [reflexivity|]. split; [lia|]. split; [|lia].
    intros _. split; [reflexivity|]. split; [reflexivity|].
    replace (head (cs g) =? hpos r) with false by (symmetry; apply Z.eqb_neq; lia). simpl.
    replace (head (cs g) =? 0) with false by (symmetry; apply Z.eqb_neq; lia). reflexivity.
  - assert (Hc : cyc (cs g) = hcyc r + 1).
    { destruct E1 as [E1|E1]; apply Z.eqb_neq in E1; lia. }
    rewrite (proj2 (Z.eqb_eq _ _) Hc). simpl.
    destruct (Z.eqb_spec (high (cs g) - hpos r) 0) as [E3|E3].
    + destruct (Z.ltb_spec 0 (head (cs g))) as [E4|E4];
        intros E; inversion E; subst; clear E; simpl;
        (split; [apply set_rds_frame|]); (split; [apply OS|]);
        (eexists; split; [apply nth_upd_same; exact Hn|]); unfold idx, avail; simpl;
        rewrite Z.eqb_refl; replace (hcyc r =? cyc (cs g)) with false by (symmetry; apply Z.eqb_neq; lia).
      * split; [lia|]. split; [lia|]. split; [|lia]. intros _. split; [reflexivity|]. split; [reflexivity|].
        replace (head (cs g) =? 0) with false by (symmetry; apply Z.eqb_neq; lia). simpl. lia.
      * split; [lia|]. split; [lia|]. split; [lia|]. intros _. split; [reflexivity|]. lia.
    + intros E; inversion E; subst; clear E; simpl.
      split; [apply set_rds_frame|]. split; [apply OS|].
      eexists. split; [apply nth_upd_same; exact Hn|]. unfold idx, avail; simpl.
      split; [reflexivity|]. split; [lia|]. split; [|lia]. intros _. split; [reflexivity|]. split; [reflexivity|].
      replace (hcyc r + 1 =? hcyc r) with false by (symmetry; apply Z.eqb_neq; lia). rewrite andb_false_r. reflexivity.
Qed.

(* full statement for channel_read_map, join included *)
Lemma read_map_spec g i : Inv g -> wf_op g (OReadMap i) ->
  forall g' res, gstep g (OReadMap i) = (g', res) ->
  exists rr, res = ResR rr /\
  frame_eq g g' /\ others_same g g' i /\
  exists r', nth_error (rds (cs g')) i = Some r' /\
    (forall r, nth_error (rds (cs g)) i = Some r -> idx g' r' = idx g r) /\
    (nth_error (rds (cs g)) i = None ->
       idx g' r' = loglen g - head (cs g) /\ In (idx g' r') (bounds g) /\ idx g' r' <= loglen g) /\
    0 <= rlen rr /\
    (0 < rlen rr -> rmapped r' = true /\ roff rr = hpos r' /\ avail r' (high (cs g')) = rlen rr) /\
    (rlen rr = 0 -> rmapped r' = false /\ idx g' r' = loglen g').
Proof.
  intros I (Hle & H8 & Hu) g' res. unfold gstep, step.
  destruct (read_map (cs g) i) as [s' rr] eqn:E. intros G; inversion G; subst g' res; clear G.
  exists rr. split; [reflexivity|].
  destruct (Nat.eqb i (length (rds (cs g)))) eqn:Ej.
  - rewrite read_map_join in E by exact Ej. apply Nat.eqb_eq in Ej.
    pose proof (inv_join g I ltac:(lia)) as I'.
    set (g1 := mkG (join (cs g)) (pend g) (loglen g) (cell g) (bounds g)) in *.
    set (r0 := mkRd 0 (cyc (cs g)) 0 0 false 0).
    assert (Hn : nth_error (rds (cs g1)) i = Some r0).
    { simpl. rewrite nth_error_app2 by lia. rewrite Ej, Nat.sub_diag. reflexivity. }
    destruct (read_existing_spec g1 i r0 I' Hn eq_refl s' rr E) as (F & O & r' & R1 & R2 & R3 & R4 & R5).
    simpl in F, O, R1, R2, R4, R5.
    split; [exact F|]. split.
    { intros j Hj. rewrite (O j Hj). simpl.
      destruct (Nat.lt_ge_cases j (length (rds (cs g)))) as [Hl|Hl].
      - rewrite nth_error_app1 by lia. reflexivity.
      - rewrite (proj2 (nth_error_None _ _)) by (rewrite app_length; simpl; lia).
        symmetry. apply nth_error_None. lia. }
    exists r'. split; [exact R1|].
    assert (Hi0 : idx g1 r0 = loglen g - head (cs g)).
    { unfold idx; simpl. rewrite Z.eqb_refl. lia. }
    split. { intros r Hr. rewrite (proj2 (nth_error_None _ _)) in Hr by lia. discriminate. }
    split. { intros _. rewrite R2, Hi0. pose proof (i_bnd g I) as (_ & B2). pose proof (i_head g I).
             repeat split; auto. lia. }
    split; [exact R3|]. split; [exact R4|]. exact R5.
  - apply Nat.eqb_neq in Ej.
    destruct (nth_error (rds (cs g)) i) as [r|] eqn:Hn; [|apply nth_error_None in Hn; lia].
    destruct (read_existing_spec g i r I Hn (Hu r eq_refl) s' rr E) as (F & O & r' & R1 & R2 & R3 & R4 & R5).
    split; [exact F|]. split; [exact O|]. exists r'. split; [exact R1|].
    split. { intros r1 Hr1. inversion Hr1; subst. exact R2. }
    split. { intros C; discriminate. }
    split; [exact R3|]. split; [exact R4|]. exact R5.
Qed.

(* ------------------------------------------------------------------ channel_read_unmap *)
Lemma read_unmap_spec g i k r : Inv g -> 0 <= k -> nth_error (rds (cs g)) i = Some r -> rmapped r = true ->
  let g' := fst (gstep g (OReadUnmap i k)) in
  frame_eq g g' /\ others_same g g' i /\
  exists r', nth_error (rds (cs g')) i = Some r' /\ rmapped r' = false /\
    idx g' r' = idx g r + Z.min (avail r (high (cs g))) k.
Proof.
  intros I Hk Hn Hm. unfold gstep, step, read_unmap. rewrite Hn, Hm. simpl.
  assert (Hin : In r (rds (cs g))) by (eapply nth_error_In; eauto).
  pose proof (avail_mapped g r I Hin Hm) as (Hpos & Hav).
  pose proof (rd_lap g r I Hin) as L.
  pose proof (i_head g I) as Hh. pose proof (i_high g I) as Hhi.
  set (len := avail r (high (cs g))) in *.
  split; [apply set_rds_frame|]. split; [intros j Hj; simpl; apply nth_upd_other; auto|].
  eexists. split; [apply nth_upd_same; exact Hn|]. split; [reflexivity|].
  set (r1 := if len <=? Z.min len k then set_hold (rpos r) (rcyc r) r else set_hold (hpos r + Z.min len k) (hcyc r) r).
  (* log index of r1, then normalisation keeps it *)
  assert (H1 : (if hcyc r1 =? cyc (cs g) then loglen g - head (cs g) + hpos r1
                else loglen g - head (cs g) - high (cs g) + hpos r1) = idx g r + Z.min len k /\
               ((hcyc r1 = cyc (cs g) /\ 0 <= hpos r1 <= head (cs g)) \/
                (hcyc r1 = cyc (cs g) - 1 /\ head (cs g) <= hpos r1 <= high (cs g)))).
  { unfold r1, idx. destruct (Z.leb_spec len (Z.min len k)) as [Hf|Hf]; simpl.
    - destruct Hav as [(A1 & A2 & A3 & A4 & A5)|(A1 & A2 & A3 & A4)].
      + rewrite A1. destruct L as [(L1 & L2)|(L1 & L2)].
        * rewrite (proj2 (Z.eqb_eq _ _) L1). specialize (A4 L1). lia.
        * replace (hcyc r =? cyc (cs g)) with false by (symmetry; apply Z.eqb_neq; lia). specialize (A5 L1). lia.
      + rewrite A1. replace (hcyc r + 1 =? cyc (cs g)) with true by (symmetry; apply Z.eqb_eq; lia).
        replace (hcyc r =? cyc (cs g)) with false by (symmetry; apply Z.eqb_neq; lia). lia.
    - destruct L as [(L1 & L2)|(L1 & L2)].
      + rewrite (proj2 (Z.eqb_eq _ _) L1).
        destruct Hav as [(A1 & A2 & A3 & A4 & A5)|(A1 & A2 & A3 & A4)]; [specialize (A4 L1)|]; lia.
      + replace (hcyc r =? cyc (cs g)) with false by (symmetry; apply Z.eqb_neq; lia).
        destruct Hav as [(A1 & A2 & A3 & A4 & A5)|(A1 & A2 & A3 & A4)]; [specialize (A5 L1)|]; lia. }
  destruct H1 as (H1 & L1). fold r1.
  unfold idx at 1. simpl.
  destruct ((head (cs g) <? hpos r1) && (hpos r1 =? high (cs g))) eqn:En; simpl.
  - apply andb_true_iff in En. destruct En as (En1 & En2).
    apply Z.ltb_lt in En1. apply Z.eqb_eq in En2.
    destruct L1 as [L1|L1]; [lia|]. destruct L1 as (L1 & L2).
    replace (hcyc r1 + 1 =? cyc (cs g)) with true by (symmetry; apply Z.eqb_eq; lia).
    replace (hcyc r1 =? cyc (cs g)) with false in H1 by (symmetry; apply Z.eqb_neq; lia). lia.
  - exact H1.
Qed.

Lemma read_unmap_unmapped g i k : 
  (forall r, nth_error (rds (cs g)) i = Some r -> rmapped r = false) ->
  cs (fst (gstep g (OReadUnmap i k))) = cs g.
Proof. intros H. unfold gstep, step, read_unmap. destruct (nth_error (rds (cs g)) i) as [r|] eqn:Hn; simpl; auto.
  rewrite (H r eq_refl). reflexivity. Qed.

(* ------------------------------------------------------------------ writer operations *)
Definition writer_op (o : op) : Prop :=
  match o with OReadMap _ | OReadUnmap _ _ => False | _ => True end.

Definition rd_kept (g g' : gst) : Prop :=
  length (rds (cs g')) = length (rds (cs g)) /\
  forall j r, nth_error (rds (cs g)) j = Some r ->
    exists r', nth_error (rds (cs g')) j = Some r' /\ idx g' r' = idx g r /\ rmapped r' = rmapped r /\
      (rmapped r = true -> hpos r' = hpos r /\ avail r' (high (cs g')) = avail r (high (cs g))).

Lemma rd_kept_same g g' :
  rds (cs g') = rds (cs g) -> high (cs g') = high (cs g) ->
  (forall r, idx g' r = idx g r) -> rd_kept g g'.
Proof. intros Hr Hh Hi. split; [rewrite Hr; reflexivity|]. intros j r Hn. exists r.
  rewrite Hr, Hh. repeat split; auto. Qed.

Lemma writer_spec g o : Inv g -> wf_op g o -> writer_op o -> rd_kept g (fst (gstep g o)).
Proof.
  intros I W Hw. destruct o as [n| | |b|i|i k]; try contradiction; clear Hw.
  - (* write_map *)
    destruct W as (Hp & Hn). unfold gstep, step.
    destruct (write_map (cs g) n) as [s' w] eqn:E.
    destruct w as [| | |beg]; simpl;
      try (assert (s' = cs g) by (eapply write_map_keeps; [exact E|intros b; discriminate]); subst s';
           apply rd_kept_same; simpl; auto).
    pose proof (write_map_cases g n s' beg I Hn E) as (Hcap & [(Hs & Hb & Hfit & Hpr)|[(Hs & Hb & Hh & Hall)|(Hs & Hb & Hh & Hall)]]);
      subst s' beg.
    + apply rd_kept_same; simpl; auto.
    + split; [reflexivity|]. intros j r Hj. exists r. simpl. split; [exact Hj|].
      assert (Hin : In r (rds (cs g))) by (eapply nth_error_In; eauto).
      destruct (Hall r Hin) as (Hc & Hge).
      split. { unfold idx; simpl. rewrite (proj2 (Z.eqb_eq _ _) Hc).
               replace (hcyc r =? cyc (cs g) + 1) with false by (symmetry; apply Z.eqb_neq; lia). lia. }
      split; [reflexivity|]. intros Hm. split; [reflexivity|].
      pose proof (avail_mapped g r I Hin Hm) as (_ & [(A1 & A2 & A3 & _)|(A1 & A2 & A3 & A4)]); [|lia].
      unfold avail in *. destruct ((rpos r =? hpos r) && (rcyc r =? hcyc r)); [reflexivity|].
      replace (rpos r =? 0) with false by (symmetry; apply Z.eqb_neq; lia). reflexivity.
    + split; [simpl; rewrite map_length; reflexivity|]. intros j r Hj.
      assert (Hin : In r (rds (cs g))) by (eapply nth_error_In; eauto).
      destruct (Hall r Hin) as (Hc & Hge & Hum).
      eexists. simpl. split; [rewrite nth_error_map, Hj; reflexivity|].
      split. { unfold idx; simpl. rewrite Z.eqb_refl. rewrite (proj2 (Z.eqb_eq _ _) Hc). lia. }
      split; [reflexivity|]. rewrite Hum. discriminate.
  - (* write_unmap *)
    simpl in W. unfold gstep, step, write_unmap. rewrite W. simpl.
    destruct (accepting (cs g)); simpl; apply rd_kept_same; simpl; auto.
    intros r. unfold idx; simpl. destruct (hcyc r =? cyc (cs g)); lia.
  - unfold gstep, step, abort_write. simpl.
    destruct (accepting (cs g)); simpl; apply rd_kept_same; simpl; auto.
  - unfold gstep, step, accept_writes. simpl. apply rd_kept_same; simpl; auto.
Qed.

(* the region handed to the writer *)
Lemma write_map_region g n g' beg : Inv g -> wf_op g (OWriteMap n) ->
  gstep g (OWriteMap n) = (g', ResW (WRegion beg)) ->
  pend g' = true /\ head (cs g') = beg /\ mapped (cs g') = beg + n /\ 0 <= beg /\ beg + n <= cap (cs g') /\
  cap (cs g') = cap (cs g).
Proof.
  intros I (Hp & Hn). unfold gstep, step.
  destruct (write_map (cs g) n) as [s' w] eqn:E.
  destruct w as [| | |b]; intros G; inversion G; subst; clear G. simpl.
  pose proof (i_head g I).
  pose proof (write_map_cases g n s' beg I Hn E) as (Hcap & [(Hs & Hb & Hfit & Hpr)|[(Hs & Hb & Hh & Hall)|(Hs & Hb & Hh & Hall)]]);
    subst s' beg; simpl; repeat split; lia.
Qed.

(* ------------------------------------------------------------------ C02: disjointness and stability *)
Lemma region_disjoint g r o : Inv g -> pend g = true -> In r (rds (cs g)) ->
  head (cs g) <= o < mapped (cs g) -> ~ unread g r o.
Proof.
  intros I Hp Hin Ho. pose proof (inv_rd g r I Hin) as (Hh & _ & _). unfold unread.
  destruct Hh as [(O1 & O2)|(O1 & O2 & O3 & O4)].
  - rewrite (proj2 (Z.eqb_eq _ _) O1). lia.
  - replace (hcyc r =? cyc (cs g)) with false by (symmetry; apply Z.eqb_neq; lia). specialize (O3 Hp). lia.
Qed.

Lemma unread_stable g o r x : Inv g -> wf_op g o -> In r (rds (cs g)) -> unread g r x ->
  cell (fst (gstep g o)) x = cell g x.
Proof.
  intros I W Hin Hu. destruct o as [n| | |b|i|i k].
  - destruct W as (Hp & Hn). unfold gstep, step.
    destruct (write_map (cs g) n) as [s' w] eqn:E.
    destruct w as [| | |beg]; simpl; auto.
    pose proof (inv_rd g r I Hin) as (Hh & _ & _). unfold unread in Hu.
    pose proof (write_map_cases g n s' beg I Hn E) as (Hcap & [(Hs & Hb & Hfit & Hpr)|[(Hs & Hb & Hh' & Hall)|(Hs & Hb & Hh' & Hall)]]);
      subst s' beg; apply fill_out.
    + destruct Hh as [(O1 & O2)|(O1 & O2 & O3 & O4)].
      * rewrite (proj2 (Z.eqb_eq _ _) O1) in Hu. lia.
      * replace (hcyc r =? cyc (cs g)) with false in Hu by (symmetry; apply Z.eqb_neq; lia).
        pose proof (Hpr r Hin O1). lia.
    + destruct (Hall r Hin) as (Hc & Hge). rewrite (proj2 (Z.eqb_eq _ _) Hc) in Hu. lia.
    + destruct (Hall r Hin) as (Hc & Hge & _). rewrite (proj2 (Z.eqb_eq _ _) Hc) in Hu. lia.
  - simpl in W. unfold gstep, step. rewrite W. simpl.
    destruct (accepting (cs g)); simpl; auto.
    apply fill_out. intros C. eapply (region_disjoint g r x I W Hin); [|exact Hu]. lia.
  - reflexivity.
  - reflexivity.
  - unfold gstep, step. destruct (read_map (cs g) i). reflexivity.
  - unfold gstep, step. destruct (read_unmap (cs g) i k). reflexivity.
Qed.

(* ------------------------------------------------------------------ how far one read reaches (for the drain bound) *)
Lemma read_existing_lap g i r :
  Inv g -> nth_error (rds (cs g)) i = Some r -> rmapped r = false ->
  forall s' rr, read_map (cs g) i = (s', rr) ->
  idx g r + rlen rr = loglen g \/ (idx g r + rlen rr = loglen g - head (cs g) /\ 0 < rlen rr).
Proof.
  intros I Hn Hu s' rr. unfold read_map.
  assert (Hlt : Nat.eqb i (length (rds (cs g))) = false).
  { apply Nat.eqb_neq. intros ->. rewrite (proj2 (nth_error_None _ _)) in Hn; [discriminate|lia]. }
  rewrite Hlt, Hn, Hu.
  assert (Hin : In r (rds (cs g))) by (eapply nth_error_In; eauto).
  pose proof (rd_lap g r I Hin) as L. pose proof (i_head g I) as Hh. pose proof (i_high g I) as Hhi.
  unfold idx.
  destruct ((hpos r =? head (cs g)) && (hcyc r =? cyc (cs g))) eqn:E1.
  { intros E; inversion E; subst; clear E. simpl.
    apply andb_true_iff in E1. destruct E1 as (E1 & E2). apply Z.eqb_eq in E1. rewrite E2. left. lia. }
  apply andb_false_iff in E1.
  destruct (Z.ltb_spec (hpos r) (head (cs g))) as [E2|E2].
  - assert (Hc : hcyc r = cyc (cs g)) by lia.
    rewrite (proj2 (Z.eqb_eq _ _) Hc). simpl. intros E; inversion E; subst; clear E. simpl. left. lia.
  - assert (Hc : cyc (cs g) = hcyc r + 1).
    { destruct E1 as [E1|E1]; apply Z.eqb_neq in E1; lia. }
    rewrite (proj2 (Z.eqb_eq _ _) Hc).
    replace (hcyc r =? cyc (cs g)) with false by (symmetry; apply Z.eqb_neq; lia). simpl.
    destruct (Z.eqb_spec (high (cs g) - hpos r) 0) as [E3|E3].
    + destruct (Z.ltb_spec 0 (head (cs g))) as [E4|E4]; intros E; inversion E; subst; clear E; simpl; left; lia.
    + intros E; inversion E; subst; clear E; simpl. right. lia.
Qed.
