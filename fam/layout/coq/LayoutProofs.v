(* LayoutProofs.v -- facts about the pure layout model (Layout.v): size field, iterator, split, sink. *)
From Coq Require Import ZArith List Bool Lia ZifyBool.
From Ring Require Import Layout.
Import ListNotations.
Local Open Scope Z_scope.

(* ------------------------------------------------------------------ specification vocabulary *)
(* the memory holds the packet [fs] from [beg] on: the size field of each header is its frame's size *)
Fixpoint holds_packet (m : Z -> Z) (beg : Z) (fs : list Z) : Prop :=
  match fs with [] => True | n :: l => m beg = n /\ holds_packet m (beg + n) l end.

Definition all_pos (fs : list Z) : Prop := Forall (fun n => 0 < n) fs.

(* ------------------------------------------------------------------ align8 / sizes *)
Lemma align8_add_hdr x : align8 (hdr + x) = hdr + align8 x.
Proof. unfold align8, hdr. replace (96 + x + 7) with (x + 7 + 12 * 8) by lia.
  rewrite Z.div_add by lia. lia. Qed.

Lemma align8_divide x : (8 | align8 x).
Proof. exists ((x + 7) / 8). unfold align8. lia. Qed.

Lemma align8_bounds x : x <= align8 x < x + 8.
Proof. unfold align8. pose proof (Z.div_mod (x + 7) 8 ltac:(lia)).
  pose proof (Z.mod_pos_bound (x + 7) 8 ltac:(lia)). lia. Qed.

Lemma align8_least x y : (8 | y) -> x <= y -> align8 x <= y.
Proof. intros [k ->] H. unfold align8.
  assert ((x + 7) / 8 <= k); [|lia].
  apply Z.lt_succ_r. apply Z.div_lt_upper_bound; lia. Qed.

Lemma bytes_of_type_cases t :
  bytes_of_type t = 0 \/ bytes_of_type t = 1 \/ bytes_of_type t = 2 \/ bytes_of_type t = 4.
Proof. unfold bytes_of_type. destruct ((t <? 0) || (Z.of_nat (length type_table) <=? t)) eqn:E; [auto|].
  simpl in E. assert (H : 0 <= t < 8) by lia.
  assert (C : t = 0 \/ t = 1 \/ t = 2 \/ t = 3 \/ t = 4 \/ t = 5 \/ t = 6 \/ t = 7) by lia.
  destruct C as [->|[->|[->|[->|[->|[->|[->| ->]]]]]]]; vm_compute; auto. Qed.

Lemma bytes_of_type_nonneg t : 0 <= bytes_of_type t.
Proof. destruct (bytes_of_type_cases t) as [H|[H|[H|H]]]; rewrite H; lia. Qed.

Lemma bytes_of_type_unknown t : t < 0 \/ 8 <= t -> bytes_of_type t = 0.
Proof. intros H. unfold bytes_of_type. simpl length.
  destruct ((t <? 0) || (Z.of_nat 8 <=? t)) eqn:E; [reflexivity|]. lia. Qed.

Lemma size_field sh :
  frame_size sh = 96 + align8 (bytes_of_image sh) /\ (8 | frame_size sh) /\
  source_nbytes sh = frame_size sh /\
  filter_nbytes sh = frame_size (with_type sh SampleType_f32) /\
  bytes_of_image sh <= align8 (bytes_of_image sh) < bytes_of_image sh + 8.
Proof. split; [apply align8_add_hdr|]. split; [apply align8_divide|].
  split; [reflexivity|]. split; [|apply align8_bounds].
  unfold filter_nbytes, frame_size, align8. cbv zeta. f_equal. f_equal. lia. Qed.

Lemma frame_size_lower sh : 0 <= s_planes sh -> 96 <= frame_size sh.
Proof. intros H. destruct (size_field sh) as (E & _ & _ & _ & B). rewrite E.
  assert (0 <= bytes_of_image sh).
  { unfold bytes_of_image. pose proof (bytes_of_type_nonneg (stype sh)). nia. }
  lia. Qed.

(* ------------------------------------------------------------------ packets *)
Lemma total_nonneg fs : all_pos fs -> 0 <= total fs.
Proof. induction 1; simpl; lia. Qed.

Lemma total_app a b : total (a ++ b) = total a + total b.
Proof. induction a; simpl; lia. Qed.

Lemma total_firstn_le fs j : all_pos fs -> 0 <= total (firstn j fs) <= total fs.
Proof. intros H. revert j. induction H as [|n l Hn Hl IH]; intros [|j]; simpl; try lia.
  - pose proof (total_nonneg l Hl). lia.
  - specialize (IH j). lia. Qed.

Lemma holds_packet_firstn m b fs j : holds_packet m b fs -> holds_packet m b (firstn j fs).
Proof. revert b j. induction fs as [|n l IH]; intros b [|j]; simpl; auto.
  intros (H1 & H2). split; auto. Qed.

Lemma holds_packet_ext m m' b fs :
  (forall a, In a (offsets b fs) -> m' a = m a) -> holds_packet m b fs -> holds_packet m' b fs.
Proof. revert b. induction fs as [|n l IH]; intros b; simpl; auto.
  intros H (H1 & H2). split; [rewrite H; auto|]. apply IH; auto. Qed.

Lemma offsets_ge b fs a : all_pos fs -> In a (offsets b fs) -> b <= a.
Proof. intros H. revert b. induction H as [|n l Hn Hl IH]; intros b; simpl; [tauto|].
  intros [<-|Hin]; [lia|]. specialize (IH _ Hin). lia. Qed.

Lemma store_packet_other m b fs a : all_pos fs -> a < b -> store_packet m b fs a = m a.
Proof. intros H. revert m b. induction H as [|n l Hn Hl IH]; intros m b Hlt; simpl; auto.
  rewrite IH by lia. unfold put. destruct (Z.eqb_spec a b); [lia|reflexivity]. Qed.

(* writing the headers of a packet makes the memory hold it (frames do not overlap: sizes > 0) *)
Lemma store_packet_holds m b fs : all_pos fs -> holds_packet (store_packet m b fs) b fs.
Proof. intros H. revert m b. induction H as [|n l Hn Hl IH]; intros m b; simpl; auto.
  split; [|apply IH]. rewrite store_packet_other by (auto; lia). unfold put. rewrite Z.eqb_refl. reflexivity. Qed.

(* ------------------------------------------------------------------ frame_iterator_next *)
(* iterating a slice that holds whole frames visits exactly their headers and stops exactly at the end *)
Lemma iter_exact m fs : forall b,
  0 < b -> all_pos fs -> holds_packet m b fs ->
  iter_all (S (length fs)) m (mkIt b (b + total fs)) = (offsets b fs, Some (b + total fs)).
Proof.
  induction fs as [|n l IH]; intros b Hb Hp Hh.
  - simpl. unfold iter_next. simpl.
    replace (b =? 0) with false by lia. replace (b + 0 <=? b) with true by lia. simpl.
    f_equal. f_equal. lia.
  - inversion Hp as [|? ? Hn Hl]; subst. destruct Hh as (Hm & Hh).
    pose proof (total_nonneg l Hl) as Ht.
    change (iter_all (S (length (n :: l))) m (mkIt b (b + total (n :: l))))
      with (match iter_next m (mkIt b (b + total (n :: l))) with
            | (_, None) => ([], Some b)
            | (s', Some a) => let (l0, e) := iter_all (S (length l)) m s' in (a :: l0, e)
            end).
    unfold iter_next. cbn [ibeg iend total].
    replace (b =? 0) with false by lia. replace (b + (n + total l) <=? b) with false by lia.
    cbn [orb]. rewrite Hm.
    replace (b + (n + total l)) with (b + n + total l) by lia.
    rewrite (IH (b + n)) by (auto; lia). reflexivity.
Qed.

(* the iterator also refuses the empty and the null slice *)
Lemma iter_empty m b e fuel : b = 0 \/ e <= b -> iter_all (S fuel) m (mkIt b e) = ([], Some b).
Proof. intros H. simpl. unfold iter_next. simpl.
  destruct ((b =? 0) || (e <=? b)) eqn:E; [reflexivity|]. lia. Qed.

(* ------------------------------------------------------------------ vfslice_split_at_delay_ms *)
Lemma split_loop_exact m ts brk fs : forall b,
  all_pos fs -> holds_packet m b fs ->
  exists j, (j <= length fs)%nat /\
    split_loop (S (length fs)) m ts brk b (b + total fs) = Some (b + total (firstn j fs)) /\
    (forall i, (i < j)%nat -> brk (ts (nth i (offsets b fs) 0)) = false) /\
    ((j < length fs)%nat -> brk (ts (b + total (firstn j fs))) = true).
Proof.
  induction fs as [|n l IH]; intros b Hp Hh.
  - exists O. simpl. replace (b <? b + 0) with false by lia.
    repeat split; auto; try lia. f_equal; lia.
  - inversion Hp as [|? ? Hn Hl]; subst. destruct Hh as (Hm & Hh).
    pose proof (total_nonneg l Hl) as Ht.
    change (split_loop (S (length (n :: l))) m ts brk b (b + total (n :: l)))
      with (if b <? b + total (n :: l) then
              if brk (ts b) then Some b
              else split_loop (S (length l)) m ts brk (b + m b) (b + total (n :: l))
            else Some b).
    cbn [total]. replace (b <? b + (n + total l)) with true by lia.
    destruct (brk (ts b)) eqn:Eb.
    + exists O. cbn [firstn total]. rewrite Z.add_0_r. repeat split; auto; try lia.
    + rewrite Hm. replace (b + (n + total l)) with (b + n + total l) by lia.
      destruct (IH (b + n) Hl Hh) as (j & J1 & J2 & J3 & J4).
      exists (S j). cbn [length firstn total offsets]. split; [lia|]. split.
      { rewrite J2. f_equal. lia. }
      split.
      { intros [|i] Hi; cbn [nth]; [exact Eb|]. apply J3. lia. }
      intros Hj. replace (b + (n + total (firstn j l))) with (b + n + total (firstn j l)) by lia.
      apply J4. lia.
Qed.

(* split returns (p, end) where p is reached from beg by j whole-frame steps: p is the header of the first
   frame for which the clock comparison holds, or the end when there is none / the delay is (almost) zero *)
Lemma split_boundary m ts (brk : Z -> bool) small fs b :
  all_pos fs -> holds_packet m b fs ->
  exists j, (j <= length fs)%nat /\
    split (S (length fs)) m ts brk small b (b + total fs) = Some (b + total (firstn j fs), b + total fs) /\
    (small = false -> (forall i, (i < j)%nat -> brk (ts (nth i (offsets b fs) 0)) = false) /\
                      ((j < length fs)%nat -> brk (ts (b + total (firstn j fs))) = true)) /\
    (small = true -> j = length fs).
Proof.
  intros Hp Hh. pose proof (total_nonneg fs Hp) as Ht. unfold split.
  destruct (Z.leb_spec (b + total fs) b) as [He|He].
  - (* empty slice: only when there is no frame *)
    assert (fs = []) as ->.
    { destruct fs as [|n l]; auto. inversion Hp; subst. pose proof (total_nonneg l H2). simpl in He. lia. }
    exists O. simpl. split; [lia|]. split; [f_equal; f_equal; lia|]. split; [|auto].
    intros _. split; intros; lia.
  - destruct small.
    + exists (length fs). rewrite firstn_all. split; [lia|]. split; [reflexivity|]. split; [discriminate|auto].
    + destruct (split_loop_exact m ts brk fs b Hp Hh) as (j & J1 & J2 & J3 & J4).
      exists j. rewrite J2. split; [exact J1|]. split; [reflexivity|]. split; [auto|discriminate].
Qed.

(* the sink: what it appends is a whole-frame prefix of the slice, what it consumes is that prefix's size *)
Lemma sink_step_whole m ts (brk : Z -> bool) small fs b :
  all_pos fs -> holds_packet m b fs ->
  exists j, (j <= length fs)%nat /\
    sink_step (S (length fs)) m ts brk small b (b + total fs)
      = Some (b, b + total (firstn j fs), total (firstn j fs)) /\
    holds_packet m b (firstn j fs) /\
    0 <= total (firstn j fs) <= total fs.
Proof.
  intros Hp Hh. destruct (split_boundary m ts brk small fs b Hp Hh) as (j & J1 & J2 & _).
  exists j. unfold sink_step. rewrite J2. split; [exact J1|]. split; [f_equal; f_equal; lia|].
  split; [apply holds_packet_firstn; exact Hh|apply total_firstn_le; exact Hp].
Qed.
