From Coq Require Import ZArith List Bool.
From Coq Require Import ExtrOcamlBasic.
From Ring Require Import ChanModel ChanGhost Layout RingFrames.
Extraction Language OCaml.
Extraction "layoutmodel.ml" hdr align8 bytes_of_type bytes_of_image frame_size source_nbytes filter_nbytes packed with_type
  total offsets put store_packet iter_next iter_all split sink_step sink_flush
  ginit gstep idx wf_opb field hdr_mem hist_okb frame_hist_opb al_opb.
