(* RingFrames.v -- vocabulary that ties the frame layout (Layout.v) to the ring model of fam/ring
   (ChanModel.v = channel.c field by field, ChanGhost.v = log-index ghost state).  Definitions only.

   The content of a ring is the C01 log; every committed write is one frame: the source (source.c:64-87)
   and the filter (filter.c:115-121) map exactly the number of bytes they then store in
   VideoFrame.bytes_of_frame.  [bounds g] (ChanGhost) lists the log length after every commit, newest
   first, ending with 0: consecutive entries delimit the committed frames. *)
From Coq Require Import ZArith List Bool.
From Ring Require Import ChanModel ChanGhost Layout.
Import ListNotations.
Local Open Scope Z_scope.

(* ------------------------------------------------------------------ histories with side conditions *)
(* every operation of the history satisfies Q in the state in which it is executed *)
Fixpoint hist_ok (Q : gst -> op -> Prop) (g : gst) (ops : list op) : Prop :=
  match ops with
  | [] => True
  | o :: ops' => Q g o /\ hist_ok Q (fst (gstep g o)) ops'
  end.

(* ------------------------------------------------------------------ alignment *)
(* write sizes are multiples of 8; a reader consumes a multiple of 8 or its whole slice *)
Definition al_op (g : gst) (o : op) : Prop :=
  match o with
  | OWriteMap n => (8 | n)
  | OReadUnmap i k =>
      (8 | k) \/ forall r, nth_error (rds (cs g)) i = Some r -> rmapped r = true -> avail r (high (cs g)) <= k
  | _ => True
  end.

(* the same, not looking at the state: "everything" is any count >= the capacity *)
Definition al_op_static (c : Z) (o : op) : Prop :=
  match o with
  | OWriteMap n => (8 | n)
  | OReadUnmap _ k => (8 | k) \/ c <= k
  | _ => True
  end.

(* every position the channel keeps is a multiple of 8 *)
Definition aligned (g : gst) : Prop :=
  (8 | head (cs g)) /\ (8 | high (cs g)) /\ (8 | mapped (cs g)) /\
  Forall (fun r => (8 | hpos r) /\ (8 | rpos r)) (rds (cs g)).

(* ------------------------------------------------------------------ frames of the log *)
(* the sizes the source / the filter write: the size field of some shape with a non-negative plane stride *)
Definition is_frame_size (n : Z) : Prop := exists sh, 0 <= s_planes sh /\ n = frame_size sh.

Definition frame_write (o : op) : Prop :=
  match o with OWriteMap n => is_frame_size n | _ => True end.

(* b is the write boundary that follows a: [a,b) is one committed frame of the log *)
Definition consec (bs : list Z) (a b : Z) : Prop := exists l1 l2, bs = l1 ++ b :: a :: l2.

(* [fs] are the sizes of the consecutive committed frames starting at log index a *)
Fixpoint chain (bs : list Z) (a : Z) (fs : list Z) : Prop :=
  match fs with [] => True | n :: l => consec bs a (a + n) /\ chain bs (a + n) l end.

(* size of the committed frame that starts at log index a *)
Fixpoint size_at (bs : list Z) (a : Z) : option Z :=
  match bs with
  | [] => None
  | b :: tl =>
      match tl with
      | [] => None
      | a' :: _ => if a' =? a then Some (b - a) else size_at tl a
      end
  end.

(* the bytes_of_frame field found at ring offset o: the ring cell holds log byte a (ChanGhost.cell), and a
   header written at log index a carries the size of the write that started there *)
Definition field (g : gst) (o : Z) : option Z :=
  match cell g o with Some a => size_at (bounds g) a | None => None end.

(* the same as a memory of size fields over addresses, the ring buffer being at address [base] *)
Definition hdr_mem (g : gst) (base : Z) : Z -> Z :=
  fun addr => match field g (addr - base) with Some n => n | None => 0 end.

(* a reader consumes its whole slice, or a count that leads to a write boundary of the log
   (= the sum of the sizes of leading frames of its slice: RingFramesProofs.whole_count_iff) *)
Definition whole_unmap (g : gst) (o : op) : Prop :=
  match o with
  | OReadUnmap i k =>
      forall r, nth_error (rds (cs g)) i = Some r -> rmapped r = true ->
        avail r (high (cs g)) <= k \/ In (idx g r + k) (bounds g)
  | _ => True
  end.

Definition frame_hist_op (g : gst) (o : op) : Prop := frame_write o /\ whole_unmap g o.

(* ------------------------------------------------------------------ boolean checkers of the side conditions
   (used by the Examples of Properties_C05 and by the oracle; sound by C05Theorems.hist_okb_sound) *)
Fixpoint hist_okb (q : gst -> op -> bool) (g : gst) (ops : list op) : bool :=
  match ops with
  | [] => true
  | o :: ops' => q g o && hist_okb q (fst (gstep g o)) ops'
  end.

Definition frame_writeb (cands : list shape) (o : op) : bool :=
  match o with
  | OWriteMap n => existsb (fun sh => (0 <=? s_planes sh) && (n =? frame_size sh)) cands
  | _ => true
  end.

Definition whole_unmapb (g : gst) (o : op) : bool :=
  match o with
  | OReadUnmap i k =>
      match nth_error (rds (cs g)) i with
      | Some r => if rmapped r
                  then (avail r (high (cs g)) <=? k) || existsb (Z.eqb (idx g r + k)) (bounds g)
                  else true
      | None => true
      end
  | _ => true
  end.

Definition frame_hist_opb (cands : list shape) (g : gst) (o : op) : bool :=
  frame_writeb cands o && whole_unmapb g o.

Definition al_opb (g : gst) (o : op) : bool :=
  match o with
  | OWriteMap n => n mod 8 =? 0
  | OReadUnmap i k =>
      (k mod 8 =? 0) ||
      match nth_error (rds (cs g)) i with
      | Some r => if rmapped r then avail r (high (cs g)) <=? k else true
      | None => true
      end
  | _ => true
  end.
