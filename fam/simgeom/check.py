"""SimGeom family: C17 (simulated cameras are memory-safe and honour the shape they report).  DESIGN 6.17.

prove -> build -> corpus -> correspond (extent/alignment probes, set/get histories, whole-camera histories under ASan
with a real streamer thread incl. re-configuration sequences, native runs) -> independent property oracle -> search step
for allocation-log disagreements (extend with start; frame; stop, run under ASan) -> violations with minimised, re-verified replay.
"""
import os
import re

import vlib

SIM = "acquire-driver-common/src/simcams"
CL = "acquire-core-libs/src"
MAXDIM = 8192
BPP = {0: 1, 1: 2, 2: 1, 3: 2, 4: 4, 5: 2, 6: 2, 7: 2}
TYPES = list(range(8))
PATTERN_TYPES = [0, 1, 2, 3, 4]
KINDS = [0, 1, 2]
BOUNDARY = [1, 2, 3, 4, 5, 7, 8, 15, 16, 17, 31, 32, 33, 63, 64, 65, 95, 96, 97, 127, 128, 129, 255, 256, 257,
            511, 512, 513, 1023, 1024, 1025, 2047, 2048, 2049, 4095, 4096, 4097, 8191, 8192]
SAN_ENV = {"ASAN_OPTIONS": "detect_leaks=0:abort_on_error=0:exitcode=66:allocator_may_return_null=1",
           "UBSAN_OPTIONS": "print_stacktrace=1"}


# ----------------------------------------------------------------------------- build
def build(ctx):
    orac = ctx.oracle_build()
    here = os.path.join(ctx.famdir, "harness")
    R = vlib.REPO
    inc = ["-I" + os.path.join(R, SIM), "-I" + os.path.join(R, SIM, "3rdParty/pcg-c-basic-0.9"),
           "-I" + os.path.join(R, CL, "acquire-device-kit"), "-I" + os.path.join(R, CL, "acquire-device-properties"),
           "-I" + os.path.join(R, CL, "acquire-core-platform/linux"), "-I" + os.path.join(R, CL, "acquire-core-logger"),
           "-I" + os.path.join(R, "acquire-driver-common/src")]
    srcs = [os.path.join(here, "h_simgeom.c"), SIM + "/imfill.pattern.cpp", SIM + "/popcount.cpp",
            SIM + "/3rdParty/pcg-c-basic-0.9/pcg_basic.c", CL + "/acquire-device-properties/device/props/components.c",
            CL + "/acquire-core-platform/linux/platform.c", CL + "/acquire-core-logger/logger.c"]
    impl = ctx.cc(srcs, "h_simgeom", flags=inc)
    native = ctx.cc(srcs, "h_simgeom_native", flags=inc + ["-DVH_NATIVE"], asan=False, opt="-O2")
    return orac, impl, native


# ----------------------------------------------------------------------------- runners
def run_lines(cmd, ops, timeout=300, env=None):
    rc, o, e = vlib.sh(cmd, inp="\n".join(ops) + "\n", timeout=timeout, env=env)
    lines = o.split("\n")
    if lines and lines[-1] == "":
        lines.pop()
    return rc, lines, e


def classify_crash(rc, err):
    """Stable classifier of an abnormal end of the implementation process."""
    err = err or ""
    if "misaligned address" in err:
        return "misaligned-access"
    m = re.search(r"AddressSanitizer: ([\w-]+)", err)
    if m:
        k = m.group(1)
        if k == "unknown-crash" and "to the right of" in err:
            k = "heap-buffer-overflow"
        if k == "attempting":
            k = "double-free"
        return k
    if "runtime error:" in err:
        return "ubsan-" + re.sub(r"[^a-z]+", "-", err.split("runtime error:")[1].split("\n")[0].strip().lower())[:40]
    if rc == 124:
        return "hang"
    if rc in (-11, 139):
        return "sigsegv"
    if rc in (-6, 134):
        return "abort"
    return "exit-%s" % rc


def is_memory_error(key):
    """Only sanitizer reports and fatal signals are C17 violations; a time-out, a truncated output or a harness exit code
    are failures of the correspondence run (reported as a broken tie), not statements about memory safety."""
    return not (key in ("hang", "not-run", "truncated-output") or key.startswith("exit-"))


def crash_summary(err):
    err = err or ""
    keep = []
    for l in err.split("\n"):
        if "ERROR: AddressSanitizer" in l or "runtime error" in l or re.match(r"\s*#[0-3] ", l) or "is located" in l or l.startswith(("READ", "WRITE")):
            keep.append(re.sub(r"0x[0-9a-f]+", "0x..", l.strip()))
        if len(keep) >= 8:
            break
    return " / ".join(keep)[:900]


def run_histories(exe, hists, env=None, timeout=600):
    """Run histories (each starts with 'new', ends with 'close') in as few processes as possible.  Returns one record per
    history: dict(out=[lines], crash=None|key, err=str).  When the process dies inside history i the remaining histories
    are run in a fresh process."""
    res = [None] * len(hists)
    start = 0
    while start < len(hists):
        flat = [o for h in hists[start:] for o in h]
        rc, lines, err = run_lines([exe, "seq"], flat, timeout=timeout, env=env)
        pos = 0
        i = start
        while i < len(hists) and pos + len(hists[i]) <= len(lines):
            res[i] = {"out": lines[pos:pos + len(hists[i])], "crash": None, "err": ""}
            pos += len(hists[i])
            i += 1
        if i == len(hists):
            if rc != 0:      # every line is there but the process did not end normally: blame the last history
                res[i - 1]["crash"] = classify_crash(rc, err)
                res[i - 1]["err"] = (err or "")[-6000:]
            break
        res[i] = {"out": lines[pos:], "crash": classify_crash(rc, err) if rc != 0 else "truncated-output", "err": (err or "")[-6000:]}
        start = i + 1
    return res


# ----------------------------------------------------------------------------- independent property oracle
def clamp(v, lo, hi):
    return lo if v < lo else hi if v > hi else v


def kv(line):
    return dict(m.groups() for m in re.finditer(r"(\w+)=(-?\w+)", line))


def parse_shape(txt):
    parts = [p.split() for p in txt.split("|")]
    return [int(x) for x in parts[0]], [int(x) for x in parts[1]], int(parts[2][0])


def oracle(ops, rec):
    """C17 stated directly over the implementation's outputs; expectations are computed from the op INPUTS in Python
    (never through the model).  Returns a list of (key, message, op index)."""
    v = []
    out = rec["out"]
    exp = None
    running = False
    configured = False
    for k, (op, line) in enumerate(zip(ops, out)):
        w = op.split()
        f = kv(line)
        if "DOUBLEFREE" in line or "DEAD" in line:
            v.append(("double-free", "op %d (%s): the camera freed or reallocated a block that was not live: %s" % (k, op, line), k))
            return v
        if w[0] == "new":
            exp = {"exp": 10000, "b": 1, "type": 0, "ox": 0, "oy": 0, "w": 1920, "h": 1080}
            running = False
            configured = False
        elif w[0] == "set":
            b, t, rw, rh, ox, oy, ex = [int(x) for x in w[1:8]]
            b8 = (b % 256) or 1
            if f.get("rc") == "0":
                lim = MAXDIM // b8
                exp = {"exp": ex, "b": b8, "type": t, "ox": ox % 2 ** 32, "oy": oy % 2 ** 32,
                       "w": clamp(rw % 2 ** 32, 1, lim), "h": clamp(rh % 2 ** 32, 1, lim)}
                configured = True
        elif w[0] == "get":
            got = {x: int(f[x]) for x in ("exp", "b", "type", "ox", "oy", "w", "h") if x in f}
            if f.get("rc") != "0" or got != exp:
                v.append(("get-mismatch", "op %d: get returned %s but the values in effect (clamp of the last accepted set) are %s" % (k, got, exp), k))
                return v
        elif w[0] == "shape":
            try:
                d, s, t = parse_shape(line.split(" ", 2)[2])
            except Exception:
                v.append(("shape-mismatch", "op %d: unreadable shape line %r" % (k, line), k))
                return v
            if d != [1, exp["w"], exp["h"], 1] or s != [1, 1, exp["w"], exp["w"] * exp["h"]] or t != exp["type"]:
                v.append(("shape-mismatch", "op %d: reported dims %s strides %s type %d; expected dims %s strides %s type %d"
                          % (k, d, s, t, [1, exp["w"], exp["h"], 1], [1, 1, exp["w"], exp["w"] * exp["h"]], exp["type"]), k))
                return v
        elif w[0] == "meta":
            if int(f.get("whi", -1)) != MAXDIM // exp["b"] or int(f.get("hhi", -1)) != MAXDIM // exp["b"] or f.get("wlo") != "1":
                v.append(("meta-mismatch", "op %d: limits %s for binning %d" % (k, line, exp["b"]), k))
        elif w[0] == "start":
            if f.get("rc") != "0":
                v.append(("start-failed", "op %d: start failed" % k, k))
            running = True
        elif w[0] == "stop":
            running = False
        elif w[0] == "frame":
            n = exp["w"] * exp["h"] * BPP.get(exp["type"], 0)
            if running and configured:
                # written/prefix are exact only when the harness saw the copy-out (one memcpy into the caller's buffer);
                # otherwise only "nothing beyond n bytes changed" is decidable from outside
                if f.get("copies") == "1":
                    ok = f.get("rc") == "0" and int(f.get("written", -1)) == n and f.get("tail") == "0" and f.get("prefix") == "1"
                else:
                    ok = f.get("rc") == "0" and 0 <= int(f.get("written", -1)) <= n and f.get("tail") == "0"
                if ok:
                    try:
                        d, s, t = parse_shape(line.split(" | ", 1)[1])
                        ok = d == [1, exp["w"], exp["h"], 1] and s == [1, 1, exp["w"], exp["w"] * exp["h"]] and t == exp["type"]
                    except Exception:
                        ok = False
                if not ok:
                    v.append(("copy-mismatch", "op %d: get_frame must fill exactly %d bytes (= %d x %d x %d) of the caller's buffer with the "
                              "published image and report the shape in effect; observed: %s" % (k, n, exp["w"], exp["h"], BPP.get(exp["type"], 0), line), k))
                    return v
            else:
                if f.get("rc") != "1" or f.get("written") != "0":
                    v.append(("copy-mismatch", "op %d: get_frame on a stopped camera must fail and write nothing: %s" % (k, line), k))
                    return v
        elif w[0] == "frameshort":
            if f.get("rc") != "1" or f.get("written") != "0":
                v.append(("copy-mismatch", "op %d: get_frame with a buffer one byte too small must fail and write nothing: %s" % (k, line), k))
                return v
    if rec["crash"] and is_memory_error(rec["crash"]):
        k = len(out)
        at = ops[k - 1] if 0 < k <= len(ops) else "?"
        v.append((rec["crash"], "memory-safety: the camera process ended with a sanitizer report / signal (%s) around op %d (%s): %s"
                  % (rec["crash"], k - 1, at, crash_summary(rec["err"])), k))
    return v


# ----------------------------------------------------------------------------- generators
def pick_dim(rng, maxv):
    c = [b for b in BOUNDARY if b <= maxv]
    if rng.random() < 0.65:
        return rng.choice(c)
    return rng.randint(1, maxv)


def pick_cfg(rng, cap_pixels, kind=None, t=None, b=None, small_exposure=True):
    """A configuration whose FULL-RESOLUTION image has at most cap_pixels samples.  Returns the set-op text."""
    if b is None:
        r = rng.random()
        b = rng.choice([1, 2, 4, 8]) if r < 0.8 else rng.choice([0, 16, 32, 64, 128])
    if t is None:
        t = rng.choice(TYPES)
    b8 = b or 1
    maxd = MAXDIM // b8
    w = pick_dim(rng, maxd)
    maxh = min(maxd, max(1, cap_pixels // (b8 * b8 * w)))
    h = pick_dim(rng, maxh)
    if rng.random() < 0.5 and h * b8 * b8 * w <= cap_pixels:
        w, h = h, w
    rw, rh = w, h
    if w == maxd and rng.random() < 0.6:
        rw = rng.choice([maxd + 1, 9000, 65535, 2 ** 32 - 1])
    if h == maxd and rng.random() < 0.6:
        rh = rng.choice([maxd + 1, 9000, 65535, 2 ** 32 - 1])
    if w == 1 and rng.random() < 0.3:
        rw = 0
    if h == 1 and rng.random() < 0.3:
        rh = 0
    ox = rng.choice([0, 0, 1, 5, 100, 8191, 2 ** 32 - 1])
    oy = rng.choice([0, 0, 1, 7, 640, 8191, 2 ** 32 - 1])
    ex = rng.choice([0, 1, 100, 999, 1000, 2500]) if small_exposure else rng.choice([0, 1, 1000, 10000, 1000000, 16777215])
    return "set %d %d %d %d %d %d %d" % (b, t, rw, rh, ox, oy, ex)


def bad_set(rng):
    b = rng.choice([3, 5, 6, 7, 9, 10, 12, 24, 100, 129, 255])
    return "set %d %d %d %d 0 0 1000" % (b, rng.choice(TYPES), rng.choice([1, 64, 8192]), rng.choice([1, 48, 8192]))


def gen_camera_history(rng, cap, kind, t=None, b=None):
    """set / start / get_frame x1..3 / stop / set ... on a real streamer thread."""
    ops = ["new %d" % kind]
    first = True
    nrounds = 1 + (rng.random() < 0.6) + (rng.random() < 0.25)
    last = None
    for r in range(nrounds):
        if not first and rng.random() < 0.25:
            ops.append(bad_set(rng))
            ops += ["get", "shape"]
        cfg = pick_cfg(rng, cap, kind, t if first else None, b if first else None)
        last = cfg
        ops.append(cfg)
        ops += ["get", "shape"]
        if rng.random() < 0.5:
            ops.append("meta")
        if rng.random() < 0.15:
            ops.append("frame 0 17")           # not running: must fail
        ops.append("start")
        for _ in range(rng.randint(1, 3)):
            ops.append("frame %d %d" % (rng.choice([0, 0, 1, 7, 64]), rng.choice([0, 0x5a, 0xa5, 0xff, 0xbe])))
        if rng.random() < 0.3:
            ops.append("frameshort")
        if rng.random() < 0.12:
            # re-set the configuration in effect while the streamer runs (same sizes: the buffers do not move)
            ops.append(re_set_same(last))
            ops += ["get", "shape", "frame 3 1"]
        if rng.random() < 0.2:
            ops += ["stop", "start", "frame 1 2"]   # restart without re-configuration
        ops.append("stop")
        if rng.random() < 0.2:
            ops.append("stop")                 # stop twice is harmless (thread_join on a joined thread)
        first = False
    if rng.random() < 0.3:
        ops.append("frame 0 9")
    ops.append("close")
    return ops


def re_set_same(cfg):
    """The same configuration with the shape already clamped (so the request equals what is in effect)."""
    w = cfg.split()
    b, t, rw, rh = int(w[1]), int(w[2]), int(w[3]), int(w[4])
    lim = MAXDIM // ((b % 256) or 1)
    return "set %d %d %d %d %s %s %s" % (b, t, clamp(rw, 1, lim), clamp(rh, 1, lim), w[5], w[6], w[7])


# ----------------------------------------------------------------------------- re-configuration generators
# What the size of frame_data / render_data depends on: binning^2 * w * h * bytes_of_type (32-aligned).  The reported shape
# (dims, strides, type) does NOT determine it -- the binning is missing -- and neither does the byte size of the reported
# image.  The sequences below change one of these factors while keeping others fixed, between two accepted sets of the same
# camera, and always render at least one frame after the last set.
SAME_BPP = {1: [0, 2], 2: [1, 3, 5, 6, 7], 4: [4]}
RECONF_PATTERNS = ["bin-up", "bin-down", "same-bytes-type", "shrink-grow", "stopped-between-runs"]
RECONF_STEPS = ["bin-up", "bin-down", "type-same-bpp", "type-wider", "type-narrower", "same-bytes", "shrink", "grow", "identical"]


def cfg_text(c):
    return "set %d %d %d %d %d %d %d" % (c["b"], c["t"], c["w"], c["h"], c["ox"], c["oy"], c["ex"])


def cfg_pixels(c):
    return c["b"] * c["b"] * c["w"] * c["h"]


def cfg_of_set(op):
    """The configuration in effect after an ACCEPTED set op (request clamped), or None when the op is rejected."""
    w = op.split()
    b = (int(w[1]) % 256) or 1
    if b & (b - 1) or int(w[2]) not in BPP:
        return None
    lim = MAXDIM // b
    return {"b": b, "t": int(w[2]), "w": clamp(int(w[3]) % 2 ** 32, 1, lim), "h": clamp(int(w[4]) % 2 ** 32, 1, lim),
            "ox": int(w[5]), "oy": int(w[6]), "ex": int(w[7])}


def base_cfg(rng, cap, bmax, b=None, t=None):
    """A configuration whose shape is also admissible (and within cap full-resolution samples) at binning bmax."""
    lim = MAXDIM // bmax
    w = pick_dim(rng, min(lim, max(1, cap // (bmax * bmax))))
    h = pick_dim(rng, min(lim, max(1, cap // (bmax * bmax * w))))
    if rng.random() < 0.5:
        w, h = h, w
    return {"b": b if b is not None else bmax, "t": rng.choice(TYPES) if t is None else t, "w": w, "h": h,
            "ox": rng.choice([0, 0, 1, 100]), "oy": rng.choice([0, 0, 7, 640]), "ex": rng.choice([0, 1, 100, 999])}


def reconf_step(rng, c, step, cap):
    """The configuration c changed in exactly one factor of the allocation size; None when the step does not apply to c."""
    n = dict(c)
    bpp = BPP[c["t"]]
    if step == "bin-up":          # same reported shape and type, more full-resolution samples
        cands = [b for b in (2, 4, 8, 16, 32) if b > c["b"] and c["w"] <= MAXDIM // b and c["h"] <= MAXDIM // b
                 and b * b * c["w"] * c["h"] <= cap]
        if not cands:
            return None
        n["b"] = rng.choice(cands[:3])
    elif step == "bin-down":
        cands = [b for b in (1, 2, 4, 8, 16) if b < c["b"]]
        if not cands:
            return None
        n["b"] = rng.choice(cands)
    elif step == "type-same-bpp":  # same dims, same byte size, other sample type
        cands = [t for t in SAME_BPP[bpp] if t != c["t"]]
        if not cands:
            return None
        n["t"] = rng.choice(cands)
    elif step == "type-wider":     # same dims, more bytes per sample
        cands = [t for t in TYPES if BPP[t] > bpp]
        if not cands:
            return None
        n["t"] = rng.choice(cands)
    elif step == "type-narrower":
        cands = [t for t in TYPES if BPP[t] < bpp]
        if not cands:
            return None
        n["t"] = rng.choice(cands)
    elif step == "same-bytes":     # other type and other width, the same number of image bytes
        cands = []
        for t in TYPES:
            q = BPP[t]
            if q != bpp and (c["w"] * bpp) % q == 0 and 1 <= c["w"] * bpp // q <= MAXDIM // c["b"]:
                cands.append((t, c["w"] * bpp // q))
        if not cands:
            return None
        n["t"], n["w"] = rng.choice(cands)
        if rng.random() < 0.3 and n["w"] <= MAXDIM // c["b"] and n["h"] <= MAXDIM // c["b"]:
            n["w"], n["h"] = n["h"], n["w"]
    elif step == "shrink":
        if c["w"] * c["h"] <= 4:
            return None
        n["w"] = rng.choice([1, 2, 3, 4, 7, 8]) if c["w"] > 8 else max(1, c["w"] // 2)
        n["h"] = rng.choice([1, 2, 3, 5, 8]) if c["h"] > 8 else max(1, c["h"] // 2)
    elif step == "grow":
        lim = MAXDIM // c["b"]
        room = cap // (c["b"] * c["b"])
        if c["w"] * c["h"] * 2 > room:
            return None
        n["w"] = min(lim, max(c["w"] + 1, pick_dim(rng, min(lim, max(1, room // c["h"])))))
        if n["w"] * c["h"] > room:
            n["w"] = c["w"]
        n["h"] = min(lim, max(c["h"] + 1, pick_dim(rng, min(lim, max(1, room // n["w"])))))
        if n["w"] * n["h"] > room:
            n["h"] = c["h"]
        if (n["w"], n["h"]) == (c["w"], c["h"]):
            return None
    elif step == "identical":
        pass
    else:
        raise ValueError(step)
    if rng.random() < 0.3:
        n["ex"] = rng.choice([0, 1, 100, 999])
    return n


def step_tag(step, c, n):
    if step in ("bin-up", "bin-down"):
        return "reconfig-step:%s:%d>%d" % (step, c["b"], n["b"])
    if step.startswith("type-") or step == "same-bytes":
        return "reconfig-step:%s:bpp%d>%d" % (step, BPP[c["t"]], BPP[n["t"]])
    return "reconfig-step:" + step


def gen_run(rng):
    """start / get_frame x1..2 / stop: the first frame op after a start returns only after the streamer has rendered (and
    binned) one whole image with the configuration in effect, so the run is schedule independent."""
    ops = ["start"]
    for _ in range(rng.randint(1, 2)):
        ops.append("frame %d %d" % (rng.choice([0, 0, 1, 7, 64]), rng.choice([0, 0x5a, 0xa5, 0xff, 0xbe])))
    ops.append("stop")
    return ops


def gen_reconfig_history(rng, cap, kind, pattern):
    """A whole-camera history aimed at one dependency of the buffer size.  Every set is issued while the camera is stopped
    (C17's sequential domain), every history ends with a rendered frame after its last set.  Returns (ops, tags): tags are
    the generator choices, to be counted into the evidence."""
    tags = ["reconfig:" + pattern, "reconfig-kind:%d" % kind]
    ops = ["new %d" % kind]

    def emit(c, look=True):
        ops.append(cfg_text(c))
        if look:
            ops.extend(rng.choice([["get", "shape"], ["shape"], ["get", "shape", "meta"]]))

    def between():
        r = rng.random() < 0.5
        tags.append("reconfig-run-between:" + ("yes" if r else "no"))
        if r:
            ops.extend(gen_run(rng))

    def apply(c, steps):
        """first applicable step of `steps` (a generator choice already made by the caller's shuffle)"""
        for s in steps:
            n = reconf_step(rng, c, s, cap)
            if n is not None:
                tags.append(step_tag(s, c, n))
                return n
        tags.append("reconfig-step:identical")
        return dict(c)

    if pattern == "bin-up":
        b1, b2 = rng.choice([(1, 2), (1, 2), (1, 4), (1, 8), (2, 4), (2, 8), (4, 8), (4, 8), (8, 16), (2, 32)])
        c = base_cfg(rng, cap, b2, b=b1)
        emit(c)
        between()
        n = dict(c, b=b2)
        tags.append(step_tag("bin-up", c, n))
        emit(n)
        ops.extend(gen_run(rng))
        if rng.random() < 0.3:                       # and once more, further up when there is room
            m = apply(n, ["bin-up", "identical"])
            emit(m)
            ops.extend(gen_run(rng))
    elif pattern == "bin-down":
        b1, b2 = rng.choice([(2, 1), (4, 1), (8, 1), (4, 2), (8, 2), (8, 4), (16, 8), (32, 2)])
        c = base_cfg(rng, cap, b1, b=b1)
        emit(c)
        between()
        n = dict(c, b=b2)
        tags.append(step_tag("bin-down", c, n))
        emit(n)
        ops.extend(gen_run(rng))
        if rng.random() < 0.5:                       # down and up again: the buffers must grow back
            m = apply(n, ["bin-up", "identical"])
            emit(m)
            ops.extend(gen_run(rng))
    elif pattern == "same-bytes-type":
        b = rng.choice([1, 2, 2, 4, 8])
        c = base_cfg(rng, cap, b)
        emit(c)
        between()
        order = ["type-same-bpp", "same-bytes", "type-wider", "type-narrower"]
        rng.shuffle(order)
        n = apply(c, order)
        emit(n)
        ops.extend(gen_run(rng))
        if rng.random() < 0.4:
            rng.shuffle(order)
            m = apply(n, order)
            emit(m)
            ops.extend(gen_run(rng))
    elif pattern == "shrink-grow":
        b = rng.choice([1, 2, 4, 8])
        c = base_cfg(rng, max(64, cap // 4), b)
        if rng.random() < 0.5:                       # medium, small, large -- else small, large
            emit(c)
            between()
        s = apply(c, ["shrink", "identical"])
        if rng.random() < 0.4:
            s["b"] = rng.choice([x for x in (1, 2, 4, 8) if x <= b])
        emit(s)
        between()
        g = apply(dict(s, b=b), ["grow", "identical"])
        if rng.random() < 0.4:
            g["t"] = rng.choice(TYPES)
        if cfg_pixels(g) > cap:
            g = dict(c)
        emit(g)
        ops.extend(gen_run(rng))
    elif pattern == "stopped-between-runs":
        c = base_cfg(rng, max(64, cap // 4), rng.choice([1, 2, 4]))
        emit(c)
        ops.extend(gen_run(rng))
        for rnd in range(rng.randint(1, 2)):
            if rng.random() < 0.2:
                ops.append("stop")                   # stop twice
            for _ in range(rng.randint(2, 3)):       # several sets while stopped; only the last one is rendered
                if rng.random() < 0.15:
                    ops.append(bad_set(rng))
                    tags.append("reconfig-step:rejected")
                    continue
                order = list(RECONF_STEPS)
                rng.shuffle(order)
                c = apply(c, order)
                emit(c, look=rng.random() < 0.6)
            if rng.random() < 0.25:
                ops.append("frame 0 17")             # not running: must fail and write nothing
            ops += ["get", "shape"]
            ops.extend(gen_run(rng))
    else:
        raise ValueError(pattern)
    ops.append("close")
    return ops, tags


def gen_config_history(rng, tags=None):
    """set/get only (no thread): cheap, so shapes are unrestricted up to a few large ones.  About a third of the sets are
    derived from the configuration in effect by one re-configuration step (same shape with another binning, same bytes with
    another type, ...): the allocation log of exactly those pairs is what a stale-buffer shortcut in set would change."""
    ops = ["new %d" % rng.choice(KINDS), "get", "shape"]
    cur = None
    for _ in range(rng.randint(3, 10)):
        r = rng.random()
        if r < 0.2:
            ops.append(bad_set(rng))
        elif r < 0.5 and cur is not None:
            order = list(RECONF_STEPS)
            rng.shuffle(order)
            step, n = "identical", dict(cur)
            for st in order:                          # the first step of a random order that applies to cur
                cand = reconf_step(rng, cur, st, 1 << 22)
                if cand is not None:
                    step, n = st, cand
                    break
            if tags is not None:
                tags.append("config-" + step_tag(step, cur, n))
            ops.append(cfg_text(n))
        else:
            ops.append(pick_cfg(rng, 1 << (26 if rng.random() < 0.02 else 22), small_exposure=False))
        cur = cfg_of_set(ops[-1]) or cur
        ops += rng.choice([["get", "shape"], ["shape", "get", "meta"], ["get"], ["shape"]])
    ops.append("close")
    return ops


def gen_ext_cases(rng, n, cap):
    """Probe cases (routine + arguments); the extents come from the model."""
    cases = []
    for i in range(n):
        r = i % 6
        w = pick_dim(rng, MAXDIM)
        h = pick_dim(rng, min(MAXDIM, max(1, cap // w)))
        if rng.random() < 0.5:
            w, h = h, w
        if r == 0:
            cases.append("rand %d %d %d" % (rng.choice(TYPES), w, h))
        elif r == 1:
            cases.append("pat %d %d %d" % (rng.choice(PATTERN_TYPES if rng.random() < 0.9 else [5, 6, 7]), w, h))
        elif r in (2, 3):
            cases.append("avx2 %d %d" % (w, h))
        elif r == 4:
            cases.append("plain %d %d" % (w, h))
        else:
            cases.append("copy %d %d %d" % (rng.choice(TYPES), w, h))
    return cases


def fixed_ext_cases():
    c = []
    for (w, h) in [(1, 1), (1, 2), (2, 1), (2, 2), (31, 2), (32, 2), (33, 2), (31, 31), (32, 32), (33, 33), (64, 64), (16, 100),
                   (8191, 2), (8192, 2), (2, 8191), (2, 8192), (8191, 3), (1, 8192), (8192, 1), (96, 5), (97, 5), (1024, 1024)]:
        c += ["avx2 %d %d" % (w, h), "plain %d %d" % (w, h)]
    for t in TYPES:
        c += ["rand %d 33 7" % t, "rand %d 1 1" % t, "copy %d 33 7" % t, "copy %d 1 1" % t, "pat %d 33 7" % t, "pat %d 1 1" % t]
    c += ["rand 4 2048 2048", "pat 1 1024 1024", "copy 4 1024 1024", "rand 0 8192 31", "pat 4 31 8192"]
    return c


# ----------------------------------------------------------------------------- extent / alignment probes
def ext_probes(orac, cases):
    """Ask the model for (extent, unit, width, align) of every case and derive the probes with their expected class."""
    q = ["x " + c for c in cases]
    rc, lines, e = run_lines([orac], q)
    if rc != 0 or len(lines) != len(q):
        raise vlib.BuildError("model oracle failed on extent queries: " + (e or "")[-500:])
    probes = []
    for c, l in zip(cases, lines):
        m = re.match(r"X (-?\d+) (\d+) (\d+) (\d+)$", l)
        if not m:
            raise vlib.BuildError("model oracle: unexpected answer %r to %r" % (l, c))
        ext, unit, width, al = [int(x) for x in m.groups()]
        w = c.split()
        names = [w[0]] if w[0] != "copy" else ["copysrc", "copydst"]
        for nm in names:
            args = " ".join(w[1:])
            if ext <= 0:
                probes.append((c, "%s %s 0 0" % (nm, args), "clean", "extent0"))
                continue
            probes.append((c, "%s %s %d 0" % (nm, args, ext), "clean", "exact"))
            probes.append((c, "%s %s %d 0" % (nm, args, ext - 1), "overflow", "minus1"))
            if nm in ("copysrc", "copydst"):
                continue
            # alignment: a base that is a multiple of the required alignment only; and half of it must be flagged
            probes.append((c, "%s %s %d %d" % (nm, args, ext, al if al > 1 else 1), "clean", "aligned-min"))
            if nm == "avx2":
                probes.append((c, "%s %s %d 16" % (nm, args, ext), "clean", "aligned-malloc16"))
            if al > 1:
                probes.append((c, "%s %s %d %d" % (nm, args, ext, al // 2), "misaligned", "misaligned-half"))
    return probes


def run_ext(impl, probes):
    shards = [s for s in vlib.shard(probes, vlib.NPROC) if s]

    def one(sh):
        rc, lines, e = run_lines([impl, "ext"], [p[1] for p in sh], timeout=900, env=SAN_ENV)
        return rc, lines, e
    res = vlib.parallel(one, shards)
    outs = []
    for sh, (rc, lines, e) in zip(shards, res):
        if rc != 0 or len(lines) != len(sh):
            raise vlib.BuildError("harness ext mode failed (rc=%s, %d of %d lines): %s" % (rc, len(lines), len(sh), (e or "")[-500:]))
        for p, l in zip(sh, lines):
            outs.append((p, l.replace("EXT ", "")))
    return outs


# ----------------------------------------------------------------------------- differential + oracle over histories
def wellformed(ops):
    """The protocol the HAL/runtime guarantee: start only on a configured (some accepted set happened), stopped camera;
    sample-type codes inside the enum."""
    configured = running = False
    for o in ops:
        w = o.split()
        if w[0] == "new":
            configured = running = False
        elif w[0] == "set":
            b8 = (int(w[1]) % 256) or 1
            if int(w[2]) not in BPP:
                return False
            if b8 & (b8 - 1) == 0:
                configured = True
        elif w[0] == "start":
            if not configured or running:
                return False
            running = True
        elif w[0] == "stop":
            running = False
    return True


VALUE_KEYS = ("double-free", "get-mismatch", "shape-mismatch", "meta-mismatch", "start-failed", "copy-mismatch")


def waits_for_frame(ops):
    """Some start is followed by a frame op before the next stop/close/set: that frame op returns only after the streamer
    thread has rendered and binned one whole image, so a sanitizer report of the render cannot be missed by a race between
    the streamer's first iteration and the end of the process."""
    running = False
    for o in ops:
        w = o.split()[0]
        if w == "start":
            running = True
        elif w in ("stop", "close", "new"):
            running = False
        elif w == "frame" and running:
            return True
    return False


def minimise(impl, h, key, env, keymap):
    crash_key = key not in VALUE_KEYS

    def fails(cand):
        ops = [h[0]] + cand
        if not wellformed(ops):
            return False
        if crash_key and not waits_for_frame(ops):    # keep the replay deterministic (see waits_for_frame)
            return False
        rec = run_histories(impl, [ops], env=env, timeout=120)[0]
        return any(keymap(k) == key for (k, _, _) in oracle(ops, rec))
    try:
        cur = [h[0]] + vlib.ddmin(h[1:], fails, max_tests=60)
    except Exception:
        return h
    # shrink the requested shapes of all remaining set ops together (keeps "same shape, other binning/type" relations) ...
    sets = [i for i, o in enumerate(cur) if o.split()[0] == "set"]
    for cand in ((4, 4), (16, 16), (33, 7), (64, 48)):
        t = list(cur)
        changed = False
        for i in sets:
            w = t[i].split()
            if int(w[3]) * int(w[4]) > cand[0] * cand[1]:
                t[i] = " ".join(w[:3] + [str(cand[0]), str(cand[1])] + w[5:])
                changed = True
        try:
            if changed and fails(t[1:]):
                cur = t
                break
        except Exception:
            break
    # ... then one by one
    for i, o in enumerate(cur):
        w = o.split()
        if w[0] != "set":
            continue
        for cand in ((64, 48), (33, 7), (16, 16), (4, 4)):
            if int(w[3]) * int(w[4]) <= cand[0] * cand[1]:
                continue
            t = list(cur)
            t[i] = " ".join(w[:3] + [str(cand[0]), str(cand[1])] + w[5:])
            try:
                if fails(t[1:]):
                    cur = t
                    w = t[i].split()
            except Exception:
                break
    return cur


def same_key(k):
    return k


def native_key(k):
    """Without a sanitizer an overflow or a misaligned vector store is undefined behaviour: the process may die of SIGSEGV,
    of glibc's heap-consistency abort, or silently corrupt a neighbouring block.  One key for all of them."""
    return "native-memory-corruption"


def report_violations(ctx, impl, h, viol, env, build_name, keymap=same_key, extra=None):
    """Register the oracle's findings on history h; the first one of each key gets a minimised, re-verified replay."""
    for (key0, msg, k) in viol:
        key = keymap(key0)
        if ctx.has_violation(key):
            ctx.violation(msg, None, key=key)
            continue
        hh = minimise(impl, h, key, env, keymap)
        # the replay must reproduce: run it twice more; fall back to the history as found when the shrunk one is flaky
        runs = [run_histories(impl, [hh], env=env, timeout=120)[0] for _ in range(2)]
        hits = [any(keymap(kk) == key for (kk, _, _) in oracle(hh, rr)) for rr in runs]
        if not all(hits) and hh != h:
            hh = h
            runs = [run_histories(impl, [hh], env=env, timeout=300)[0] for _ in range(2)]
            hits = [any(keymap(kk) == key for (kk, _, _) in oracle(hh, rr)) for rr in runs]
        rr = runs[hits.index(True)] if any(hits) else runs[0]
        replay = {"history": hh, "impl_output": rr["out"], "crash": rr["crash"], "stderr": crash_summary(rr["err"]),
                  "reproduced": "%d of 2 re-runs of this history" % sum(hits),
                  "original_history": h,
                  "env": env or {},
                  "how": "printf '%%s\\n' <history lines> | .build/%s/%s seq   (built by this check from the repository under test; "
                         "ASAN_OPTIONS=detect_leaks=0)" % (ctx.prop, build_name)}
        if extra:
            replay.update(extra)
        ctx.violation(msg, replay, key=key)


def alloc_log(line):
    m = re.search(r"A\[([^\]]*)\]", line or "")
    return m.group(1) if m else None


def buffer_sizes(lines):
    """(frame_data, render_data) sizes implied by the allocation logs of the SET lines so far (r:<old>><new>, in that
    order).  Only used to order the search: which disagreements leave the implementation with LESS memory than the model."""
    cur = [None, None]
    for l in lines:
        if l.startswith("SET"):
            for i, n in enumerate(re.findall(r"r:\w+>(\d+)", alloc_log(l) or "")[:2]):
                cur[i] = int(n)
    return cur


def fold_histories(ctx, impl, label, hists, mrecs, irecs, env, build_name, nontrivial_fn, keymap=same_key, alloc_dis=None):
    for h, m, r in zip(hists, mrecs, irecs):
        ctx.case(label + "\n" + "\n".join(h), nontrivial=nontrivial_fn(h, r))
        viol = oracle(h, r)
        report_violations(ctx, impl, h, viol, env, build_name, keymap)
        if m["out"] != r["out"] or r["crash"]:
            d = next((k for k in range(min(len(m["out"]), len(r["out"]))) if m["out"][k] != r["out"][k]), min(len(m["out"]), len(r["out"])))
            ctx.broken_tie("model/implementation disagreement on a camera history (%s)" % label,
                           {"history": h[:d + 1], "op": h[d] if d < len(h) else None,
                            "model": m["out"][d] if d < len(m["out"]) else None,
                            "impl": r["out"][d] if d < len(r["out"]) else ("<process ended: %s>" % r["crash"])})
            # a set whose allocation log differs from the model's: remembered for the search step (search_alloc_disagreements)
            if alloc_dis is not None and d < len(h) and d < len(m["out"]) and d < len(r["out"]) and h[d].split()[0] == "set" \
                    and alloc_log(m["out"][d]) != alloc_log(r["out"][d]):
                ms, is_ = buffer_sizes(m["out"][:d + 1]), buffer_sizes(r["out"][:d + 1])
                alloc_dis.append({"label": label, "history": h, "op_index": d, "model": m["out"][d], "impl": r["out"][d],
                                  "model_sizes": ms, "impl_sizes": is_,
                                  "under": any(x is not None and (y is None or y < x) for x, y in zip(ms, is_))})
        else:
            ctx.traces_validated += 1


def short_exposure(op):
    """The streamer sleeps for the exposure time before it publishes a frame (set/get histories use up to 16.7 s): the
    extended runs use at most 2.5 ms.  The exposure takes no part in the geometry; distinct values stay distinct."""
    w = op.split()
    if w[0] == "set" and int(w[7]) > 2500:
        w[7] = str(2400 + int(w[7]) % 97)
    return " ".join(w)


def search_alloc_disagreements(ctx, impl, env, alloc_dis, where, limit=6):
    """Search step for allocation-log disagreements.  A set whose reallocations differ from the model's is not by itself a
    violation of C17 (an implementation may keep a buffer that is large enough).  It is one exactly when the buffers are then
    too small for what the streamer renders, so: take the history up to and including that set, stop the camera if it runs,
    and append  start; frame; stop; close  -- for every camera kind (Random writes 4-byte words up to the aligned size, Sin
    writes every sample, Empty only runs the binning passes) -- and run it under ASan/UBSan.  The verdict is the independent
    oracle's (sanitizer report, fatal signal, shape/copy mismatch), never the disagreement itself.  The frame op returns only
    after one complete render with the configuration in effect, so a too small buffer is reported deterministically."""
    if not alloc_dis:
        return
    seen = set()
    todo = []
    for a in alloc_dis:
        h, d = a["history"], a["op_index"]
        core = [short_exposure(o) for o in h[1:d + 1] if o.split()[0] in ("set", "start", "stop", "frame")]
        running = False
        for o in core:
            running = o == "start" or (running and o != "stop")
        tail = (["stop"] if running else []) + ["start", "frame 0 90", "stop", "close"]
        sig = tuple(core)
        if sig in seen:
            continue
        seen.add(sig)
        cfgs = [c for c in (cfg_of_set(o) for o in core if o.startswith("set")) if c]
        # cost of the extended run: every buffer the prefix allocates plus the image rendered at the end
        cost = sum(cfg_pixels(c) * BPP[c["t"]] for c in cfgs + cfgs[-1:])
        todo.append((cost, core, tail, a))
    # the number of extended runs is bounded: the `limit` cheapest disagreements that leave the implementation with smaller
    # buffers than the model (the candidates for an overflow), plus the 2 cheapest of the others as a cross-check
    todo.sort(key=lambda x: x[0])
    under = [x for x in todo if x[3]["under"]]
    other = [x for x in todo if not x[3]["under"]]
    ctx.count("search:alloc-disagreement:" + where, len(alloc_dis))
    ctx.count("search:alloc-disagreement-smaller-than-model:" + where, len(under))
    ext = []
    for cost, core, tail, a in under[:limit] + other[:2]:
        for kind in KINDS:
            ops = ["new %d" % kind] + core + tail
            if wellformed(ops):
                ext.append((ops, a))
    if not ext:
        return
    recs = vlib.parallel(lambda e: run_histories(impl, [e[0]], env=env, timeout=300)[0], ext)
    found = 0
    for (ops, a), rec in zip(ext, recs):
        ctx.count("search:extended-history:" + where)
        viol = oracle(ops, rec)
        if viol:
            found += 1
            ctx.count("search:extended-history-failed:" + where)
        report_violations(ctx, impl, ops, viol, env, "h_simgeom", same_key,
                          extra={"found_by": "search step: allocation-log disagreement with the model on a %s history, extended with "
                                             "start; frame; stop for every camera kind and run under ASan" % a["label"],
                                 "disagreement": {"history": a["history"][:a["op_index"] + 1], "model": a["model"], "impl": a["impl"],
                                                  "buffer_sizes_model": a["model_sizes"], "buffer_sizes_impl": a["impl_sizes"]}})
    s = ctx.extra.setdefault("alloc_disagreement_search", {})
    s[where] = {"disagreements": len(alloc_dis), "distinct": len(todo), "smaller_than_model": len(under), "extended_histories_run": len(ext), "extended_histories_failing": found}


def model_histories(orac, hists):
    flat = [o for h in hists for o in h]
    rc, lines, e = run_lines([orac], flat)
    if rc != 0 or len(lines) != len(flat):
        raise vlib.BuildError("model oracle failed: rc=%s %d/%d lines %s" % (rc, len(lines), len(flat), (e or "")[-400:]))
    res = []
    pos = 0
    for h in hists:
        res.append({"out": lines[pos:pos + len(h)], "crash": None, "err": ""})
        pos += len(h)
    return res


def model_predicts_safe(orac, hists):
    """For every state in which a frame is produced the model's own verdicts (frame_in_bounds, frame_aligned) must be 1 --
    a run-time restatement of C17_in_bounds / C17_aligned on the extracted code; returns the number of states checked."""
    n = 0
    for h in hists:
        q = []
        for o in h:
            q.append(o)
            if o.startswith("set"):
                q += ["acc avx2", "acc plain"]
        rc, lines, e = run_lines([orac], q)
        for l in lines:
            if l.startswith("ACC"):
                n += 1
                f = kv(l)
                if f.get("conf") == "1" and (f.get("inb") != "1" or f.get("al") != "1"):
                    return -1
    return n


def load_corpus():
    cdir = os.path.join(vlib.VERIF, "corpus", "C17")
    res = []
    if os.path.isdir(cdir):
        for fn in sorted(os.listdir(cdir)):
            if fn.endswith(".txt"):
                ops = [l.strip() for l in open(os.path.join(cdir, fn)) if l.strip() and not l.startswith("#")]
                if ops:
                    res.append((fn, ops))
    return res


def nontriv_camera(h, r):
    return any(l.startswith("FRAME rc=0") for l in r["out"]) and any(l.startswith("SET rc=0") for l in r["out"])


def nontriv_config(h, r):
    return any(l.startswith("SET rc=0") and " bout=1 " not in l for l in r["out"]) or \
        any(o.split()[0] == "set" and (int(o.split()[3]) > MAXDIM or int(o.split()[3]) == 0) for o in h)


# ----------------------------------------------------------------------------- entry point
def run(ctx):
    ctx.coq_prove(["Properties_C17"])
    orac, impl, native = build(ctx)
    thorough = ctx.tier == "thorough"
    rng = ctx.rng
    ctx.rule = ("(1) extent/alignment probes: every render/bin/copy routine of the real code is run in a child process on an ASan heap "
                "buffer of exactly the model's extent (must be clean), of extent-1 (must be reported), and on bases aligned only as "
                "much as the model says is needed (clean) / half of it (UBSan must report) -- boundary widths/heights 1,31,32,33,...,8191,8192 "
                "and random ones; (2) set/get histories (no thread) with unrestricted requested shapes, all binning bytes incl. rejected ones; "
                "(3) whole-camera histories new/set/get/start/get_frame x1..3/frameshort/stop/set... for every (kind, sample type, binning in "
                "1,2,4,8) triple plus random ones plus 60 re-configuration histories (5 patterns x 3 kinds x 4: same shape with binning up / "
                "down, same bytes or same dims with another sample type, shrink then grow, several sets while stopped between two runs; "
                "each ends with a rendered frame after its last set), on the real linux platform.c with a real streamer pthread under ASan+UBSan, image buffers "
                "handed out 16 bytes after a 32-byte boundary, caller buffers sentinel-filled; (4) the same on an unsanitised -O2 build with "
                "glibc malloc.  Model and implementation must print identical lines (allocation sizes, get/get_shape/get_meta values, bytes "
                "written).  Search: every set whose allocation log differs from the model's is extended with start; frame; stop for every "
                "camera kind and run under ASan; only a sanitizer report / oracle finding on that run is a violation.  non-trivial = at least one accepted set and one delivered frame (3,4), a clamp or a binning > 1 acted (2), "
                "a non-empty extent (1); distinct = distinct op text")
    ctx.assumptions = ["allocation succeeds (<= 256 MiB per buffer) and returns 16-byte aligned blocks (alignof(max_align_t))",
                       "set is not called while the streamer renders with a configuration that changes the buffer size (data race outside the sequential model; "
                       "only a re-set of the identical configuration is exercised while running)",
                       "start only on a configured, stopped camera (what the HAL/runtime do); sample-type codes 0..7",
                       "frame_start trigger disabled (trigger gating is C18)"]
    ctx.extra["partial"] = ("`set` while the streamer thread is rendering (buffers reallocated under it) is a data race the sequential geometry "
                            "model does not express; it is exercised only by the ASan whole-camera runs, and only with size-preserving re-sets")
    env = SAN_ENV

    # ---- corpus first
    corpus = load_corpus()
    if corpus:
        hs = [ops for _, ops in corpus]
        mrec = model_histories(orac, hs)
        irec = vlib.parallel(lambda h: run_histories(impl, [h], env=env, timeout=300)[0], hs)
        alloc_dis = []
        fold_histories(ctx, impl, "corpus", hs, mrec, irec, env, "h_simgeom", nontriv_camera, alloc_dis=alloc_dis)
        search_alloc_disagreements(ctx, impl, env, alloc_dis, "corpus")
        nrec = vlib.parallel(lambda h: run_histories(native, [h], timeout=300)[0], hs)
        fold_histories(ctx, native, "corpus-native", hs, mrec, nrec, None, "h_simgeom_native", nontriv_camera, native_key)
        ctx.count("corpus", len(hs))

    # ---- (1) extent tightness and alignment probes
    cases = fixed_ext_cases() + gen_ext_cases(rng, 8000 if thorough else 300, 1 << (22 if thorough else 20))
    if thorough:
        cases += ["rand 4 8192 8192", "avx2 8192 8192", "plain 8192 8192", "copy 4 8192 8192", "pat 4 4096 4096"]
    cases = list(dict.fromkeys(cases))
    probes = ext_probes(orac, cases)
    outs = run_ext(impl, probes)
    bad_ext = []
    for (case, line, want, what), got in outs:
        ctx.case("ext " + line, nontrivial=what != "extent0")
        ctx.count("probe:" + line.split()[0] + ":" + what)
        if got == want:
            ctx.traces_validated += 1
        else:
            bad_ext.append((case, line, want, what, got))
            ctx.broken_tie("extent/alignment probe disagrees with the model (%s, %s)" % (line.split()[0], what),
                           {"probe": line, "model_expects": want, "implementation": got,
                            "how": "echo '%s' | .build/%s/h_simgeom ext" % (line, ctx.prop)})
    ctx.extra["ext_probes"] = {"cases": len(cases), "probes": len(probes), "disagreements": len(bad_ext)}
    ctx.sample({"probe": probes[1][1], "expected": probes[1][2]})

    # ---- (2) set/get histories
    nconf = 15000 if thorough else 400
    ctags = []
    chists = [gen_config_history(rng, ctags) for _ in range(nconf)]
    for tg in ctags:
        ctx.count(tg)
    for h in chists:
        for o in h:
            ctx.count("op:" + o.split()[0])
            if o.startswith("set"):
                ctx.count("binning:%s" % o.split()[1])
    shards = [s for s in vlib.shard(chists, vlib.NPROC) if s]
    mres = vlib.parallel(lambda s: model_histories(orac, s), shards)
    ires = vlib.parallel(lambda s: run_histories(impl, s, env=env, timeout=900), shards)
    alloc_dis = []
    for s, m, r in zip(shards, mres, ires):
        fold_histories(ctx, impl, "config", s, m, r, env, "h_simgeom", nontriv_config, alloc_dis=alloc_dis)
    ctx.sample(chists[0][:12])
    # search step: every set whose allocation log differs from the model's is turned into a rendered frame under ASan
    search_alloc_disagreements(ctx, impl, env, alloc_dis, "config")

    # ---- (3) whole-camera histories under ASan/UBSan with a real streamer thread
    cap = 1 << 20
    whists = []
    for kind in KINDS:
        for t in TYPES:
            for b in (1, 2, 4, 8):
                whists.append(gen_camera_history(rng, cap, kind, t, b))
    extra = 8000 if thorough else 150
    for _ in range(extra):
        whists.append(gen_camera_history(rng, 1 << (rng.choice([16, 18, 20, 22]) if thorough else rng.choice([14, 16, 18, 20])), rng.choice(KINDS)))
    # full-sensor configurations (256 MiB / 64 MiB buffers): few, they are slow
    big = [["new 0", "set 8 0 1024 1024 0 0 100", "get", "shape", "start", "frame 1 90", "stop", "close"],
           ["new 2", "set 1 1 8192 8191 0 0 100", "shape", "start", "frame 0 90", "stop", "set 2 4 9000 4096 0 0 100", "shape", "start", "frame 1 1", "stop", "close"],
           ["new 1", "set 4 3 2048 31 1 1 100", "shape", "start", "frame 1 90", "frame 1 91", "stop", "close"]]
    if thorough:
        big += [["new 0", "set 1 4 8192 8192 0 0 100", "get", "shape", "start", "frame 1 90", "stop", "set 8 4 8192 8192 0 0 100", "get", "shape", "start", "frame 1 90", "stop", "close"],
                ["new 1", "set 2 0 4096 4096 0 0 100", "shape", "start", "frame 1 90", "stop", "close"],
                ["new 2", "set 128 2 64 64 0 0 100", "get", "shape", "meta", "start", "frame 1 90", "stop", "close"]]
    whists += big
    # re-configuration sequences aimed at what the buffer size depends on (binning, bytes per sample, dims): fixed counts
    nrec = 0
    for kind in KINDS:
        for pat in RECONF_PATTERNS:
            for _ in range(60 if thorough else 4):
                h, tags = gen_reconfig_history(rng, 1 << (rng.choice([16, 18, 20]) if thorough else rng.choice([14, 16, 18])), kind, pat)
                whists.append(h)
                nrec += 1
                for tg in tags:
                    ctx.count(tg)
                if nrec == 1:
                    ctx.sample(h)
    ctx.extra["reconfiguration_histories"] = nrec
    for h in whists:
        for o in h:
            ctx.count("op:" + o.split()[0])
            if o.startswith("set"):
                ctx.count("binning:%s" % o.split()[1])
                ctx.count("type:%s" % o.split()[2])
        ctx.count("kind:%s" % h[0].split()[1])
    ctx.sample(whists[5])
    shards = [s for s in vlib.shard(whists, vlib.NPROC) if s]
    mres = vlib.parallel(lambda s: model_histories(orac, s), shards)
    ires = vlib.parallel(lambda s: run_histories(impl, s, env=env, timeout=1000), shards)
    alloc_dis = []
    for s, m, r in zip(shards, mres, ires):
        fold_histories(ctx, impl, "camera", s, m, r, env, "h_simgeom", nontriv_camera, alloc_dis=alloc_dis)
    search_alloc_disagreements(ctx, impl, env, alloc_dis, "camera")
    # the extracted model's own verdicts on those states
    chk = model_predicts_safe(orac, whists[:150])
    if chk < 0:
        ctx.broken_tie("the extracted model reports an out-of-bounds or misaligned access for a configured state (contradicts C17_in_bounds/C17_aligned)", "")
    ctx.extra["model_states_checked_in_bounds_aligned"] = chk

    # ---- (4) unsanitised -O2 build with glibc's allocator: what a user of the library sees
    nhists = [["new 2", "set 2 4 1024 1024 0 0 100", "shape", "start", "frame 1 90", "frame 0 91", "stop", "close"],
              ["new 0", "set 2 0 1024 1024 0 0 100", "shape", "start", "frame 1 90", "stop", "set 4 1 512 300 0 0 100", "start", "frame 1 90", "stop", "close"],
              ["new 1", "set 8 4 333 129 3 3 100", "get", "shape", "start", "frame 1 90", "stop", "close"]]
    for _ in range(150 if thorough else 6):
        nhists.append(gen_camera_history(rng, 1 << 22, rng.choice(KINDS), None, rng.choice([2, 4, 8])))
    mres = model_histories(orac, nhists)
    ires = vlib.parallel(lambda h: run_histories(native, [h], timeout=600)[0], nhists)
    fold_histories(ctx, native, "native", nhists, mres, ires, None, "h_simgeom_native", nontriv_camera, native_key)
    ctx.count("native-histories", len(nhists))

    # ---- out-of-domain observation (D23): unknown sample-type code after a valid set.  Recorded, never alarmed.
    d23 = ["new 0", "set 1 0 64 48 0 0 1000", "set 1 9 64 48 0 0 1000", "get", "close"]
    try:
        rec = run_histories(impl, [d23], env=env, timeout=60)[0]
        seen = any("DOUBLEFREE" in l or "DEAD" in l for l in rec["out"]) or bool(rec["crash"])
        ctx.extra["out_of_domain_D23"] = {"history": d23, "impl_output": rec["out"], "double_free_observed": seen,
                                          "note": "sample-type code 9 has bytes_of_type = 0: realloc(p, 0) frees p and returns NULL, checked_realloc then "
                                                  "frees p again; the configuration is rejected, so it is outside C17's domain (accepted configurations)"}
        ctx.notes.append("D23 (out of domain, not alarmed): set with an unknown sample-type code after a valid set -> %s"
                         % ("double free observed" if seen else "no double free observed on this tree"))
    except Exception as ex:  # never let the observation decide the verdict
        ctx.notes.append("D23 probe could not be run: %r" % (ex,))

    if thorough:
        rc, o, e = vlib.sh("timeout 900 coqchk -silent -o -Q . SimGeom SimGeom.Properties_C17", cwd=ctx.coqdir, timeout=1000)
        ctx.extra["coqchk"] = "ok" if rc == 0 else ("failed: " + (o + e)[-400:])
        if rc != 0:
            ctx.broken_tie("coqchk rejected Properties_C17", (o + e)[-800:])
