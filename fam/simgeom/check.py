"""SimGeom family: C17 (simulated cameras are memory-safe and honour the shape they report).  DESIGN 6.17.

prove -> build -> corpus -> correspond (extent/alignment probes, set/get histories, whole-camera histories under ASan
with a real streamer thread, native runs) -> independent property oracle -> violations with minimised replay.
"""
import os
import re

import vlib

SIM = "acquire-driver-common/src/simcams"
CL = "acquire-core-libs/src"
MAXDIM = 8192
BPP = {0: 1, 1: 2, 2: 1, 3: 2, 4: 4, 5: 2, 6: 2, 7: 2}
TYPES = list(range(8))
PATTERN_TYPES = [0, 1, 2, 3, 4]
KINDS = [0, 1, 2]
BOUNDARY = [1, 2, 3, 4, 5, 7, 8, 15, 16, 17, 31, 32, 33, 63, 64, 65, 95, 96, 97, 127, 128, 129, 255, 256, 257,
            511, 512, 513, 1023, 1024, 1025, 2047, 2048, 2049, 4095, 4096, 4097, 8191, 8192]
SAN_ENV = {"ASAN_OPTIONS": "detect_leaks=0:abort_on_error=0:exitcode=66:allocator_may_return_null=1",
           "UBSAN_OPTIONS": "print_stacktrace=1"}


# ----------------------------------------------------------------------------- build
def build(ctx):
    orac = ctx.oracle_build()
    here = os.path.join(ctx.famdir, "harness")
    R = vlib.REPO
    inc = ["-I" + os.path.join(R, SIM), "-I" + os.path.join(R, SIM, "3rdParty/pcg-c-basic-0.9"),
           "-I" + os.path.join(R, CL, "acquire-device-kit"), "-I" + os.path.join(R, CL, "acquire-device-properties"),
           "-I" + os.path.join(R, CL, "acquire-core-platform/linux"), "-I" + os.path.join(R, CL, "acquire-core-logger"),
           "-I" + os.path.join(R, "acquire-driver-common/src")]
    srcs = [os.path.join(here, "h_simgeom.c"), SIM + "/imfill.pattern.cpp", SIM + "/popcount.cpp",
            SIM + "/3rdParty/pcg-c-basic-0.9/pcg_basic.c", CL + "/acquire-device-properties/device/props/components.c",
            CL + "/acquire-core-platform/linux/platform.c", CL + "/acquire-core-logger/logger.c"]
    impl = ctx.cc(srcs, "h_simgeom", flags=inc)
    native = ctx.cc(srcs, "h_simgeom_native", flags=inc + ["-DVH_NATIVE"], asan=False, opt="-O2")
    return orac, impl, native


# ----------------------------------------------------------------------------- runners
def run_lines(cmd, ops, timeout=300, env=None):
    rc, o, e = vlib.sh(cmd, inp="\n".join(ops) + "\n", timeout=timeout, env=env)
    lines = o.split("\n")
    if lines and lines[-1] == "":
        lines.pop()
    return rc, lines, e


def classify_crash(rc, err):
    """Stable classifier of an abnormal end of the implementation process."""
    err = err or ""
    if "misaligned address" in err:
        return "misaligned-access"
    m = re.search(r"AddressSanitizer: ([\w-]+)", err)
    if m:
        k = m.group(1)
        if k == "unknown-crash" and "to the right of" in err:
            k = "heap-buffer-overflow"
        if k == "attempting":
            k = "double-free"
        return k
    if "runtime error:" in err:
        return "ubsan-" + re.sub(r"[^a-z]+", "-", err.split("runtime error:")[1].split("\n")[0].strip().lower())[:40]
    if rc == 124:
        return "hang"
    if rc in (-11, 139):
        return "sigsegv"
    if rc in (-6, 134):
        return "abort"
    return "exit-%s" % rc


def is_memory_error(key):
    """Only sanitizer reports and fatal signals are C17 violations; a time-out, a truncated output or a harness exit code
    are failures of the correspondence run (reported as a broken tie), not statements about memory safety."""
    return not (key in ("hang", "not-run", "truncated-output") or key.startswith("exit-"))


def crash_summary(err):
    err = err or ""
    keep = []
    for l in err.split("\n"):
        if "ERROR: AddressSanitizer" in l or "runtime error" in l or re.match(r"\s*#[0-3] ", l) or "is located" in l or l.startswith(("READ", "WRITE")):
            keep.append(re.sub(r"0x[0-9a-f]+", "0x..", l.strip()))
        if len(keep) >= 8:
            break
    return " / ".join(keep)[:900]


def run_histories(exe, hists, env=None, timeout=600):
    """Run histories (each starts with 'new', ends with 'close') in as few processes as possible.  Returns one record per
    history: dict(out=[lines], crash=None|key, err=str).  When the process dies inside history i the remaining histories
    are run in a fresh process."""
    res = [None] * len(hists)
    start = 0
    while start < len(hists):
        flat = [o for h in hists[start:] for o in h]
        rc, lines, err = run_lines([exe, "seq"], flat, timeout=timeout, env=env)
        pos = 0
        i = start
        while i < len(hists) and pos + len(hists[i]) <= len(lines):
            res[i] = {"out": lines[pos:pos + len(hists[i])], "crash": None, "err": ""}
            pos += len(hists[i])
            i += 1
        if i == len(hists):
            if rc != 0:      # every line is there but the process did not end normally: blame the last history
                res[i - 1]["crash"] = classify_crash(rc, err)
                res[i - 1]["err"] = (err or "")[-6000:]
            break
        res[i] = {"out": lines[pos:], "crash": classify_crash(rc, err) if rc != 0 else "truncated-output", "err": (err or "")[-6000:]}
        start = i + 1
    return res


# ----------------------------------------------------------------------------- independent property oracle
def clamp(v, lo, hi):
    return lo if v < lo else hi if v > hi else v


def kv(line):
    return dict(m.groups() for m in re.finditer(r"(\w+)=(-?\w+)", line))


def parse_shape(txt):
    parts = [p.split() for p in txt.split("|")]
    return [int(x) for x in parts[0]], [int(x) for x in parts[1]], int(parts[2][0])


def oracle(ops, rec):
    """C17 stated directly over the implementation's outputs; expectations are computed from the op INPUTS in Python
    (never through the model).  Returns a list of (key, message, op index)."""
    v = []
    out = rec["out"]
    exp = None
    running = False
    configured = False
    for k, (op, line) in enumerate(zip(ops, out)):
        w = op.split()
        f = kv(line)
        if "DOUBLEFREE" in line or "DEAD" in line:
            v.append(("double-free", "op %d (%s): the camera freed or reallocated a block that was not live: %s" % (k, op, line), k))
            return v
        if w[0] == "new":
            exp = {"exp": 10000, "b": 1, "type": 0, "ox": 0, "oy": 0, "w": 1920, "h": 1080}
            running = False
            configured = False
        elif w[0] == "set":
            b, t, rw, rh, ox, oy, ex = [int(x) for x in w[1:8]]
            b8 = (b % 256) or 1
            if f.get("rc") == "0":
                lim = MAXDIM // b8
                exp = {"exp": ex, "b": b8, "type": t, "ox": ox % 2 ** 32, "oy": oy % 2 ** 32,
                       "w": clamp(rw % 2 ** 32, 1, lim), "h": clamp(rh % 2 ** 32, 1, lim)}
                configured = True
        elif w[0] == "get":
            got = {x: int(f[x]) for x in ("exp", "b", "type", "ox", "oy", "w", "h") if x in f}
            if f.get("rc") != "0" or got != exp:
                v.append(("get-mismatch", "op %d: get returned %s but the values in effect (clamp of the last accepted set) are %s" % (k, got, exp), k))
                return v
        elif w[0] == "shape":
            try:
                d, s, t = parse_shape(line.split(" ", 2)[2])
            except Exception:
                v.append(("shape-mismatch", "op %d: unreadable shape line %r" % (k, line), k))
                return v
            if d != [1, exp["w"], exp["h"], 1] or s != [1, 1, exp["w"], exp["w"] * exp["h"]] or t != exp["type"]:
                v.append(("shape-mismatch", "op %d: reported dims %s strides %s type %d; expected dims %s strides %s type %d"
                          % (k, d, s, t, [1, exp["w"], exp["h"], 1], [1, 1, exp["w"], exp["w"] * exp["h"]], exp["type"]), k))
                return v
        elif w[0] == "meta":
            if int(f.get("whi", -1)) != MAXDIM // exp["b"] or int(f.get("hhi", -1)) != MAXDIM // exp["b"] or f.get("wlo") != "1":
                v.append(("meta-mismatch", "op %d: limits %s for binning %d" % (k, line, exp["b"]), k))
        elif w[0] == "start":
            if f.get("rc") != "0":
                v.append(("start-failed", "op %d: start failed" % k, k))
            running = True
        elif w[0] == "stop":
            running = False
        elif w[0] == "frame":
            n = exp["w"] * exp["h"] * BPP.get(exp["type"], 0)
            if running and configured:
                # written/prefix are exact only when the harness saw the copy-out (one memcpy into the caller's buffer);
                # otherwise only "nothing beyond n bytes changed" is decidable from outside
                if f.get("copies") == "1":
                    ok = f.get("rc") == "0" and int(f.get("written", -1)) == n and f.get("tail") == "0" and f.get("prefix") == "1"
                else:
                    ok = f.get("rc") == "0" and 0 <= int(f.get("written", -1)) <= n and f.get("tail") == "0"
                if ok:
                    try:
                        d, s, t = parse_shape(line.split(" | ", 1)[1])
                        ok = d == [1, exp["w"], exp["h"], 1] and s == [1, 1, exp["w"], exp["w"] * exp["h"]] and t == exp["type"]
                    except Exception:
                        ok = False
                if not ok:
                    v.append(("copy-mismatch", "op %d: get_frame must fill exactly %d bytes (= %d x %d x %d) of the caller's buffer with the "
                              "published image and report the shape in effect; observed: %s" % (k, n, exp["w"], exp["h"], BPP.get(exp["type"], 0), line), k))
                    return v
            else:
                if f.get("rc") != "1" or f.get("written") != "0":
                    v.append(("copy-mismatch", "op %d: get_frame on a stopped camera must fail and write nothing: %s" % (k, line), k))
                    return v
        elif w[0] == "frameshort":
            if f.get("rc") != "1" or f.get("written") != "0":
                v.append(("copy-mismatch", "op %d: get_frame with a buffer one byte too small must fail and write nothing: %s" % (k, line), k))
                return v
    if rec["crash"] and is_memory_error(rec["crash"]):
        k = len(out)
        at = ops[k - 1] if 0 < k <= len(ops) else "?"
        v.append((rec["crash"], "memory-safety: the camera process ended with a sanitizer report / signal (%s) around op %d (%s): %s"
                  % (rec["crash"], k - 1, at, crash_summary(rec["err"])), k))
    return v


# ----------------------------------------------------------------------------- generators
def pick_dim(rng, maxv):
    c = [b for b in BOUNDARY if b <= maxv]
    if rng.random() < 0.65:
        return rng.choice(c)
    return rng.randint(1, maxv)


def pick_cfg(rng, cap_pixels, kind=None, t=None, b=None, small_exposure=True):
    """A configuration whose FULL-RESOLUTION image has at most cap_pixels samples.  Returns the set-op text."""
    if b is None:
        r = rng.random()
        b = rng.choice([1, 2, 4, 8]) if r < 0.8 else rng.choice([0, 16, 32, 64, 128])
    if t is None:
        t = rng.choice(TYPES)
    b8 = b or 1
    maxd = MAXDIM // b8
    w = pick_dim(rng, maxd)
    maxh = min(maxd, max(1, cap_pixels // (b8 * b8 * w)))
    h = pick_dim(rng, maxh)
    if rng.random() < 0.5 and h * b8 * b8 * w <= cap_pixels:
        w, h = h, w
    rw, rh = w, h
    if w == maxd and rng.random() < 0.6:
        rw = rng.choice([maxd + 1, 9000, 65535, 2 ** 32 - 1])
    if h == maxd and rng.random() < 0.6:
        rh = rng.choice([maxd + 1, 9000, 65535, 2 ** 32 - 1])
    if w == 1 and rng.random() < 0.3:
        rw = 0
    if h == 1 and rng.random() < 0.3:
        rh = 0
    ox = rng.choice([0, 0, 1, 5, 100, 8191, 2 ** 32 - 1])
    oy = rng.choice([0, 0, 1, 7, 640, 8191, 2 ** 32 - 1])
    ex = rng.choice([0, 1, 100, 999, 1000, 2500]) if small_exposure else rng.choice([0, 1, 1000, 10000, 1000000, 16777215])
    return "set %d %d %d %d %d %d %d" % (b, t, rw, rh, ox, oy, ex)


def bad_set(rng):
    b = rng.choice([3, 5, 6, 7, 9, 10, 12, 24, 100, 129, 255])
    return "set %d %d %d %d 0 0 1000" % (b, rng.choice(TYPES), rng.choice([1, 64, 8192]), rng.choice([1, 48, 8192]))


def gen_camera_history(rng, cap, kind, t=None, b=None):
    """set / start / get_frame x1..3 / stop / set ... on a real streamer thread."""
    ops = ["new %d" % kind]
    first = True
    nrounds = 1 + (rng.random() < 0.6) + (rng.random() < 0.25)
    last = None
    for r in range(nrounds):
        if not first and rng.random() < 0.25:
            ops.append(bad_set(rng))
            ops += ["get", "shape"]
        cfg = pick_cfg(rng, cap, kind, t if first else None, b if first else None)
        last = cfg
        ops.append(cfg)
        ops += ["get", "shape"]
        if rng.random() < 0.5:
            ops.append("meta")
        if rng.random() < 0.15:
            ops.append("frame 0 17")           # not running: must fail
        ops.append("start")
        for _ in range(rng.randint(1, 3)):
            ops.append("frame %d %d" % (rng.choice([0, 0, 1, 7, 64]), rng.choice([0, 0x5a, 0xa5, 0xff, 0xbe])))
        if rng.random() < 0.3:
            ops.append("frameshort")
        if rng.random() < 0.12:
            # re-set the configuration in effect while the streamer runs (same sizes: the buffers do not move)
            ops.append(re_set_same(last))
            ops += ["get", "shape", "frame 3 1"]
        if rng.random() < 0.2:
            ops += ["stop", "start", "frame 1 2"]   # restart without re-configuration
        ops.append("stop")
        if rng.random() < 0.2:
            ops.append("stop")                 # stop twice is harmless (thread_join on a joined thread)
        first = False
    if rng.random() < 0.3:
        ops.append("frame 0 9")
    ops.append("close")
    return ops


def re_set_same(cfg):
    """The same configuration with the shape already clamped (so the request equals what is in effect)."""
    w = cfg.split()
    b, t, rw, rh = int(w[1]), int(w[2]), int(w[3]), int(w[4])
    lim = MAXDIM // ((b % 256) or 1)
    return "set %d %d %d %d %s %s %s" % (b, t, clamp(rw, 1, lim), clamp(rh, 1, lim), w[5], w[6], w[7])


def gen_config_history(rng):
    """set/get only (no thread): cheap, so shapes are unrestricted up to a few large ones."""
    ops = ["new %d" % rng.choice(KINDS), "get", "shape"]
    for _ in range(rng.randint(3, 10)):
        if rng.random() < 0.2:
            ops.append(bad_set(rng))
        else:
            ops.append(pick_cfg(rng, 1 << (26 if rng.random() < 0.02 else 22), small_exposure=False))
        ops += rng.choice([["get", "shape"], ["shape", "get", "meta"], ["get"], ["shape"]])
    ops.append("close")
    return ops


def gen_ext_cases(rng, n, cap):
    """Probe cases (routine + arguments); the extents come from the model."""
    cases = []
    for i in range(n):
        r = i % 6
        w = pick_dim(rng, MAXDIM)
        h = pick_dim(rng, min(MAXDIM, max(1, cap // w)))
        if rng.random() < 0.5:
            w, h = h, w
        if r == 0:
            cases.append("rand %d %d %d" % (rng.choice(TYPES), w, h))
        elif r == 1:
            cases.append("pat %d %d %d" % (rng.choice(PATTERN_TYPES if rng.random() < 0.9 else [5, 6, 7]), w, h))
        elif r in (2, 3):
            cases.append("avx2 %d %d" % (w, h))
        elif r == 4:
            cases.append("plain %d %d" % (w, h))
        else:
            cases.append("copy %d %d %d" % (rng.choice(TYPES), w, h))
    return cases


def fixed_ext_cases():
    c = []
    for (w, h) in [(1, 1), (1, 2), (2, 1), (2, 2), (31, 2), (32, 2), (33, 2), (31, 31), (32, 32), (33, 33), (64, 64), (16, 100),
                   (8191, 2), (8192, 2), (2, 8191), (2, 8192), (8191, 3), (1, 8192), (8192, 1), (96, 5), (97, 5), (1024, 1024)]:
        c += ["avx2 %d %d" % (w, h), "plain %d %d" % (w, h)]
    for t in TYPES:
        c += ["rand %d 33 7" % t, "rand %d 1 1" % t, "copy %d 33 7" % t, "copy %d 1 1" % t, "pat %d 33 7" % t, "pat %d 1 1" % t]
    c += ["rand 4 2048 2048", "pat 1 1024 1024", "copy 4 1024 1024", "rand 0 8192 31", "pat 4 31 8192"]
    return c


# ----------------------------------------------------------------------------- extent / alignment probes
def ext_probes(orac, cases):
    """Ask the model for (extent, unit, width, align) of every case and derive the probes with their expected class."""
    q = ["x " + c for c in cases]
    rc, lines, e = run_lines([orac], q)
    if rc != 0 or len(lines) != len(q):
        raise vlib.BuildError("model oracle failed on extent queries: " + (e or "")[-500:])
    probes = []
    for c, l in zip(cases, lines):
        m = re.match(r"X (-?\d+) (\d+) (\d+) (\d+)$", l)
        if not m:
            raise vlib.BuildError("model oracle: unexpected answer %r to %r" % (l, c))
        ext, unit, width, al = [int(x) for x in m.groups()]
        w = c.split()
        names = [w[0]] if w[0] != "copy" else ["copysrc", "copydst"]
        for nm in names:
            args = " ".join(w[1:])
            if ext <= 0:
                probes.append((c, "%s %s 0 0" % (nm, args), "clean", "extent0"))
                continue
            probes.append((c, "%s %s %d 0" % (nm, args, ext), "clean", "exact"))
            probes.append((c, "%s %s %d 0" % (nm, args, ext - 1), "overflow", "minus1"))
            if nm in ("copysrc", "copydst"):
                continue
            # alignment: a base that is a multiple of the required alignment only; and half of it must be flagged
            probes.append((c, "%s %s %d %d" % (nm, args, ext, al if al > 1 else 1), "clean", "aligned-min"))
            if nm == "avx2":
                probes.append((c, "%s %s %d 16" % (nm, args, ext), "clean", "aligned-malloc16"))
            if al > 1:
                probes.append((c, "%s %s %d %d" % (nm, args, ext, al // 2), "misaligned", "misaligned-half"))
    return probes


def run_ext(impl, probes):
    shards = [s for s in vlib.shard(probes, vlib.NPROC) if s]

    def one(sh):
        rc, lines, e = run_lines([impl, "ext"], [p[1] for p in sh], timeout=900, env=SAN_ENV)
        return rc, lines, e
    res = vlib.parallel(one, shards)
    outs = []
    for sh, (rc, lines, e) in zip(shards, res):
        if rc != 0 or len(lines) != len(sh):
            raise vlib.BuildError("harness ext mode failed (rc=%s, %d of %d lines): %s" % (rc, len(lines), len(sh), (e or "")[-500:]))
        for p, l in zip(sh, lines):
            outs.append((p, l.replace("EXT ", "")))
    return outs


# ----------------------------------------------------------------------------- differential + oracle over histories
def wellformed(ops):
    """The protocol the HAL/runtime guarantee: start only on a configured (some accepted set happened), stopped camera;
    sample-type codes inside the enum."""
    configured = running = False
    for o in ops:
        w = o.split()
        if w[0] == "new":
            configured = running = False
        elif w[0] == "set":
            b8 = (int(w[1]) % 256) or 1
            if int(w[2]) not in BPP:
                return False
            if b8 & (b8 - 1) == 0:
                configured = True
        elif w[0] == "start":
            if not configured or running:
                return False
            running = True
        elif w[0] == "stop":
            running = False
    return True


def minimise(impl, h, key, env, keymap):
    def fails(cand):
        ops = [h[0]] + cand
        if not wellformed(ops):
            return False
        rec = run_histories(impl, [ops], env=env, timeout=120)[0]
        return any(keymap(k) == key for (k, _, _) in oracle(ops, rec))
    try:
        cur = [h[0]] + vlib.ddmin(h[1:], fails, max_tests=60)
    except Exception:
        return h
    # shrink the requested shapes of the remaining set ops
    for i, o in enumerate(cur):
        w = o.split()
        if w[0] != "set":
            continue
        for cand in ((64, 48), (33, 7), (16, 16), (4, 4)):
            if int(w[3]) * int(w[4]) <= cand[0] * cand[1]:
                continue
            t = list(cur)
            t[i] = " ".join(w[:3] + [str(cand[0]), str(cand[1])] + w[5:])
            try:
                if fails(t[1:]):
                    cur = t
                    w = t[i].split()
            except Exception:
                break
    return cur


def same_key(k):
    return k


def native_key(k):
    """Without a sanitizer an overflow or a misaligned vector store is undefined behaviour: the process may die of SIGSEGV,
    of glibc's heap-consistency abort, or silently corrupt a neighbouring block.  One key for all of them."""
    return "native-memory-corruption"


def fold_histories(ctx, impl, label, hists, mrecs, irecs, env, build_name, nontrivial_fn, keymap=same_key):
    for h, m, r in zip(hists, mrecs, irecs):
        ctx.case(label + "\n" + "\n".join(h), nontrivial=nontrivial_fn(h, r))
        viol = oracle(h, r)
        for (key0, msg, k) in viol:
            key = keymap(key0)
            if not ctx.has_violation(key):
                hh = minimise(impl, h, key, env, keymap)
                rr = run_histories(impl, [hh], env=env, timeout=120)[0]
                ctx.violation(msg, {"history": hh, "impl_output": rr["out"], "crash": rr["crash"], "stderr": crash_summary(rr["err"]),
                                    "original_history": h,
                                    "how": "printf '%%s\\n' <history lines> | .build/%s/%s seq   (built by this check from the repository under test; "
                                           "ASAN_OPTIONS=detect_leaks=0)" % (ctx.prop, build_name)}, key=key)
            else:
                ctx.violation(msg, None, key=key)
        if m["out"] != r["out"] or r["crash"]:
            d = next((k for k in range(min(len(m["out"]), len(r["out"]))) if m["out"][k] != r["out"][k]), min(len(m["out"]), len(r["out"])))
            ctx.broken_tie("model/implementation disagreement on a camera history (%s)" % label,
                           {"history": h[:d + 1], "op": h[d] if d < len(h) else None,
                            "model": m["out"][d] if d < len(m["out"]) else None,
                            "impl": r["out"][d] if d < len(r["out"]) else ("<process ended: %s>" % r["crash"])})
        else:
            ctx.traces_validated += 1


def model_histories(orac, hists):
    flat = [o for h in hists for o in h]
    rc, lines, e = run_lines([orac], flat)
    if rc != 0 or len(lines) != len(flat):
        raise vlib.BuildError("model oracle failed: rc=%s %d/%d lines %s" % (rc, len(lines), len(flat), (e or "")[-400:]))
    res = []
    pos = 0
    for h in hists:
        res.append({"out": lines[pos:pos + len(h)], "crash": None, "err": ""})
        pos += len(h)
    return res


def model_predicts_safe(orac, hists):
    """For every state in which a frame is produced the model's own verdicts (frame_in_bounds, frame_aligned) must be 1 --
    a run-time restatement of C17_in_bounds / C17_aligned on the extracted code; returns the number of states checked."""
    n = 0
    for h in hists:
        q = []
        for o in h:
            q.append(o)
            if o.startswith("set"):
                q += ["acc avx2", "acc plain"]
        rc, lines, e = run_lines([orac], q)
        for l in lines:
            if l.startswith("ACC"):
                n += 1
                f = kv(l)
                if f.get("conf") == "1" and (f.get("inb") != "1" or f.get("al") != "1"):
                    return -1
    return n


def load_corpus():
    cdir = os.path.join(vlib.VERIF, "corpus", "C17")
    res = []
    if os.path.isdir(cdir):
        for fn in sorted(os.listdir(cdir)):
            if fn.endswith(".txt"):
                ops = [l.strip() for l in open(os.path.join(cdir, fn)) if l.strip() and not l.startswith("#")]
                if ops:
                    res.append((fn, ops))
    return res


def nontriv_camera(h, r):
    return any(l.startswith("FRAME rc=0") for l in r["out"]) and any(l.startswith("SET rc=0") for l in r["out"])


def nontriv_config(h, r):
    return any(l.startswith("SET rc=0") and " bout=1 " not in l for l in r["out"]) or \
        any(o.split()[0] == "set" and (int(o.split()[3]) > MAXDIM or int(o.split()[3]) == 0) for o in h)


# ----------------------------------------------------------------------------- entry point
def run(ctx):
    ctx.coq_prove(["Properties_C17"])
    orac, impl, native = build(ctx)
    thorough = ctx.tier == "thorough"
    rng = ctx.rng
    ctx.rule = ("(1) extent/alignment probes: every render/bin/copy routine of the real code is run in a child process on an ASan heap "
                "buffer of exactly the model's extent (must be clean), of extent-1 (must be reported), and on bases aligned only as "
                "much as the model says is needed (clean) / half of it (UBSan must report) -- boundary widths/heights 1,31,32,33,...,8191,8192 "
                "and random ones; (2) set/get histories (no thread) with unrestricted requested shapes, all binning bytes incl. rejected ones; "
                "(3) whole-camera histories new/set/get/start/get_frame x1..3/frameshort/stop/set... for every (kind, sample type, binning in "
                "1,2,4,8) triple plus random ones, on the real linux platform.c with a real streamer pthread under ASan+UBSan, image buffers "
                "handed out 16 bytes after a 32-byte boundary, caller buffers sentinel-filled; (4) the same on an unsanitised -O2 build with "
                "glibc malloc.  Model and implementation must print identical lines (allocation sizes, get/get_shape/get_meta values, bytes "
                "written).  non-trivial = at least one accepted set and one delivered frame (3,4), a clamp or a binning > 1 acted (2), "
                "a non-empty extent (1); distinct = distinct op text")
    ctx.assumptions = ["allocation succeeds (<= 256 MiB per buffer) and returns 16-byte aligned blocks (alignof(max_align_t))",
                       "set is not called while the streamer renders with a configuration that changes the buffer size (data race outside the sequential model; "
                       "only a re-set of the identical configuration is exercised while running)",
                       "start only on a configured, stopped camera (what the HAL/runtime do); sample-type codes 0..7",
                       "frame_start trigger disabled (trigger gating is C18)"]
    ctx.extra["partial"] = ("`set` while the streamer thread is rendering (buffers reallocated under it) is a data race the sequential geometry "
                            "model does not express; it is exercised only by the ASan whole-camera runs, and only with size-preserving re-sets")
    env = SAN_ENV

    # ---- corpus first
    corpus = load_corpus()
    if corpus:
        hs = [ops for _, ops in corpus]
        mrec = model_histories(orac, hs)
        irec = vlib.parallel(lambda h: run_histories(impl, [h], env=env, timeout=300)[0], hs)
        fold_histories(ctx, impl, "corpus", hs, mrec, irec, env, "h_simgeom", nontriv_camera)
        nrec = vlib.parallel(lambda h: run_histories(native, [h], timeout=300)[0], hs)
        fold_histories(ctx, native, "corpus-native", hs, mrec, nrec, None, "h_simgeom_native", nontriv_camera, native_key)
        ctx.count("corpus", len(hs))

    # ---- (1) extent tightness and alignment probes
    cases = fixed_ext_cases() + gen_ext_cases(rng, 8000 if thorough else 300, 1 << (22 if thorough else 20))
    if thorough:
        cases += ["rand 4 8192 8192", "avx2 8192 8192", "plain 8192 8192", "copy 4 8192 8192", "pat 4 4096 4096"]
    cases = list(dict.fromkeys(cases))
    probes = ext_probes(orac, cases)
    outs = run_ext(impl, probes)
    bad_ext = []
    for (case, line, want, what), got in outs:
        ctx.case("ext " + line, nontrivial=what != "extent0")
        ctx.count("probe:" + line.split()[0] + ":" + what)
        if got == want:
            ctx.traces_validated += 1
        else:
            bad_ext.append((case, line, want, what, got))
            ctx.broken_tie("extent/alignment probe disagrees with the model (%s, %s)" % (line.split()[0], what),
                           {"probe": line, "model_expects": want, "implementation": got,
                            "how": "echo '%s' | .build/%s/h_simgeom ext" % (line, ctx.prop)})
    ctx.extra["ext_probes"] = {"cases": len(cases), "probes": len(probes), "disagreements": len(bad_ext)}
    ctx.sample({"probe": probes[1][1], "expected": probes[1][2]})

    # ---- (2) set/get histories
    nconf = 15000 if thorough else 400
    chists = [gen_config_history(rng) for _ in range(nconf)]
    for h in chists:
        for o in h:
            ctx.count("op:" + o.split()[0])
            if o.startswith("set"):
                ctx.count("binning:%s" % o.split()[1])
    shards = [s for s in vlib.shard(chists, vlib.NPROC) if s]
    mres = vlib.parallel(lambda s: model_histories(orac, s), shards)
    ires = vlib.parallel(lambda s: run_histories(impl, s, env=env, timeout=900), shards)
    for s, m, r in zip(shards, mres, ires):
        fold_histories(ctx, impl, "config", s, m, r, env, "h_simgeom", nontriv_config)
    ctx.sample(chists[0][:12])

    # ---- (3) whole-camera histories under ASan/UBSan with a real streamer thread
    cap = 1 << 20
    whists = []
    for kind in KINDS:
        for t in TYPES:
            for b in (1, 2, 4, 8):
                whists.append(gen_camera_history(rng, cap, kind, t, b))
    extra = 8000 if thorough else 150
    for _ in range(extra):
        whists.append(gen_camera_history(rng, 1 << (rng.choice([16, 18, 20, 22]) if thorough else rng.choice([14, 16, 18, 20])), rng.choice(KINDS)))
    # full-sensor configurations (256 MiB / 64 MiB buffers): few, they are slow
    big = [["new 0", "set 8 0 1024 1024 0 0 100", "get", "shape", "start", "frame 1 90", "stop", "close"],
           ["new 2", "set 1 1 8192 8191 0 0 100", "shape", "start", "frame 0 90", "stop", "set 2 4 9000 4096 0 0 100", "shape", "start", "frame 1 1", "stop", "close"],
           ["new 1", "set 4 3 2048 31 1 1 100", "shape", "start", "frame 1 90", "frame 1 91", "stop", "close"]]
    if thorough:
        big += [["new 0", "set 1 4 8192 8192 0 0 100", "get", "shape", "start", "frame 1 90", "stop", "set 8 4 8192 8192 0 0 100", "get", "shape", "start", "frame 1 90", "stop", "close"],
                ["new 1", "set 2 0 4096 4096 0 0 100", "shape", "start", "frame 1 90", "stop", "close"],
                ["new 2", "set 128 2 64 64 0 0 100", "get", "shape", "meta", "start", "frame 1 90", "stop", "close"]]
    whists += big
    for h in whists:
        for o in h:
            ctx.count("op:" + o.split()[0])
            if o.startswith("set"):
                ctx.count("binning:%s" % o.split()[1])
                ctx.count("type:%s" % o.split()[2])
        ctx.count("kind:%s" % h[0].split()[1])
    ctx.sample(whists[5])
    shards = [s for s in vlib.shard(whists, vlib.NPROC) if s]
    mres = vlib.parallel(lambda s: model_histories(orac, s), shards)
    ires = vlib.parallel(lambda s: run_histories(impl, s, env=env, timeout=1000), shards)
    for s, m, r in zip(shards, mres, ires):
        fold_histories(ctx, impl, "camera", s, m, r, env, "h_simgeom", nontriv_camera)
    # the extracted model's own verdicts on those states
    chk = model_predicts_safe(orac, whists[:150])
    if chk < 0:
        ctx.broken_tie("the extracted model reports an out-of-bounds or misaligned access for a configured state (contradicts C17_in_bounds/C17_aligned)", "")
    ctx.extra["model_states_checked_in_bounds_aligned"] = chk

    # ---- (4) unsanitised -O2 build with glibc's allocator: what a user of the library sees
    nhists = [["new 2", "set 2 4 1024 1024 0 0 100", "shape", "start", "frame 1 90", "frame 0 91", "stop", "close"],
              ["new 0", "set 2 0 1024 1024 0 0 100", "shape", "start", "frame 1 90", "stop", "set 4 1 512 300 0 0 100", "start", "frame 1 90", "stop", "close"],
              ["new 1", "set 8 4 333 129 3 3 100", "get", "shape", "start", "frame 1 90", "stop", "close"]]
    for _ in range(150 if thorough else 6):
        nhists.append(gen_camera_history(rng, 1 << 22, rng.choice(KINDS), None, rng.choice([2, 4, 8])))
    mres = model_histories(orac, nhists)
    ires = vlib.parallel(lambda h: run_histories(native, [h], timeout=600)[0], nhists)
    fold_histories(ctx, native, "native", nhists, mres, ires, None, "h_simgeom_native", nontriv_camera, native_key)
    ctx.count("native-histories", len(nhists))

    # ---- out-of-domain observation (D23): unknown sample-type code after a valid set.  Recorded, never alarmed.
    d23 = ["new 0", "set 1 0 64 48 0 0 1000", "set 1 9 64 48 0 0 1000", "get", "close"]
    try:
        rec = run_histories(impl, [d23], env=env, timeout=60)[0]
        seen = any("DOUBLEFREE" in l or "DEAD" in l for l in rec["out"]) or bool(rec["crash"])
        ctx.extra["out_of_domain_D23"] = {"history": d23, "impl_output": rec["out"], "double_free_observed": seen,
                                          "note": "sample-type code 9 has bytes_of_type = 0: realloc(p, 0) frees p and returns NULL, checked_realloc then "
                                                  "frees p again; the configuration is rejected, so it is outside C17's domain (accepted configurations)"}
        ctx.notes.append("D23 (out of domain, not alarmed): set with an unknown sample-type code after a valid set -> %s"
                         % ("double free observed" if seen else "no double free observed on this tree"))
    except Exception as ex:  # never let the observation decide the verdict
        ctx.notes.append("D23 probe could not be run: %r" % (ex,))

    if thorough:
        rc, o, e = vlib.sh("timeout 900 coqchk -silent -o -Q . SimGeom SimGeom.Properties_C17", cwd=ctx.coqdir, timeout=1000)
        ctx.extra["coqchk"] = "ok" if rc == 0 else ("failed: " + (o + e)[-400:])
        if rc != 0:
            ctx.broken_tie("coqchk rejected Properties_C17", (o + e)[-800:])
