/* h_simgeom.c -- driver for the real simulated camera (DESIGN 3(a), 6.17; property C17).

   The unit under test is reached with  #include "simulated.camera.c"  (so the statics -- im_fill_rand,
   im_fill_pattern, bin2, compute_strides, simcam_* -- are callable) after malloc/realloc/free have been renamed
   to logging wrappers, so every allocation size the camera asks for is observable.  The other units
   (imfill.pattern.cpp, popcount.cpp, pcg_basic.c, components.c, linux/platform.c, logger.c) are compiled from the
   repository under test and linked unchanged; the streamer thread is a real pthread.

   Modes
     h_simgeom seq      line protocol on stdin, one canonical result line per op (same protocol as oracle/main.ml):
                          new <kind 0|1|2>                         simcam_make_camera (Random, Sin, Empty)
                          set <b> <type> <w> <h> <ox> <oy> <exp>   camera->set
                          get | shape | meta                       camera->get / get_shape / get_meta
                          start | stop | close
                          frame <slack> <sentinel>                 get_frame into a sentinel-filled caller buffer of
                                                                   bytes_of_image(get_shape)+slack bytes
                          frameshort                               get_frame with *nbytes = bytes_of_image-1 (must fail, untouched)
     h_simgeom ext      extent / alignment probes: every line is run in a forked child on a heap buffer of exactly
                        <size> bytes that starts <mis> bytes after a 32-byte boundary; the parent classifies the child
                        as clean | overflow | misaligned | asan-other | signal:<n> | other:<status>
                          rand  <type> <W> <H> <size> <mis>        im_fill_rand on a W x H image
                          pat   <type> <W> <H> <size> <mis>        im_fill_pattern
                          avx2  <w> <h> <size> <mis>               bin2 of bin2.avx2.c   (the one simulated.camera.c uses)
                          plain <w> <h> <size> <mis>               bin2 of bin2.plain.c
                          copysrc <type> <w> <h> <size> <mis>      simcam_get_frame, frame_data is the probed buffer
                          copydst <type> <w> <h> <size> <mis>      simcam_get_frame, the caller's buffer is the probed one

   Copy-out hook.  simulated.camera.c's one memcpy (the copy-out of simcam_get_frame, executed under im.lock) is
   renamed to vh_memcpy, which snapshots the source when the destination is the caller's buffer of a `frame` op.  The
   harness compares the caller's buffer with that snapshot (prefix=1), counts the bytes that changed plus the bytes whose
   published value equals the sentinel (written=...), and the changed bytes beyond bytes_of_image (tail=...).  Reading
   self->im.frame_data after get_frame returned would race with the streamer's buffer swap (frame_wanted can be stale
   across stop/start), so it is not done.

   Allocator wrappers.  In the sanitizer build a block handed to the camera starts 16 bytes after a 32-byte
   boundary -- the weakest alignment malloc/realloc guarantee on x86-64 (alignof(max_align_t) = 16; glibc returns
   such addresses for every mmapped chunk) -- and ends exactly at the end of the underlying ASan block, so an
   overflow by one byte is reported.  With -DVH_NATIVE the wrappers only log and forward to glibc. */
#define _GNU_SOURCE
#include <errno.h>
#include <stdint.h>
#include <stdio.h>
#include <stdlib.h>
#include <string.h>
#include <sys/wait.h>
#include <unistd.h>

/* ------------------------------------------------------------------------------------------------ allocator log */
#define VH_MAXBLK 64
#define VH_MAXLOG 64
static struct { void* user; void* raw; size_t n; } vh_blk[VH_MAXBLK];
static struct { char op; long long oldn; long long n; } vh_log[VH_MAXLOG];
static int vh_nlog = 0;
static int vh_double_free = 0;

static void vh_note(char op, long long oldn, long long n)
{
    if (vh_nlog < VH_MAXLOG) { vh_log[vh_nlog].op = op; vh_log[vh_nlog].oldn = oldn; vh_log[vh_nlog].n = n; vh_nlog++; }
}
static int vh_find(void* p)
{
    for (int i = 0; i < VH_MAXBLK; ++i) if (vh_blk[i].user == p && p) return i;
    return -1;
}
static void* vh_fresh(size_t n)
{
    int i;
    for (i = 0; i < VH_MAXBLK && vh_blk[i].user; ++i) {}
    if (i == VH_MAXBLK) { fprintf(stderr, "h_simgeom: block table full\n"); exit(3); }
#ifdef VH_NATIVE
    void* raw = malloc(n ? n : 1);
    if (!raw) return 0;
    vh_blk[i].raw = raw; vh_blk[i].user = raw;
#else
    void* raw = 0;
    if (posix_memalign(&raw, 32, n + 16)) return 0;
    vh_blk[i].raw = raw; vh_blk[i].user = (char*)raw + 16;
#endif
    vh_blk[i].n = n;
    return vh_blk[i].user;
}
/* the camera object itself (malloc(sizeof *self)) is forwarded; it is logged as 'm' */
static void* vh_cam_blocks[8];
void* vh_malloc(size_t n)
{
    void* p = malloc(n);
    for (int i = 0; i < 8; ++i) if (!vh_cam_blocks[i]) { vh_cam_blocks[i] = p; break; }
    vh_note('m', -1, (long long)n);
    return p;
}
void* vh_realloc(void* p, size_t n)
{
    int i = p ? vh_find(p) : -1;
    long long oldn = p ? (i >= 0 ? (long long)vh_blk[i].n : -2) : -1;
    vh_note('r', oldn, (long long)n);
    if (p && i < 0) { vh_double_free++; return 0; }          /* realloc of a block that is not live */
    if (!p) return vh_fresh(n);                               /* realloc(NULL, n) = malloc(n), also for n = 0 */
    if (n == 0) {                                             /* glibc and ASan: free, return NULL */
        free(vh_blk[i].raw); vh_blk[i].user = 0; vh_blk[i].raw = 0;
        return 0;
    }
    if (n == vh_blk[i].n) return p;
#ifdef VH_NATIVE
    {
        void* q = realloc(vh_blk[i].raw, n);
        if (!q) return 0;
        vh_blk[i].raw = vh_blk[i].user = q; vh_blk[i].n = n;
        return q;
    }
#else
    {
        void* oldraw = vh_blk[i].raw; void* olduser = vh_blk[i].user; size_t on = vh_blk[i].n;
        vh_blk[i].user = 0;
        void* q = vh_fresh(n);
        if (!q) { vh_blk[i].user = olduser; return 0; }
        memcpy(q, olduser, on < n ? on : n);
        free(oldraw);
        return q;
    }
#endif
}
void vh_free(void* p)
{
    if (!p) { vh_note('f', -1, 0); return; }
    int i = vh_find(p);
    if (i >= 0) {
        vh_note('f', (long long)vh_blk[i].n, 0);
        free(vh_blk[i].raw); vh_blk[i].user = 0; vh_blk[i].raw = 0;
        return;
    }
    for (int k = 0; k < 8; ++k) if (vh_cam_blocks[k] == p) { vh_cam_blocks[k] = 0; vh_note('f', -3, 0); free(p); return; }
    vh_note('f', -2, 0);                                      /* free of a block that is not live: double free */
    vh_double_free++;
}
static void vh_print_log(void)
{
    /* canonical: only the reallocs/frees of image buffers; r:<old size|null>><new size>  f:<size|null> */
    printf(" A[");
    int first = 1;
    for (int i = 0; i < vh_nlog; ++i) {
        if (vh_log[i].op == 'm' || (vh_log[i].op == 'f' && vh_log[i].oldn == -3)) continue;
        if (!first) printf(" ");
        first = 0;
        if (vh_log[i].op == 'r') {
            if (vh_log[i].oldn == -1) printf("r:null>%lld", vh_log[i].n);
            else if (vh_log[i].oldn == -2) printf("r:DEAD>%lld", vh_log[i].n);
            else printf("r:%lld>%lld", vh_log[i].oldn, vh_log[i].n);
        } else {
            if (vh_log[i].oldn == -1) printf("f:null");
            else if (vh_log[i].oldn == -2) printf("f:DEAD");
            else printf("f:%lld", vh_log[i].oldn);
        }
    }
    printf("]");
    if (vh_double_free) printf(" DOUBLEFREE=%d", vh_double_free);
    vh_nlog = 0;
}

/* ------------------------------------------------------------------------------------------------ copy-out hook */
/* simulated.camera.c's memcpy (the copy-out in simcam_get_frame, executed under im.lock) is renamed to this wrapper.
   When the destination is the caller buffer being watched it snapshots the source, so that the harness can compare
   the caller's buffer with the image that was published without racing with the streamer's buffer swap. */
static struct { int calls; size_t n; unsigned char* snap; } vh_copy;
static const void* vh_watch_dst = 0;
void* vh_memcpy(void* dst, const void* src, size_t n)
{
    if (vh_watch_dst && dst == vh_watch_dst) {
        vh_copy.calls++;
        vh_copy.n = n;
        free(vh_copy.snap);
        vh_copy.snap = malloc(n ? n : 1);
        memcpy(vh_copy.snap, src, n);
    }
    return memcpy(dst, src, n);
}

/* ------------------------------------------------------------------------------------------------ unit under test */
#define bin2 bin2_plain
#include "bin2.plain.c"
#undef bin2

#define malloc vh_malloc
#define realloc vh_realloc
#define free vh_free
#define memcpy vh_memcpy
#include "simulated.camera.c"
#undef memcpy
#undef malloc
#undef realloc
#undef free
#undef L
#undef LOG
#undef LOGE
#undef EXPECT
#undef CHECK
#undef max
#undef clamp

#ifndef __AVX2__
#error "the harness is built with -mavx2 like the repository (simulated.camera.c then includes bin2.avx2.c)"
#endif

/* ------------------------------------------------------------------------------------------------ helpers */
static void print_shape(const struct ImageShape* s)
{
    printf("%u %u %u %u | %lld %lld %lld %lld | %d", s->dims.channels, s->dims.width, s->dims.height, s->dims.planes,
           (long long)s->strides.channels, (long long)s->strides.width, (long long)s->strides.height,
           (long long)s->strides.planes, (int)s->type);
}

static void make_shape(struct ImageShape* s, int type, unsigned w, unsigned h)
{
    memset(s, 0, sizeof *s);
    s->dims.channels = 1; s->dims.width = w; s->dims.height = h; s->dims.planes = 1;
    s->type = (enum SampleType)type;
    compute_strides(s);
}

/* ------------------------------------------------------------------------------------------------ seq mode */
static int seq_main(void)
{
    char line[512];
    struct Camera* cam = 0;
    setvbuf(stdout, 0, _IOLBF, 1 << 12);
    while (fgets(line, sizeof line, stdin)) {
        long long a[8] = { 0 };
        if (line[0] == '#' || line[0] == '\n') continue;
        if (sscanf(line, "new %lld", &a[0]) == 1) {
            if (cam) { simcam_close_camera(cam); cam = 0; }
            vh_nlog = 0; vh_double_free = 0;
            enum BasicDeviceKind k = a[0] == 0 ? BasicDevice_Camera_Random : a[0] == 1 ? BasicDevice_Camera_Sin : BasicDevice_Camera_Empty;
            cam = simcam_make_camera(k);
            vh_nlog = 0;
            printf("NEW %lld\n", a[0]);
        } else if (!cam) {
            printf("NOCAM\n");
        } else if (sscanf(line, "set %lld %lld %lld %lld %lld %lld %lld", &a[0], &a[1], &a[2], &a[3], &a[4], &a[5], &a[6]) == 7) {
            struct CameraProperties p;
            memset(&p, 0, sizeof p);
            p.binning = (uint8_t)a[0];
            p.pixel_type = (enum SampleType)a[1];
            p.shape.x = (uint32_t)a[2]; p.shape.y = (uint32_t)a[3];
            p.offset.x = (uint32_t)a[4]; p.offset.y = (uint32_t)a[5];
            p.exposure_time_us = (float)a[6];
            int rc = (int)cam->set(cam, &p);
            printf("SET rc=%d bout=%d", rc, (int)p.binning);
            vh_print_log();
            printf("\n");
        } else if (!strncmp(line, "get", 3)) {
            struct CameraProperties p;
            memset(&p, 0, sizeof p);
            int rc = (int)cam->get(cam, &p);
            printf("GET rc=%d exp=%lld b=%d type=%d ox=%u oy=%u w=%u h=%u\n", rc, (long long)p.exposure_time_us, (int)p.binning,
                   (int)p.pixel_type, p.offset.x, p.offset.y, p.shape.x, p.shape.y);
        } else if (!strncmp(line, "shape", 5)) {
            struct ImageShape s;
            memset(&s, 0, sizeof s);
            int rc = (int)cam->get_shape(cam, &s);
            printf("SHAPE rc=%d ", rc);
            print_shape(&s);
            printf("\n");
        } else if (!strncmp(line, "meta", 4)) {
            struct CameraPropertyMetadata m;
            memset(&m, 0, sizeof m);
            int rc = (int)cam->get_meta(cam, &m);
            printf("META rc=%d wlo=%lld whi=%lld hlo=%lld hhi=%lld\n", rc, (long long)m.shape.x.low, (long long)m.shape.x.high,
                   (long long)m.shape.y.low, (long long)m.shape.y.high);
        } else if (!strncmp(line, "start", 5)) {
            printf("START rc=%d\n", (int)cam->start(cam));
        } else if (!strncmp(line, "stop", 4)) {
            printf("STOP rc=%d\n", (int)cam->stop(cam));
        } else if (!strncmp(line, "close", 5)) {
            vh_nlog = 0;
            int rc = (int)simcam_close_camera(cam);
            cam = 0;
            printf("CLOSE rc=%d", rc);
            vh_print_log();
            printf("\n");
        } else if (!strncmp(line, "frameshort", 10)) {
            struct ImageShape s;
            cam->get_shape(cam, &s);
            size_t n = bytes_of_image(&s);
            unsigned char* buf = malloc(n ? n : 1);           /* the harness's own buffer: real malloc */
            memset(buf, 0x77, n ? n : 1);
            size_t nb = n ? n - 1 : 0;
            struct ImageInfo info;
            memset(&info, 0, sizeof info);
            int rc = n ? (int)cam->get_frame(cam, buf, &nb, &info) : 1;
            size_t changed = 0;
            for (size_t i = 0; i < n; ++i) changed += buf[i] != 0x77;
            printf("FRAME rc=%d written=%zu tail=0\n", rc, changed);
            free(buf);
        } else if (sscanf(line, "frame %lld %lld", &a[0], &a[1]) == 2) {
            struct ImageShape s;
            cam->get_shape(cam, &s);
            size_t n = bytes_of_image(&s), slack = (size_t)a[0];
            unsigned char sent = (unsigned char)a[1];
            unsigned char* buf = malloc(n + slack ? n + slack : 1);
            memset(buf, sent, n + slack);
            size_t nb = n + slack;
            struct ImageInfo info;
            memset(&info, 0, sizeof info);
            vh_copy.calls = 0; vh_copy.n = 0;
            vh_watch_dst = buf;
            int rc = (int)cam->get_frame(cam, buf, &nb, &info);
            vh_watch_dst = 0;
            if (rc != 0) {
                size_t changed = 0;
                for (size_t i = 0; i < n + slack; ++i) changed += buf[i] != sent;
                printf("FRAME rc=%d written=%zu tail=0\n", rc, changed);
            } else {
                /* written = bytes of the caller's buffer that changed + bytes whose published value equals the sentinel
                   (indistinguishable from written), counted over the bytes the copy-out moved; tail = changed bytes
                   beyond bytes_of_image(info.shape); prefix = the caller's first bytes are the published image. */
                size_t ni = bytes_of_image(&info.shape);
                size_t changed = 0, eqsent = 0, tail = 0, lim = ni < n + slack ? ni : n + slack;
                int prefix = vh_copy.calls == 1 && vh_copy.n == ni && lim == ni;
                for (size_t i = 0; i < lim; ++i) {
                    if (buf[i] != sent) changed++;
                    else if (vh_copy.calls == 1 && i < vh_copy.n && vh_copy.snap[i] == sent) eqsent++;
                    if (prefix && buf[i] != vh_copy.snap[i]) prefix = 0;
                }
                for (size_t i = lim; i < n + slack; ++i) tail += buf[i] != sent;
                printf("FRAME rc=%d written=%zu tail=%zu prefix=%d copies=%d nbytes=%zu | ", rc, changed + eqsent, tail, prefix,
                       vh_copy.calls, nb);
                print_shape(&info.shape);
                printf("\n");
            }
            free(buf);
        } else {
            printf("BADOP %s", line);
        }
    }
    if (cam) simcam_close_camera(cam);
    fflush(stdout);
    return 0;
}

/* ------------------------------------------------------------------------------------------------ ext mode */
static unsigned char* probe_buffer(size_t size, size_t mis)
{
    void* raw = 0;
    if (size + mis == 0) {                     /* an empty buffer: a pointer to the end of a 32-byte block */
        if (posix_memalign(&raw, 32, 32)) _exit(9);
        return (unsigned char*)raw + 32;
    }
    if (posix_memalign(&raw, 32, size + mis)) _exit(9);
    memset(raw, 0x5a, size + mis);
    return (unsigned char*)raw + mis;
}

static void ext_child(const char* line)
{
    char what[32];
    long long a[6] = { 0 };
    if (sscanf(line, "%31s", what) != 1) _exit(8);
    if (!strcmp(what, "rand") || !strcmp(what, "pat")) {
        if (sscanf(line, "%*s %lld %lld %lld %lld %lld", &a[0], &a[1], &a[2], &a[3], &a[4]) != 5) _exit(8);
        struct ImageShape s;
        make_shape(&s, (int)a[0], (unsigned)a[1], (unsigned)a[2]);
        unsigned char* buf = probe_buffer((size_t)a[3], (size_t)a[4]);
        if (what[0] == 'r') im_fill_rand(&s, buf);
        else im_fill_pattern(&s, 3.0f, 5.0f, buf);
    } else if (!strcmp(what, "avx2") || !strcmp(what, "plain")) {
        if (sscanf(line, "%*s %lld %lld %lld %lld", &a[0], &a[1], &a[2], &a[3]) != 4) _exit(8);
        unsigned char* buf = probe_buffer((size_t)a[2], (size_t)a[3]);
        if (what[0] == 'a') bin2(buf, (int)a[0], (int)a[1]);
        else bin2_plain(buf, (int)a[0], (int)a[1]);
    } else if (!strcmp(what, "copysrc") || !strcmp(what, "copydst")) {
        if (sscanf(line, "%*s %lld %lld %lld %lld %lld", &a[0], &a[1], &a[2], &a[3], &a[4]) != 5) _exit(8);
        static struct SimulatedCamera c;
        memset(&c, 0, sizeof c);
        make_shape(&c.im.shape, (int)a[0], (unsigned)a[1], (unsigned)a[2]);
        size_t n = bytes_of_image(&c.im.shape);
        lock_init(&c.im.lock);
        condition_variable_init(&c.im.frame_ready);
        c.streamer.is_running = 1;
        c.im.frame_id = 0;
        c.im.last_emitted_frame_id = -1;
        unsigned char* probed = probe_buffer((size_t)a[3], (size_t)a[4]);
        unsigned char* other = probe_buffer(n + 64, 0);
        struct ImageInfo info;
        size_t nb = n;
        if (what[4] == 's') { c.im.frame_data = probed; if (simcam_get_frame(&c.camera, other, &nb, &info) != Device_Ok) _exit(7); }
        else { c.im.frame_data = other; if (simcam_get_frame(&c.camera, probed, &nb, &info) != Device_Ok) _exit(7); }
    } else {
        _exit(8);
    }
    _exit(0);
}

static int ext_main(void)
{
    char line[512];
    setvbuf(stdout, 0, _IOLBF, 1 << 12);
    while (fgets(line, sizeof line, stdin)) {
        if (line[0] == '#' || line[0] == '\n') continue;
        int pfd[2];
        if (pipe(pfd)) return 4;
        fflush(stdout);
        pid_t pid = fork();
        if (pid < 0) return 4;
        if (pid == 0) {
            close(pfd[0]);
            dup2(pfd[1], 2);
            close(pfd[1]);
            ext_child(line);
            _exit(0);
        }
        close(pfd[1]);
        static char err[1 << 16];
        size_t got = 0;
        for (;;) {
            ssize_t k = read(pfd[0], err + got, sizeof err - 1 - got);
            if (k > 0) { got += (size_t)k; if (got >= sizeof err - 1) { char sink[4096]; while (read(pfd[0], sink, sizeof sink) > 0) {} break; } }
            else if (k == 0) break;
            else if (errno != EINTR) break;
        }
        err[got] = 0;
        close(pfd[0]);
        int st = 0;
        while (waitpid(pid, &st, 0) < 0 && errno == EINTR) {}
        const char* cls;
        char tmp[64];
        if (WIFEXITED(st) && WEXITSTATUS(st) == 0) cls = "clean";
        else if (strstr(err, "misaligned address")) cls = "misaligned";
        /* an access that starts inside the block and ends beyond it is reported as "unknown-crash ... to the right of" */
        else if (strstr(err, "AddressSanitizer") && (strstr(err, "heap-buffer-overflow") || strstr(err, "to the right of"))) cls = "overflow";
        else if (strstr(err, "AddressSanitizer")) cls = "asan-other";
        else if (WIFSIGNALED(st)) { snprintf(tmp, sizeof tmp, "signal:%d", WTERMSIG(st)); cls = tmp; }
        else { snprintf(tmp, sizeof tmp, "other:%d", WIFEXITED(st) ? WEXITSTATUS(st) : -1); cls = tmp; }
        printf("EXT %s\n", cls);
    }
    return 0;
}

int main(int argc, char** argv)
{
    if (argc > 1 && !strcmp(argv[1], "ext")) return ext_main();
    return seq_main();
}
