(* GeomProofs.v -- lemmas about Geom.v (property C17, DESIGN 6.17).
   Floor/ceil arithmetic with lia/nia; everything is for ALL kinds, variants, sample types, binning bytes,
   requested shapes and offsets (any Z: the clamp brings shapes into 1..8192/b), and for all histories
   (induction over the operation list).  The only finite sweep is over the 255 possible values of the binning
   byte, to name the accepted ones. *)
From Coq Require Import ZArith List Bool Lia.
From SimGeom Require Import Geom.
Import ListNotations.
Local Open Scope Z_scope.

Ltac Zify.zify_post_hook ::= Z.div_mod_to_equations.

(* ------------------------------------------------------------------------------------------------ arithmetic *)
Lemma align32_ge : forall n, n <= align32 n.
Proof. intros; unfold align32; lia. Qed.

Lemma align32_lt : forall n, align32 n < n + 32.
Proof. intros; unfold align32; lia. Qed.

Lemma align32_mono : forall a b, a <= b -> align32 a <= align32 b.
Proof. intros; unfold align32; lia. Qed.

Lemma align32_mult : forall n, align32 n mod 32 = 0.
Proof. intros; unfold align32; apply Z.mod_mul; lia. Qed.

Lemma align32_nonneg : forall n, 0 <= n -> 0 <= align32 n.
Proof. intros; unfold align32; lia. Qed.

(* a multiple of 32 that is below n + 32 is at most align32 n *)
Lemma le_align32 : forall k n, 32 * k <= n + 31 -> 32 * k <= align32 n.
Proof.
  intros k n H; unfold align32.
  pose proof (Z.div_mod (n + 31) 32 ltac:(lia)) as E.
  pose proof (Z.mod_pos_bound (n + 31) 32 ltac:(lia)) as B.
  set (q := (n + 31) / 32) in *. set (r := (n + 31) mod 32) in *. clearbody q r.
  assert (k <= q) by lia. lia.
Qed.

Lemma popcount_pos : forall p, 1 <= popcount p.
Proof. induction p; cbn [popcount]; lia. Qed.

Lemma norm_binning_range : forall b, 1 <= norm_binning b <= 255.
Proof.
  intros; unfold norm_binning.
  destruct (b mod 256 =? 0) eqn:E; [lia|].
  apply Z.eqb_neq in E. lia.
Qed.

Lemma clamp_range : forall v lo hi, lo <= hi -> lo <= clamp v lo hi <= hi.
Proof.
  intros; unfold clamp.
  destruct (v <? lo) eqn:E1; [lia|].
  destruct (v >? hi) eqn:E2; [lia|].
  apply Z.ltb_ge in E1. rewrite Z.gtb_ltb in E2. apply Z.ltb_ge in E2. lia.
Qed.

Lemma clamp_id : forall v lo hi, lo <= v <= hi -> clamp v lo hi = v.
Proof.
  intros; unfold clamp.
  destruct (v <? lo) eqn:E1; [apply Z.ltb_lt in E1; lia|].
  destruct (v >? hi) eqn:E2; [rewrite Z.gtb_ltb in E2; apply Z.ltb_lt in E2; lia|]. reflexivity.
Qed.

(* the accepted binning bytes, by a sweep over the 255 non-zero bytes *)
Definition pow2_bytes : list Z := [1; 2; 4; 8; 16; 32; 64; 128].

Definition accept_sweep : bool :=
  forallb (fun n => let b := Z.of_nat n in
                    Bool.eqb (popcount_u8 b =? 1) (existsb (Z.eqb b) pow2_bytes))
          (seq 1 255).

Lemma accept_sweep_ok : accept_sweep = true.
Proof. vm_compute. reflexivity. Qed.

Lemma accepted_iff_pow2 : forall b, 1 <= b <= 255 -> (popcount_u8 b = 1 <-> In b pow2_bytes).
Proof.
  intros b Hb.
  pose proof accept_sweep_ok as H. unfold accept_sweep in H.
  rewrite forallb_forall in H.
  specialize (H (Z.to_nat b)).
  assert (Hin : In (Z.to_nat b) (seq 1 255)) by (apply in_seq; lia).
  specialize (H Hin). cbv zeta in H. rewrite Z2Nat.id in H by lia.
  apply Bool.eqb_prop in H.
  split; intro A.
  - apply Z.eqb_eq in A. rewrite A in H. symmetry in H. apply existsb_exists in H.
    destruct H as [x [Hx Hx']]. apply Z.eqb_eq in Hx'. subst x. exact Hx.
  - assert (E : existsb (Z.eqb b) pow2_bytes = true).
    { apply existsb_exists. exists b. split; [exact A|apply Z.eqb_refl]. }
    rewrite E in H. apply Z.eqb_eq in H. exact H.
Qed.

(* ------------------------------------------------------------------------------------------------ bin2, AVX2 *)
(* The highest block any of the three loops touches lies inside the 32-aligned size of a w x h byte image,
   for every w >= 1 and h >= 2 (w need not be a multiple of 32). *)
Lemma avx2_p1_read_le : forall w h, 1 <= w -> 2 <= h -> 32 * avx2_p1_read_blocks w h <= align32 (w * h).
Proof.
  intros w h Hw Hh. unfold avx2_p1_read_blocks, ceil_blocks, LANES.
  destruct ((h / 2 <=? 0) || ((w + 32 - 1) / 32 <=? 0)) eqn:E.
  - assert (0 <= w * h) by nia. pose proof (align32_nonneg (w * h)). lia.
  - apply le_align32.
    (* w = 32*dy + r, h = 2*hh + s *)
    remember (w / 32) as dy. remember (h / 2) as hh.
    assert (Hdy : 32 * dy <= w < 32 * dy + 32) by lia.
    assert (Hhh : 2 * hh <= h < 2 * hh + 2) by lia.
    assert (Hhh1 : 1 <= hh) by lia.
    assert (Hdy0 : 0 <= dy) by lia.
    assert (Hprod : 2 * hh * w <= w * h) by nia.
    destruct (Z.eq_dec w (32 * dy)) as [Ew|Ew].
    + (* w is a multiple of 32: ceil = dy *)
      assert (Hc : (w + 32 - 1) / 32 = dy) by lia.
      rewrite Hc. nia.
    + assert (Hc : (w + 32 - 1) / 32 = dy + 1) by lia.
      rewrite Hc.
      assert (Hr : 32 * dy + 1 <= w) by lia.
      assert (2 * hh * (32 * dy + 1) <= 2 * hh * w) by nia.
      nia.
Qed.

Lemma avx2_p1_write_le_read : forall w h, 0 <= w -> avx2_p1_write_blocks w h <= avx2_p1_read_blocks w h.
Proof.
  intros w h Hw. unfold avx2_p1_write_blocks, avx2_p1_read_blocks, ceil_blocks, LANES.
  destruct ((h / 2 <=? 0) || ((w + 32 - 1) / 32 <=? 0)) eqn:E; [lia|].
  apply Bool.orb_false_iff in E. destruct E as [E1 E2].
  apply Z.leb_gt in E1.
  assert (0 <= w / 32) by lia. nia.
Qed.

Lemma avx2_p2_le : forall w h, 0 <= w * h -> 32 * avx2_p2_blocks w h <= w * h.
Proof. intros w h H. unfold avx2_p2_blocks, floor_blocks, LANES. lia. Qed.

Lemma avx2_p3_le : forall w h, 0 <= w * h -> 32 * avx2_p3_read_blocks w h <= w * h.
Proof. intros w h H. unfold avx2_p3_read_blocks, floor_blocks, LANES. lia. Qed.

Lemma avx2_p3_write_le_read : forall w h, avx2_p3_write_blocks w h <= avx2_p3_read_blocks w h.
Proof. intros. unfold avx2_p3_write_blocks, avx2_p3_read_blocks. lia. Qed.

Lemma bin2_avx2_extent_le : forall w h, 1 <= w -> 2 <= h -> bin2_avx2_extent w h <= align32 (w * h).
Proof.
  intros w h Hw Hh. unfold bin2_avx2_extent, bin2_avx2_blocks, LANES.
  assert (H0 : 0 <= w * h) by nia.
  pose proof (avx2_p1_read_le w h Hw Hh).
  pose proof (avx2_p1_write_le_read w h ltac:(lia)).
  pose proof (avx2_p2_le w h H0).
  pose proof (avx2_p3_le w h H0).
  pose proof (avx2_p3_write_le_read w h).
  pose proof (align32_ge (w * h)).
  lia.
Qed.

Lemma bin2_avx2_extent_nonneg : forall w h, 0 <= w -> 0 <= bin2_avx2_extent w h.
Proof.
  intros. unfold bin2_avx2_extent, bin2_avx2_blocks, avx2_p2_blocks, LANES. lia.
Qed.

(* every access of the AVX2 pass starts at a multiple of 32 bytes: the extent is a whole number of blocks *)
Lemma bin2_avx2_extent_blocks : forall w h, bin2_avx2_extent w h mod 32 = 0.
Proof. intros. unfold bin2_avx2_extent, LANES. rewrite Z.mul_comm. apply Z.mod_mul. lia. Qed.

(* ------------------------------------------------------------------------------------------------ bin2, plain *)
Lemma bin2_plain_extent_le : forall x h, 1 <= x -> 2 <= h -> bin2_plain_extent (2 * x) h <= (2 * x) * h.
Proof.
  intros x h Hx Hh. unfold bin2_plain_extent, plain_h_extent, plain_v_extent, plain_c_extent.
  assert (H0 : 2 * (2 * x) <= 2 * x * h) by nia.
  assert (E1 : (2 * x * h <=? 0) = false) by (apply Z.leb_gt; lia).
  assert (E2 : (2 * x <=? 0) = false) by (apply Z.leb_gt; lia).
  assert (E3 : (2 * x * h <=? 2 * x) = false) by (apply Z.leb_gt; lia).
  rewrite E1, E2, E3. cbn [orb].
  assert (Hk : 2 * ((h - 1) / 2) + 1 <= h) by lia.
  assert (Hk0 : 0 <= (h - 1) / 2) by lia.
  assert (Hh1 : 2 * ((2 * x - 1) / 2) + 2 = 2 * x) by lia.
  set (k := (h - 1) / 2) in *. clearbody k. rewrite Hh1.
  assert (2 * (2 * x) * k + 2 * x <= 2 * x * h) by nia.
  lia.
Qed.

Lemma bin2_plain_extent_nonneg : forall w h, 0 <= bin2_plain_extent w h.
Proof.
  intros. unfold bin2_plain_extent, plain_h_extent.
  destruct ((w * h <=? 0) || (w <=? 0)) eqn:E; [lia|].
  apply Bool.orb_false_iff in E. destruct E as [_ E]. apply Z.leb_gt in E. lia.
Qed.

Lemma bin2_extent_le : forall v x h, 1 <= x -> 2 <= h -> 0 <= bin2_extent v (2 * x) h <= align32 ((2 * x) * h).
Proof.
  intros v x h Hx Hh. destruct v; cbn [bin2_extent].
  - split; [apply bin2_avx2_extent_nonneg; lia|apply bin2_avx2_extent_le; lia].
  - split; [apply bin2_plain_extent_nonneg|].
    pose proof (bin2_plain_extent_le x h Hx Hh). pose proof (align32_ge (2 * x * h)). lia.
Qed.

(* ------------------------------------------------------------------------------------------------ the bin loop *)
(* With b = 2q a power of two, the streamer calls bin2 with (2qx, 2qy), (qx, qy), ..., (2x, 2y): every pass sees an
   even width >= 2, a height >= 2, and an image that is no larger than the first one. *)
Definition pass_ok (v : variant) (cap : Z) (wh : Z * Z) : Prop :=
  0 <= bin2_extent v (fst wh) (snd wh) <= align32 cap.

Lemma bin_passes_ok : forall v q x y cap,
  popcount q = 1 -> 1 <= x -> 1 <= y ->
  (2 * Zpos q * x) * (2 * Zpos q * y) <= cap ->
  Forall (pass_ok v cap) (bin_passes q (2 * Zpos q * x) (2 * Zpos q * y)).
Proof.
  intros v q. induction q as [q IH|q IH|]; intros x y cap Hp Hx Hy Hcap; cbn [popcount] in Hp.
  - pose proof (popcount_pos q). lia.
  - cbn [bin_passes]. constructor.
    + unfold pass_ok; cbn [fst snd].
      assert (Hpos : 1 <= Z.pos q~0) by lia.
      assert (H1 : 1 <= Zpos q~0 * x) by nia.
      assert (H2 : 2 <= 2 * Z.pos q~0 * y) by nia.
      pose proof (bin2_extent_le v (Zpos q~0 * x) (2 * Z.pos q~0 * y) H1 H2) as HB.
      replace (2 * (Z.pos q~0 * x)) with (2 * Z.pos q~0 * x) in HB by ring.
      pose proof (align32_mono _ _ Hcap). lia.
    + assert (Ew : 2 * Z.pos q~0 * x / 2 = 2 * Zpos q * x).
      { rewrite (Pos2Z.inj_xO q). replace (2 * (2 * Z.pos q) * x) with ((2 * Z.pos q * x) * 2) by ring.
        apply Z.div_mul. lia. }
      assert (Eh : 2 * Z.pos q~0 * y / 2 = 2 * Zpos q * y).
      { rewrite (Pos2Z.inj_xO q). replace (2 * (2 * Z.pos q) * y) with ((2 * Z.pos q * y) * 2) by ring.
        apply Z.div_mul. lia. }
      rewrite Ew, Eh.
      apply IH; try assumption.
      rewrite (Pos2Z.inj_xO q) in Hcap.
      assert (0 < Z.pos q) by lia.
      assert (0 <= 2 * Z.pos q * x) by nia. assert (0 <= 2 * Z.pos q * y) by nia.
      nia.
  - cbn [bin_passes]. constructor; [|constructor].
    unfold pass_ok; cbn [fst snd].
    assert (H2 : 2 <= 2 * 1 * y) by lia.
    pose proof (bin2_extent_le v x (2 * 1 * y) Hx H2) as HB.
    replace (2 * 1 * x) with (2 * x) in * by ring.
    pose proof (align32_mono _ _ Hcap). lia.
Qed.

Lemma bin_schedule_ok : forall v b x y cap,
  popcount_u8 b = 1 -> 1 <= x -> 1 <= y -> (b * x) * (b * y) <= cap ->
  Forall (pass_ok v cap) (bin_schedule b (b * x) (b * y)).
Proof.
  intros v b x y cap Hp Hx Hy Hcap.
  destruct b as [|p|p]; cbn [popcount_u8] in Hp; try lia.
  destruct p as [q|q|]; cbn [popcount bin_schedule] in *.
  - pose proof (popcount_pos q). lia.
  - rewrite (Pos2Z.inj_xO q) in *.
    apply bin_passes_ok; auto.
  - constructor.
Qed.

(* ------------------------------------------------------------------------------------------------ states *)
(* A camera state whose geometry is what some accepted set leaves behind (or the initial one). *)
Record consistent (c : cam) : Prop := mkCons {
  k_pow2 : popcount_u8 (p_binning (c_props c)) = 1;
  k_brange : 1 <= p_binning (c_props c) <= 255;
  k_w : 1 <= p_w (c_props c) <= meta_w_hi (p_binning (c_props c));
  k_h : 1 <= p_h (c_props c) <= meta_h_hi (p_binning (c_props c));
  k_dims : sh_dims (c_shape c) = mkDims 1 (p_w (c_props c)) (p_h (c_props c)) 1;
  k_strides : sh_strides (c_shape c) =
              mkStrides 1 1 (p_w (c_props c)) (p_w (c_props c) * p_h (c_props c));
  k_type : sh_type (c_shape c) = p_type (c_props c);
  k_bufs : (c_frame c = None /\ c_render c = None) \/
           (c_frame c = Some (alloc_bytes (c_props c) (c_shape c)) /\
            c_render c = Some (alloc_bytes (c_props c) (c_shape c)))
}.

Lemma bytes_of_type_range : forall t, 1 <= bytes_of_type t <= 4.
Proof. destruct t; simpl; lia. Qed.

Lemma meta_hi_ge1 : forall b, 1 <= b <= 255 -> 1 <= meta_w_hi b /\ 1 <= meta_h_hi b.
Proof. intros; unfold meta_w_hi, meta_h_hi, MAX_IMAGE_WIDTH, MAX_IMAGE_HEIGHT. split; nia. Qed.

Lemma meta_hi_mul : forall b x, 1 <= b -> 0 <= x <= meta_w_hi b -> b * x <= 8192.
Proof. intros b x Hb Hx. unfold meta_w_hi, MAX_IMAGE_WIDTH in Hx. nia. Qed.

Lemma init_consistent : forall k, consistent (init k).
Proof.
  intro k. constructor; simpl; try reflexivity; try lia;
    unfold meta_w_hi, meta_h_hi, MAX_IMAGE_WIDTH, MAX_IMAGE_HEIGHT; simpl; try lia.
  left; split; reflexivity.
Qed.

(* what an accepted set leaves behind *)
Definition set_w (s : props) : Z := clamp (p_w s) 1 (meta_w_hi (norm_binning (p_binning s))).
Definition set_h (s : props) : Z := clamp (p_h s) 1 (meta_h_hi (norm_binning (p_binning s))).
Definition set_props (s : props) : props :=
  mkProps (p_exposure s) (norm_binning (p_binning s)) (p_type s) (p_ox s) (p_oy s) (set_w s) (set_h s).
Definition set_shape (s : props) : ishape :=
  mkShape (mkDims 1 (set_w s) (set_h s) 1) (mkStrides 1 1 (set_w s) (set_w s * set_h s)) (p_type s).

Lemma compute_strides_image : forall w h, compute_strides (mkDims 1 w h 1) = mkStrides 1 1 w (w * h).
Proof. intros. unfold compute_strides; cbn [d_c d_w d_h d_p]. f_equal; ring. Qed.

Definition accepted (s : props) : Prop := popcount_u8 (norm_binning (p_binning s)) = 1.

Lemma simcam_set_accepted : forall c s, accepted s ->
  simcam_set c s =
  (mkCam (c_kind c) (set_props s) (set_shape s)
         (Some (alloc_bytes (set_props s) (set_shape s))) (Some (alloc_bytes (set_props s) (set_shape s)))
         (c_running c), Ok).
Proof.
  intros c s A. unfold accepted in A. unfold simcam_set.
  rewrite A. change (negb (1 =? 1)) with false. cbv iota zeta.
  rewrite compute_strides_image.
  reflexivity.
Qed.

Lemma simcam_set_rejected : forall c s, ~ accepted s -> simcam_set c s = (c, Err).
Proof.
  intros c s A. unfold accepted in A. unfold simcam_set.
  destruct (popcount_u8 (norm_binning (p_binning s)) =? 1) eqn:E.
  - apply Z.eqb_eq in E. contradiction.
  - reflexivity.
Qed.

Lemma accepted_dec : forall s, {accepted s} + {~ accepted s}.
Proof. intro s. unfold accepted. apply Z.eq_dec. Qed.

Lemma set_result_consistent : forall c s, accepted s -> consistent (fst (simcam_set c s)).
Proof.
  intros c s A. rewrite (simcam_set_accepted c s A). simpl.
  pose proof (norm_binning_range (p_binning s)) as Hb.
  destruct (meta_hi_ge1 _ Hb) as [Hw Hh].
  constructor; simpl; auto.
  - apply clamp_range; lia.
  - apply clamp_range; lia.
Qed.

(* ------------------------------------------------------------------------------------------------ safety of a state *)
Lemma full_shape_dims : forall pr im,
  sh_dims (full_shape pr im) = mkDims 1 (p_binning pr * p_w pr) (p_binning pr * p_h pr) 1.
Proof. reflexivity. Qed.

Lemma full_shape_strides : forall pr im,
  sh_strides (full_shape pr im) =
  mkStrides 1 1 (p_binning pr * p_w pr) (p_binning pr * p_w pr * (p_binning pr * p_h pr)).
Proof. intros. unfold full_shape; cbn [sh_strides]. unfold compute_strides; cbn [d_c d_w d_h d_p]. f_equal; ring. Qed.

Lemma full_bytes : forall pr im,
  bytes_of_image (full_shape pr im) =
  (p_binning pr * p_w pr) * (p_binning pr * p_h pr) * bytes_of_type (sh_type im).
Proof. intros. unfold bytes_of_image. rewrite full_shape_strides. simpl. ring. Qed.

(* no 32-bit overflow anywhere in the index arithmetic: the full-resolution image has at most 8192 x 8192 samples *)
Lemma full_shape_small : forall c, consistent c ->
  let full := full_shape (c_props c) (c_shape c) in
  1 <= d_w (sh_dims full) <= 8192 /\ 1 <= d_h (sh_dims full) <= 8192 /\
  1 <= bytes_of_image full <= 268435456.
Proof.
  intros c K. destruct K.
  set (b := p_binning (c_props c)) in *. set (w := p_w (c_props c)) in *. set (h := p_h (c_props c)) in *.
  cbv zeta. rewrite full_bytes. rewrite full_shape_dims. simpl. fold b w h.
  pose proof (meta_hi_mul b w ltac:(lia) ltac:(lia)) as Hw.
  assert (Hh : b * h <= 8192).
  { unfold meta_h_hi, MAX_IMAGE_HEIGHT in k_h0. nia. }
  pose proof (bytes_of_type_range (sh_type (c_shape c))) as Ht.
  assert (1 <= b * w) by nia. assert (1 <= b * h) by nia.
  assert (1 <= b * w * (b * h)) by nia.
  assert (b * w * (b * h) <= 8192 * 8192) by nia.
  repeat split; try lia; nia.
Qed.

Lemma image_bytes : forall c, consistent c ->
  bytes_of_image (c_shape c) = p_w (c_props c) * p_h (c_props c) * bytes_of_type (p_type (c_props c)).
Proof. intros c K. destruct K. unfold bytes_of_image. rewrite k_strides0, k_type0. reflexivity. Qed.

Lemma image_le_full : forall c, consistent c ->
  0 <= bytes_of_image (c_shape c) <= bytes_of_image (full_shape (c_props c) (c_shape c)).
Proof.
  intros c K. rewrite (image_bytes c K), full_bytes. destruct K. rewrite k_type0.
  pose proof (bytes_of_type_range (p_type (c_props c))).
  set (b := p_binning (c_props c)) in *. set (w := p_w (c_props c)) in *. set (h := p_h (c_props c)) in *.
  assert (w <= b * w) by nia. assert (h <= b * h) by nia.
  assert (0 <= w * h) by nia.
  assert (w * h <= b * w * (b * h)) by nia.
  split; nia.
Qed.

Definition acc_ok (n caller : Z) (a : access) : Prop :=
  0 <= a_extent a /\
  match a_buf a with BCaller => a_extent a <= caller | _ => a_extent a <= n end.

Lemma render_accesses_ok : forall v c, consistent c ->
  Forall (fun a => a_buf a = BRender /\ 0 <= a_extent a <= alloc_bytes (c_props c) (c_shape c))
         (render_accesses v c).
Proof.
  intros v c K.
  pose proof (full_shape_small c K) as Hsmall. cbv zeta in Hsmall.
  destruct Hsmall as [Hfw [Hfh Hfb]].
  unfold render_accesses. apply Forall_app. split.
  - (* the generator *)
    unfold alloc_bytes.
    set (full := full_shape (c_props c) (c_shape c)) in *.
    destruct (c_kind c).
    + constructor; [|constructor]. simpl. split; [reflexivity|].
      unfold fill_rand_extent.
      pose proof (align32_ge (bytes_of_image full)). pose proof (align32_mult (bytes_of_image full)).
      unfold aligned_bytes_of_image in *.
      destruct (align32 (bytes_of_image full) <=? 0) eqn:E; [apply Z.leb_le in E; lia|]. lia.
    + destruct (pattern_elem (sh_type full)) as [sz|] eqn:E; [|constructor].
      constructor; [|constructor]. simpl. split; [reflexivity|].
      unfold fill_pattern_extent. rewrite E.
      assert (Hsz : sz = bytes_of_type (sh_type full)).
      { destruct (sh_type full); simpl in *; inversion E; reflexivity. }
      destruct ((d_w (sh_dims full) <=? 0) || (d_h (sh_dims full) <=? 0)) eqn:E2.
      * apply Bool.orb_true_iff in E2. destruct E2 as [E2|E2]; apply Z.leb_le in E2; lia.
      * unfold aligned_bytes_of_image.
        pose proof (align32_ge (bytes_of_image full)).
        assert (Hext : sz * (st_w (sh_strides full) * (d_w (sh_dims full) - 1) +
                             st_h (sh_strides full) * (d_h (sh_dims full) - 1) + 1) = bytes_of_image full).
        { unfold bytes_of_image. rewrite <- Hsz. unfold full. rewrite full_shape_strides, full_shape_dims.
          cbn [st_w st_h st_p d_w d_h]. ring. }
        rewrite Hext. lia.
    + constructor.
  - (* the bin passes *)
    rewrite full_shape_dims. simpl.
    destruct K.
    pose proof (bin_schedule_ok v (p_binning (c_props c)) (p_w (c_props c)) (p_h (c_props c))
                  (bytes_of_image (full_shape (c_props c) (c_shape c))) k_pow3 ltac:(lia) ltac:(lia)) as HB.
    assert (Hcap : p_binning (c_props c) * p_w (c_props c) * (p_binning (c_props c) * p_h (c_props c)) <=
                   bytes_of_image (full_shape (c_props c) (c_shape c))).
    { rewrite full_bytes. pose proof (bytes_of_type_range (sh_type (c_shape c))).
      rewrite full_shape_dims in Hfw, Hfh. simpl in Hfw, Hfh. nia. }
    specialize (HB Hcap).
    apply Forall_forall. intros a Ha. apply in_map_iff in Ha. destruct Ha as [wh [Ea Hin]].
    rewrite Forall_forall in HB. specialize (HB wh Hin). unfold pass_ok in HB.
    subst a. unfold alloc_bytes, aligned_bytes_of_image.
    destruct v; simpl in *; (split; [reflexivity|exact HB]).
Qed.

Lemma copy_accesses_ok : forall c caller, consistent c -> bytes_of_image (c_shape c) <= caller ->
  Forall (acc_ok (alloc_bytes (c_props c) (c_shape c)) caller) (copy_accesses c).
Proof.
  intros c caller K Hc. unfold copy_accesses.
  pose proof (image_le_full c K) as [H0 H1].
  pose proof (align32_ge (bytes_of_image (full_shape (c_props c) (c_shape c)))).
  constructor; [|constructor; [|constructor]]; unfold acc_ok; simpl; unfold alloc_bytes, aligned_bytes_of_image; lia.
Qed.

Lemma frame_accesses_ok : forall v c caller, consistent c -> bytes_of_image (c_shape c) <= caller ->
  Forall (acc_ok (alloc_bytes (c_props c) (c_shape c)) caller) (frame_accesses v c).
Proof.
  intros v c caller K Hc. unfold frame_accesses. apply Forall_app. split.
  - pose proof (render_accesses_ok v c K) as H. rewrite Forall_forall in *. intros a Ha.
    destruct (H a Ha) as [Hb He]. unfold acc_ok. rewrite Hb. lia.
  - apply copy_accesses_ok; assumption.
Qed.

(* alignment: every access class of the fixed code needs an alignment that divides both the allocator's guarantee
   and the spacing of its accesses *)
Lemma frame_accesses_aligned : forall v c a, In a (frame_accesses v c) -> access_aligned a = true.
Proof.
  intros v c a Ha. unfold frame_accesses, render_accesses, copy_accesses in Ha.
  repeat rewrite in_app_iff in Ha. destruct Ha as [[Ha|Ha]|Ha].
  - destruct (c_kind c).
    + simpl in Ha. destruct Ha as [Ha|[]]. subst a. reflexivity.
    + destruct (pattern_elem (sh_type (full_shape (c_props c) (c_shape c)))) as [sz|] eqn:E; [|destruct Ha].
      simpl in Ha. destruct Ha as [Ha|[]]. subst a.
      destruct (sh_type (full_shape (c_props c) (c_shape c))); simpl in E; inversion E; reflexivity.
    + destruct Ha.
  - apply in_map_iff in Ha. destruct Ha as [wh [Ea _]]. subst a. destruct v; reflexivity.
  - simpl in Ha. destruct Ha as [Ha|[Ha|[]]]; subst a; reflexivity.
Qed.

Lemma access_aligned_spec : forall a base i, access_aligned a = true ->
  base mod alloc_align = 0 -> (base + a_unit a * i) mod a_align a = 0.
Proof.
  intros a base i H Hb. unfold access_aligned in H.
  apply Bool.andb_true_iff in H. destruct H as [H H3]. apply Bool.andb_true_iff in H. destruct H as [H1 H2].
  apply Z.ltb_lt in H1. apply Z.eqb_eq in H2. apply Z.eqb_eq in H3.
  apply Z.mod_divide in H2; [|lia]. apply Z.mod_divide in H3; [|lia]. apply Z.mod_divide in Hb; [|unfold alloc_align; lia].
  apply Z.mod_divide; [lia|].
  apply Z.divide_add_r.
  - apply Z.divide_trans with alloc_align; assumption.
  - apply Z.divide_mul_l. assumption.
Qed.

(* ------------------------------------------------------------------------------------------------ histories *)
Lemma step_consistent : forall c o, consistent c -> consistent (fst (step c o)).
Proof.
  intros c o K. destruct o; simpl; try assumption.
  - destruct (accepted_dec s) as [A|A].
    + pose proof (set_result_consistent c s A) as H. destruct (simcam_set c s). exact H.
    + rewrite (simcam_set_rejected c s A). exact K.
  - destruct K; constructor; simpl; auto.
  - destruct K; constructor; simpl; auto.
  - destruct (nbytes <? bytes_of_image (c_shape c)); [exact K|].
    destruct (negb (c_running c)); [exact K|].
    destruct K; constructor; simpl; auto.
    destruct k_bufs0 as [[A B]|[A B]]; [left|right]; split; assumption.
Qed.

Lemma run_consistent : forall ops c, consistent c -> consistent (run c ops).
Proof. induction ops; simpl; intros; auto using step_consistent. Qed.

(* running implies configured, along well-formed histories *)
Lemma step_running : forall c o, wf_op c o = true ->
  (c_running c = true -> configured c = true) ->
  c_running (fst (step c o)) = true -> configured (fst (step c o)) = true.
Proof.
  intros c o W I. destruct o; simpl in *; auto.
  - destruct (accepted_dec s) as [A|A].
    + rewrite (simcam_set_accepted c s A). simpl. reflexivity.
    + rewrite (simcam_set_rejected c s A). exact I.
  - intros _. apply Bool.andb_true_iff in W. destruct W as [W _]. exact W.
  - discriminate.
  - destruct (nbytes <? bytes_of_image (c_shape c)); [exact I|].
    destruct (negb (c_running c)); [exact I|]. simpl.
    intro R. specialize (I R). unfold configured in *. simpl.
    destruct (c_frame c), (c_render c); auto; discriminate.
Qed.

Lemma run_running : forall ops c, wf_hist c ops = true ->
  (c_running c = true -> configured c = true) ->
  c_running (run c ops) = true -> configured (run c ops) = true.
Proof.
  induction ops as [|o tl IH]; simpl; intros c W I; auto.
  apply Bool.andb_true_iff in W. destruct W as [W1 W2].
  apply IH; auto. apply step_running; auto.
Qed.

(* a configured consistent state is safe *)
Lemma configured_bufs : forall c, consistent c -> configured c = true ->
  c_frame c = Some (alloc_bytes (c_props c) (c_shape c)) /\ c_render c = Some (alloc_bytes (c_props c) (c_shape c)).
Proof.
  intros c K C. destruct K. destruct k_bufs0 as [[A B]|[A B]]; [|split; assumption].
  unfold configured in C. rewrite A in C. discriminate.
Qed.

Definition in_bounds (c : cam) (caller : Z) (a : access) : Prop :=
  0 <= a_extent a /\ exists n, buf_size c caller (a_buf a) = Some n /\ a_extent a <= n.

Lemma state_in_bounds : forall v c caller, consistent c -> configured c = true ->
  bytes_of_image (c_shape c) <= caller ->
  forall a, In a (frame_accesses v c) -> in_bounds c caller a /\ in_bounds (swap_buffers c) caller a.
Proof.
  intros v c caller K C Hc a Ha.
  destruct (configured_bufs c K C) as [F R].
  pose proof (frame_accesses_ok v c caller K Hc) as H. rewrite Forall_forall in H.
  specialize (H a Ha). unfold acc_ok in H. destruct H as [H0 H1].
  unfold in_bounds, buf_size, swap_buffers; simpl.
  destruct (a_buf a); (split; (split; [exact H0|])); eexists; (split; [eassumption || reflexivity|]); exact H1.
Qed.

(* the boolean the oracle prints agrees with the Prop *)
Lemma access_in_bounds_true : forall c caller a, in_bounds c caller a -> access_in_bounds c caller a = true.
Proof.
  intros c caller a [H0 [n [Hn Hle]]]. unfold access_in_bounds. rewrite Hn.
  destruct (a_extent a <=? 0); [reflexivity|]. apply Z.leb_le. exact Hle.
Qed.

Lemma state_frame_in_bounds : forall v c caller, consistent c -> configured c = true ->
  bytes_of_image (c_shape c) <= caller -> frame_in_bounds v c caller = true.
Proof.
  intros v c caller K C Hc. unfold frame_in_bounds. apply Bool.andb_true_iff.
  split; apply forallb_forall; intros a Ha; apply access_in_bounds_true;
    destruct (state_in_bounds v c caller K C Hc a Ha); assumption.
Qed.

Lemma state_frame_aligned : forall v c, frame_aligned v c = true.
Proof.
  intros v c. unfold frame_aligned. apply forallb_forall. intros a Ha. eapply frame_accesses_aligned; eauto.
Qed.

(* ------------------------------------------------------------------------------------------------ C17 lemmas *)
(* C17_shape *)
Lemma shape_lemma : forall c s,
  let b := norm_binning (p_binning s) in
  (accepted s <-> In b pow2_bytes) /\
  (accepted s ->
     exists c', simcam_set c s = (c', Ok) /\
       let w := clamp (p_w s) 1 (MAX_IMAGE_WIDTH / b) in
       let h := clamp (p_h s) 1 (MAX_IMAGE_HEIGHT / b) in
       1 <= w <= MAX_IMAGE_WIDTH / b /\ 1 <= h <= MAX_IMAGE_HEIGHT / b /\
       ((1 <= p_w s <= MAX_IMAGE_WIDTH / b) -> w = p_w s) /\ ((1 <= p_h s <= MAX_IMAGE_HEIGHT / b) -> h = p_h s) /\
       sh_dims (c_shape c') = mkDims 1 w h 1 /\
       sh_strides (c_shape c') = mkStrides 1 1 w (w * h) /\
       sh_type (c_shape c') = p_type s /\
       c_props c' = mkProps (p_exposure s) b (p_type s) (p_ox s) (p_oy s) w h /\
       snd (step c' OGet) = RProps (c_props c') /\
       snd (step c' OGetShape) = RShape (c_shape c') /\
       snd (step c' OGetMeta) = RMeta (MAX_IMAGE_WIDTH / b) (MAX_IMAGE_HEIGHT / b) /\
       sh_dims (full_shape (c_props c') (c_shape c')) = mkDims 1 (b * w) (b * h) 1 /\
       c_kind c' = c_kind c /\ c_running c' = c_running c) /\
  (~ accepted s -> simcam_set c s = (c, Err)).
Proof.
  intros c s b.
  pose proof (norm_binning_range (p_binning s)) as Hb. fold b in Hb.
  split; [|split].
  - unfold accepted. fold b. apply accepted_iff_pow2. exact Hb.
  - intro A. eexists. split; [apply simcam_set_accepted; exact A|].
    cbv zeta. simpl.
    destruct (meta_hi_ge1 b Hb) as [Hw Hh]. unfold meta_w_hi, meta_h_hi in *.
    unfold set_w, set_h, meta_w_hi, meta_h_hi. fold b.
    repeat split; try reflexivity;
      try (apply clamp_range; lia); try (intros; apply clamp_id; lia).
  - apply simcam_set_rejected.
Qed.

(* C17_copy_exact *)
Lemma copy_lemma : forall c nbytes,
  let n := bytes_of_image (c_shape c) in
  (n <= nbytes /\ c_running c = true ->
     step c (OGetFrame nbytes) = (swap_buffers c, RFrame Ok n (Some (c_shape c))) /\
     Forall (fun a => a_extent a = n) (copy_accesses c) /\
     map a_buf (copy_accesses c) = [BFrame; BCaller]) /\
  (~ (n <= nbytes /\ c_running c = true) -> step c (OGetFrame nbytes) = (c, RFrame Err 0 None)) /\
  (consistent c -> n = d_w (sh_dims (c_shape c)) * d_h (sh_dims (c_shape c)) * bytes_of_type (sh_type (c_shape c))).
Proof.
  intros c nbytes n. split; [|split].
  - intros [H1 H2]. simpl. fold n.
    assert (E : (nbytes <? n) = false) by (apply Z.ltb_ge; exact H1).
    rewrite E, H2. simpl. split; [reflexivity|]. split; [|reflexivity].
    unfold copy_accesses. fold n. repeat constructor.
  - intros H. simpl. fold n.
    destruct (nbytes <? n) eqn:E; [reflexivity|].
    apply Z.ltb_ge in E. destruct (c_running c) eqn:R; [|reflexivity].
    exfalso. apply H. split; [exact E|reflexivity].
  - intro K. unfold n. rewrite (image_bytes c K). destruct K. rewrite k_dims0, k_type0. reflexivity.
Qed.

(* C17_in_bounds *)
Lemma in_bounds_lemma : forall v c0 s c caller,
  simcam_set c0 s = (c, Ok) -> bytes_of_image (c_shape c) <= caller ->
  (forall a, In a (frame_accesses v c) -> in_bounds c caller a /\ in_bounds (swap_buffers c) caller a) /\
  (let full := full_shape (c_props c) (c_shape c) in
   1 <= d_w (sh_dims full) <= 8192 /\ 1 <= d_h (sh_dims full) <= 8192 /\ 1 <= bytes_of_image full <= 268435456).
Proof.
  intros v c0 s c caller Hset Hc.
  destruct (accepted_dec s) as [A|A].
  - pose proof (set_result_consistent c0 s A) as K. rewrite Hset in K. simpl in K.
    assert (C : configured c = true).
    { rewrite (simcam_set_accepted c0 s A) in Hset. inversion Hset. reflexivity. }
    split; [apply state_in_bounds; assumption|apply full_shape_small; assumption].
  - rewrite (simcam_set_rejected c0 s A) in Hset. inversion Hset.
Qed.

(* C17_aligned *)
Lemma aligned_lemma : forall v c a base i,
  In a (frame_accesses v c) -> base mod alloc_align = 0 -> (base + a_unit a * i) mod a_align a = 0.
Proof. intros. apply access_aligned_spec; [eapply frame_accesses_aligned; eauto|assumption]. Qed.

(* every access of the AVX2 pass starts on a block boundary, so ANY required alignment dividing both 32 and the
   base alignment would do; with the unfixed code's requirement (32) the allocator's guarantee (16) is not enough *)
Lemma avx2_accesses_block_aligned : forall w h, a_unit (bin2_access AVX2 w h) = 32 /\ a_width (bin2_access AVX2 w h) = 32.
Proof. intros; split; reflexivity. Qed.

Lemma D8b_unfixed_misaligned :
  exists base i, base mod alloc_align = 0 /\ (base + 32 * i) mod avx2_access_align_unfixed <> 0.
Proof. exists 16, 0. split; vm_compute; congruence. Qed.

(* the unfixed sizing is too small for every binning > 1 (unless the whole image has fewer than 11 bytes, where
   the rounding to 32 hides it): the random camera's fill alone overflows it *)
Lemma D8a_unfixed_overflow : forall c, consistent c -> 1 < p_binning (c_props c) ->
  11 <= bytes_of_image (c_shape c) ->
  alloc_bytes_unfixed (c_props c) (c_shape c) < fill_rand_extent (full_shape (c_props c) (c_shape c)).
Proof.
  intros c K Hb Hn.
  pose proof (full_shape_small c K) as Hs. cbv zeta in Hs. destruct Hs as [_ [_ Hs]].
  unfold alloc_bytes_unfixed, fill_rand_extent, aligned_bytes_of_image.
  set (nf := bytes_of_image (full_shape (c_props c) (c_shape c))) in *.
  set (n := bytes_of_image (c_shape c)) in *.
  assert (Hfull : 4 * n <= nf).
  { unfold nf, n. rewrite full_bytes, (image_bytes c K). destruct K. rewrite k_type0.
    pose proof (bytes_of_type_range (p_type (c_props c))).
    set (b := p_binning (c_props c)) in *. set (w := p_w (c_props c)) in *. set (h := p_h (c_props c)) in *.
    assert (2 * w <= b * w) by nia. assert (2 * h <= b * h) by nia.
    assert (0 <= w * h) by nia.
    assert (4 * (w * h) <= b * w * (b * h)) by nia. nia. }
  pose proof (align32_mult nf). pose proof (align32_ge nf). pose proof (align32_lt n).
  destruct (align32 nf <=? 0) eqn:E; [apply Z.leb_le in E; lia|].
  assert (E4 : 4 * ((align32 nf + 3) / 4) = align32 nf) by lia.
  rewrite E4. lia.
Qed.

(* C17_reconfig *)
Definition is_set (o : op) : bool := match o with OSet _ => true | _ => false end.

Lemma step_nonset_geometry : forall c o, is_set o = false ->
  c_props (fst (step c o)) = c_props c /\ c_shape (fst (step c o)) = c_shape c /\ c_kind (fst (step c o)) = c_kind c.
Proof.
  intros c o H. destruct o; simpl in *; try discriminate; auto.
  destruct (nbytes <? bytes_of_image (c_shape c)); auto. destruct (negb (c_running c)); auto.
Qed.

Lemma run_nonset_geometry : forall ops c, forallb (fun o => negb (is_set o)) ops = true ->
  c_props (run c ops) = c_props c /\ c_shape (run c ops) = c_shape c /\ c_kind (run c ops) = c_kind c.
Proof.
  induction ops as [|o tl IH]; simpl; intros c H; auto.
  apply Bool.andb_true_iff in H. destruct H as [H1 H2]. apply Bool.negb_true_iff in H1.
  destruct (step_nonset_geometry c o H1) as [A [B C]].
  destruct (IH (fst (step c o)) H2) as [A' [B' C']]. rewrite A', B', C'. auto.
Qed.

Lemma run_nonset_configured : forall ops c, forallb (fun o => negb (is_set o)) ops = true ->
  configured c = true -> configured (run c ops) = true.
Proof.
  induction ops as [|o tl IH]; simpl; intros c NS C; auto.
  apply Bool.andb_true_iff in NS. destruct NS as [N1 N2]. apply Bool.negb_true_iff in N1.
  apply IH; auto.
  destruct o; simpl in *; try discriminate; auto.
  destruct (nbytes <? bytes_of_image (c_shape c)); auto. destruct (negb (c_running c)); auto.
  unfold configured in *. simpl. destruct (c_frame c), (c_render c); auto; discriminate.
Qed.

Lemma run_app : forall a b c, run c (a ++ b) = run (run c a) b.
Proof. induction a; simpl; intros; auto. Qed.

Lemma run_kind : forall ops c, c_kind (run c ops) = c_kind c.
Proof.
  induction ops as [|o tl IH]; simpl; intros c; auto. rewrite IH.
  destruct o; simpl; auto.
  - destruct (accepted_dec s) as [A|A].
    + rewrite (simcam_set_accepted c s A). reflexivity.
    + rewrite (simcam_set_rejected c s A). reflexivity.
  - destruct (nbytes <? bytes_of_image (c_shape c)); auto. destruct (negb (c_running c)); auto.
Qed.

Lemma wf_hist_app : forall a b c, wf_hist c (a ++ b) = true -> wf_hist c a = true /\ wf_hist (run c a) b = true.
Proof.
  induction a as [|o tl IH]; simpl; intros b c H; auto.
  apply Bool.andb_true_iff in H. destruct H as [H1 H2]. destruct (IH b _ H2) as [A B].
  rewrite H1, A. auto.
Qed.

Definition good (v : variant) (c : cam) : Prop :=
  (* the shape statement *)
  (let b := p_binning (c_props c) in
   In b pow2_bytes /\
   1 <= p_w (c_props c) <= MAX_IMAGE_WIDTH / b /\ 1 <= p_h (c_props c) <= MAX_IMAGE_HEIGHT / b /\
   sh_dims (c_shape c) = mkDims 1 (p_w (c_props c)) (p_h (c_props c)) 1 /\
   sh_strides (c_shape c) = mkStrides 1 1 (p_w (c_props c)) (p_w (c_props c) * p_h (c_props c)) /\
   sh_type (c_shape c) = p_type (c_props c)) /\
  (* running cameras have buffers *)
  (c_running c = true -> configured c = true) /\
  (* the memory statements, whenever buffers exist *)
  (configured c = true ->
     forall caller, bytes_of_image (c_shape c) <= caller ->
       frame_in_bounds v c caller = true /\
       (forall a, In a (frame_accesses v c) -> in_bounds c caller a /\ in_bounds (swap_buffers c) caller a) /\
       (forall a base i, In a (frame_accesses v c) -> base mod alloc_align = 0 -> (base + a_unit a * i) mod a_align a = 0) /\
       (forall c' r, step c (OGetFrame caller) = (c', r) ->
          c_running c = true -> r = RFrame Ok (bytes_of_image (c_shape c)) (Some (c_shape c)))).

Lemma consistent_good : forall v c, consistent c -> (c_running c = true -> configured c = true) -> good v c.
Proof.
  intros v c K R. split; [|split].
  - cbv zeta. destruct K. repeat split; auto; try (unfold meta_w_hi, meta_h_hi in *; lia).
    apply accepted_iff_pow2; assumption.
  - exact R.
  - intros C caller Hc. split; [|split; [|split]].
    + apply state_frame_in_bounds; assumption.
    + apply state_in_bounds; assumption.
    + intros. eapply aligned_lemma; eauto.
    + intros c' r Hs Hr. simpl in Hs.
      assert (E : (caller <? bytes_of_image (c_shape c)) = false) by (apply Z.ltb_ge; exact Hc).
      rewrite E, Hr in Hs. simpl in Hs. inversion Hs. reflexivity.
Qed.

Lemma reconfig_lemma : forall v k ops,
  wf_hist (init k) ops = true ->
  good v (run (init k) ops) /\
  (* the geometry in effect is exactly that of the last accepted set, whatever happened before *)
  (forall pre s post, ops = pre ++ OSet s :: post -> accepted s ->
     forallb (fun o => negb (is_set o)) post = true ->
     let c := run (init k) ops in
     c_props c = set_props s /\ c_shape c = set_shape s /\ c_kind c = k /\
     configured c = true).
Proof.
  intros v k ops W. split.
  - apply consistent_good.
    + apply run_consistent. apply init_consistent.
    + apply run_running; [exact W|]. simpl. discriminate.
  - intros pre s post E A NS. cbv zeta. subst ops.
    rewrite run_app. simpl.
    set (c0 := run (init k) pre).
    destruct (run_nonset_geometry post (fst (simcam_set c0 s)) NS) as [P [S Kd]].
    rewrite (simcam_set_accepted c0 s A) in *. simpl in *.
    rewrite P, S, Kd. unfold c0. rewrite run_kind. simpl.
    repeat split; auto.
    (* buffers stay allocated: no operation frees them *)
    apply run_nonset_configured; [exact NS|reflexivity].
Qed.
