(* Properties_C17.v -- C17: simulated cameras are memory-safe and honour the shape they report.
   Statements only; every proof is `exact <lemma of GeomProofs>`.  The model (Geom.v) describes the code with
   fixes/01 and fixes/02 applied; the two `_unfixed` theorems show, in the model, why the unchanged code fails.

   Quantification: every theorem is for ALL camera kinds, both bin2 variants (AVX2 / plain), all sample types,
   every binning byte (0..255 after the uint8_t reduction; the accepted ones are exactly 1,2,4,...,128, which
   contains the property's {1,2,4,8}), every requested shape / offset / exposure (any integer: the clamp maps the
   shape into 1..8192/b), and -- C17_reconfig -- all well-formed histories of set/get/start/get_frame/stop. *)
From Coq Require Import ZArith List Bool.
From SimGeom Require Import Geom GeomProofs.
Import ListNotations.
Local Open Scope Z_scope.

(* Which configurations are accepted, and what an accepted set reports: the clamped dimensions, strides
   (1, 1, w, w*h), the sample type, and -- through get / get_shape / get_meta -- exactly the values in effect
   (the ones the streamer derives the full-resolution shape from).  A rejected set changes nothing. *)
Theorem C17_shape : forall c s,
  let b := norm_binning (p_binning s) in
  (accepted s <-> In b pow2_bytes) /\
  (accepted s ->
     exists c', simcam_set c s = (c', Ok) /\
       let w := clamp (p_w s) 1 (MAX_IMAGE_WIDTH / b) in
       let h := clamp (p_h s) 1 (MAX_IMAGE_HEIGHT / b) in
       1 <= w <= MAX_IMAGE_WIDTH / b /\ 1 <= h <= MAX_IMAGE_HEIGHT / b /\
       ((1 <= p_w s <= MAX_IMAGE_WIDTH / b) -> w = p_w s) /\ ((1 <= p_h s <= MAX_IMAGE_HEIGHT / b) -> h = p_h s) /\
       sh_dims (c_shape c') = mkDims 1 w h 1 /\
       sh_strides (c_shape c') = mkStrides 1 1 w (w * h) /\
       sh_type (c_shape c') = p_type s /\
       c_props c' = mkProps (p_exposure s) b (p_type s) (p_ox s) (p_oy s) w h /\
       snd (step c' OGet) = RProps (c_props c') /\
       snd (step c' OGetShape) = RShape (c_shape c') /\
       snd (step c' OGetMeta) = RMeta (MAX_IMAGE_WIDTH / b) (MAX_IMAGE_HEIGHT / b) /\
       sh_dims (full_shape (c_props c') (c_shape c')) = mkDims 1 (b * w) (b * h) 1 /\
       c_kind c' = c_kind c /\ c_running c' = c_running c) /\
  (~ accepted s -> simcam_set c s = (c, Err)).
Proof. exact shape_lemma. Qed.
Print Assumptions C17_shape.

(* get_frame succeeds iff the caller's buffer is large enough and the camera runs; it then writes exactly
   bytes_of_image(reported shape) = w*h*bytes_of_type bytes (one contiguous copy from frame_data to the caller) and
   reports the shape in effect; otherwise it writes nothing and changes nothing. *)
Theorem C17_copy_exact : forall c nbytes,
  let n := bytes_of_image (c_shape c) in
  (n <= nbytes /\ c_running c = true ->
     step c (OGetFrame nbytes) = (swap_buffers c, RFrame Ok n (Some (c_shape c))) /\
     Forall (fun a => a_extent a = n) (copy_accesses c) /\
     map a_buf (copy_accesses c) = [BFrame; BCaller]) /\
  (~ (n <= nbytes /\ c_running c = true) -> step c (OGetFrame nbytes) = (c, RFrame Err 0 None)) /\
  (consistent c -> n = d_w (sh_dims (c_shape c)) * d_h (sh_dims (c_shape c)) * bytes_of_type (sh_type (c_shape c))).
Proof. exact copy_lemma. Qed.
Print Assumptions C17_copy_exact.

(* After any accepted set (from any prior state), everything that touches memory while a frame is produced and
   delivered -- im_fill_rand / im_fill_pattern<T> at full resolution, every bin2 pass, the copy-out -- stays inside
   the block it works on, whichever of the two image buffers currently plays which role; and the index arithmetic
   stays below 2^31. *)
Theorem C17_in_bounds : forall v c0 s c caller,
  simcam_set c0 s = (c, Ok) -> bytes_of_image (c_shape c) <= caller ->
  (forall a, In a (frame_accesses v c) -> in_bounds c caller a /\ in_bounds (swap_buffers c) caller a) /\
  (let full := full_shape (c_props c) (c_shape c) in
   1 <= d_w (sh_dims full) <= 8192 /\ 1 <= d_h (sh_dims full) <= 8192 /\ 1 <= bytes_of_image full <= 268435456).
Proof. exact in_bounds_lemma. Qed.
Print Assumptions C17_in_bounds.

(* Every access (scalar stores of the generators, the vector loads/stores of the AVX2 pass) is aligned as its
   instruction requires, for ANY base address the allocator may return (multiples of alloc_align = 16). *)
Theorem C17_aligned : forall v c a base i,
  In a (frame_accesses v c) -> base mod alloc_align = 0 -> (base + a_unit a * i) mod a_align a = 0.
Proof. exact aligned_lemma. Qed.
Print Assumptions C17_aligned.

(* All of the above holds in every state reachable by a well-formed history (start only on a configured, stopped
   camera; set / get / get_frame / stop at any time), and the geometry in effect is exactly that of the last accepted
   set, whatever happened before it. *)
Theorem C17_reconfig : forall v k ops,
  wf_hist (init k) ops = true ->
  good v (run (init k) ops) /\
  (forall pre s post, ops = pre ++ OSet s :: post -> accepted s ->
     forallb (fun o => negb (is_set o)) post = true ->
     let c := run (init k) ops in
     c_props c = set_props s /\ c_shape c = set_shape s /\ c_kind c = k /\ configured c = true).
Proof. exact reconfig_lemma. Qed.
Print Assumptions C17_reconfig.

(* The defects of the unchanged code, in the model.  D8a: sized for the reported (binned) shape, the buffers are too
   small for the random camera's full-resolution fill for every binning > 1 (images of >= 11 bytes).  D8b: a vector
   access that needs 32-byte alignment is misaligned for a base address the allocator may return. *)
Theorem C17_D8a_unfixed_overflows : forall c, consistent c -> 1 < p_binning (c_props c) ->
  11 <= bytes_of_image (c_shape c) ->
  alloc_bytes_unfixed (c_props c) (c_shape c) < fill_rand_extent (full_shape (c_props c) (c_shape c)).
Proof. exact D8a_unfixed_overflow. Qed.
Print Assumptions C17_D8a_unfixed_overflows.

Theorem C17_D8b_unfixed_misaligned :
  exists base i, base mod alloc_align = 0 /\ (base + 32 * i) mod avx2_access_align_unfixed <> 0.
Proof. exact D8b_unfixed_misaligned. Qed.
Print Assumptions C17_D8b_unfixed_misaligned.

(* ------------------------------------------------------------------------------------------------ non-vacuity *)
Definition ex_cfg : props := mkProps 1000 8 U16 5 7 33 9000.       (* binning 8, u16, 33 x 9000 requested *)
Definition ex_cfg2 : props := mkProps 500 0 F32 0 0 8192 8192.     (* binning 0 -> 1, full sensor, f32 *)
Definition ex_bad : props := mkProps 500 6 U8 0 0 64 64.           (* binning 6: rejected *)

(* accepted / rejected configurations exist; the clamp acts (9000 -> 1024) and is the identity inside the range *)
Example ex_accepted : accepted ex_cfg /\ accepted ex_cfg2 /\ ~ accepted ex_bad.
Proof. unfold accepted. vm_compute. repeat split; congruence. Qed.

Example ex_set_reports :
  let c := fst (simcam_set (init KRandom) ex_cfg) in
  snd (simcam_set (init KRandom) ex_cfg) = Ok /\
  sh_dims (c_shape c) = mkDims 1 33 1024 1 /\ sh_strides (c_shape c) = mkStrides 1 1 33 33792 /\
  c_props c = mkProps 1000 8 U16 5 7 33 1024 /\
  c_frame c = Some 4325376 /\ c_render c = Some 4325376.          (* align32 (264 * 8192 * 2) *)
Proof. vm_compute. repeat split; reflexivity. Qed.

(* a reachable running state: set, start, get_frame, stop, set (re-configuration), start; the history is
   well-formed, the last state runs, its frame accesses are non-trivial (fill + 3 bin passes + copy), and the
   in-bounds bound is attained by the random fill (extent = allocated size) *)
Definition ex_hist : list op :=
  [OSet ex_cfg2; OStart; OGetFrame 268435456; OStop; OSet ex_bad; OSet ex_cfg; OGet; OStart; OGetFrame 67584].

Example ex_hist_wf : wf_hist (init KRandom) ex_hist = true.
Proof. vm_compute. reflexivity. Qed.

Example ex_hist_state :
  let c := run (init KRandom) ex_hist in
  c_running c = true /\ configured c = true /\ bytes_of_image (c_shape c) = 67584 /\
  length (frame_accesses AVX2 c) = 6%nat /\
  map a_extent (frame_accesses AVX2 c) = [4325376; 2097184; 524320; 131104; 67584; 67584] /\
  map a_extent (frame_accesses Plain c) = [4325376; 2162424; 540540; 135102; 67584; 67584] /\
  c_render c = Some 4325376 /\
  frame_in_bounds AVX2 c 67584 = true /\ frame_in_bounds Plain c 67584 = true.
Proof. vm_compute. repeat split; reflexivity. Qed.

Example ex_hist_decomposes :
  ex_hist = [OSet ex_cfg2; OStart; OGetFrame 268435456; OStop; OSet ex_bad] ++ OSet ex_cfg :: [OGet; OStart; OGetFrame 67584]
  /\ forallb (fun o => negb (is_set o)) [OGet; OStart; OGetFrame 67584] = true.
Proof. split; reflexivity. Qed.

(* get_frame: both branches of C17_copy_exact are reachable *)
Example ex_copy :
  let c := run (init KSin) [OSet ex_cfg; OStart] in
  snd (step c (OGetFrame 67584)) = RFrame Ok 67584 (Some (c_shape c)) /\
  snd (step c (OGetFrame 67583)) = RFrame Err 0 None /\
  snd (step (run (init KSin) [OSet ex_cfg]) (OGetFrame 67584)) = RFrame Err 0 None.
Proof. vm_compute. repeat split; reflexivity. Qed.

(* alignment: the access classes of a frame do include 4-byte stores and 32-byte-spaced vector accesses *)
Example ex_aligned_classes :
  let c := run (init KRandom) [OSet ex_cfg] in
  map (fun a => (a_unit a, a_align a)) (frame_accesses AVX2 c) = [(4, 4); (32, 1); (32, 1); (32, 1); (1, 1); (1, 1)] /\
  map (fun a => (a_unit a, a_align a)) (frame_accesses AVX2 (run (init KSin) [OSet ex_cfg2])) = [(4, 4); (1, 1); (1, 1)].
Proof. vm_compute. split; reflexivity. Qed.

(* the unfixed sizing: hypotheses of C17_D8a_unfixed_overflows are met by the state after `set ex_cfg` *)
Example ex_d8a :
  let c := run (init KRandom) [OSet ex_cfg] in
  1 < p_binning (c_props c) /\ 11 <= bytes_of_image (c_shape c) /\
  alloc_bytes_unfixed (c_props c) (c_shape c) = 67584 /\
  fill_rand_extent (full_shape (c_props c) (c_shape c)) = 4325376.
Proof. vm_compute. repeat split; congruence. Qed.
