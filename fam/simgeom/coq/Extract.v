From Coq Require Import ZArith List Bool.
From Coq Require Import ExtrOcamlBasic.
From SimGeom Require Import Geom.
Extraction Language OCaml.
Extraction "simgeom.ml" init step wf_op configured frame_accesses frame_in_bounds frame_aligned
  fill_rand_extent fill_pattern_extent bin2_extent bin2_access bytes_of_image aligned_bytes_of_image
  compute_strides alloc_bytes alloc_bytes_unfixed avx2_access_align_unfixed alloc_align.
