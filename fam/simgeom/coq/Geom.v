(* Geom.v -- executable model of the geometry of the simulated cameras (DESIGN 6.17, property C17).

   Source modelled, statement by statement (acquire-driver-common/src/simcams):
     simulated.camera.c   aligned_bytes_of_image, im_fill_rand, im_fill_pattern (dispatch), compute_strides,
                          compute_full_resolution_shape_and_offset, the render/bin part of the streamer loop,
                          simcam_get_meta (shape limits), simcam_set, simcam_get, simcam_get_shape, simcam_start,
                          simcam_stop, simcam_get_frame (size check, running check, copy-out), simcam_make_camera
     bin2.avx2.c          bin2: the three loops, as block (32-byte) index arithmetic
     bin2.plain.c         bin2: the horizontal loop, the vertical loop, the row copy, as byte index arithmetic
     imfill.pattern.cpp   im_fill_pattern<T>: o = strides.width*x + strides.height*y
     popcount.cpp         popcount_u8
     components.c         bytes_of_type, bytes_of_image

   The model describes the code WITH fixes/01 (buffers sized for the full-resolution shape) and fixes/02 (the AVX2
   pass uses unaligned vector loads/stores).  The behaviour of the unfixed code is kept next to it
   ([alloc_bytes_unfixed], [avx2_access_align_unfixed]) only so that GeomProofs can show the defects D8a/D8b in the
   model; nothing else refers to those two definitions.

   All quantities are Z.  Values the C code keeps in uint8_t/uint32_t/int/size_t stay far below 2^31 once the
   shape is clamped (<= 8192 per axis, <= 2^28 bytes per image); [GeomProofs.full_shape_small] proves that, so
   no wrap-around needs to be modelled after the clamp.  The binning byte is reduced mod 256 on entry.

   NO proofs in this file. *)
From Coq Require Import ZArith List Bool.
Import ListNotations.
Local Open Scope Z_scope.

(* ------------------------------------------------------------------------------------------------ types *)
Inductive kind := KRandom | KSin | KEmpty.                       (* BasicDevice_Camera_Random / _Sin / _Empty *)

(* enum SampleType, in declaration order (codes 0..7).  Codes >= 8 have bytes_of_type = 0 and are outside the
   model (see notes.md, D23). *)
Inductive stype := U8 | U16 | I8 | I16 | F32 | U10 | U12 | U14.

Definition bytes_of_type (t : stype) : Z :=
  match t with U8 => 1 | U16 => 2 | I8 => 1 | I16 => 2 | F32 => 4 | U10 => 2 | U12 => 2 | U14 => 2 end.

Record dims := mkDims { d_c : Z; d_w : Z; d_h : Z; d_p : Z }.
Record strides := mkStrides { st_c : Z; st_w : Z; st_h : Z; st_p : Z }.
Record ishape := mkShape { sh_dims : dims; sh_strides : strides; sh_type : stype }.

(* compute_strides: st[0] = 1; st[i] = st[i-1] * dims[i-1] *)
Definition compute_strides (d : dims) : strides :=
  let s0 := 1 in
  let s1 := s0 * d_c d in
  let s2 := s1 * d_w d in
  let s3 := s2 * d_h d in
  mkStrides s0 s1 s2 s3.

Definition bytes_of_image (s : ishape) : Z := st_p (sh_strides s) * bytes_of_type (sh_type s).

(* ((n + 31) >> 5) << 5 *)
Definition align32 (n : Z) : Z := ((n + 31) / 32) * 32.
Definition aligned_bytes_of_image (s : ishape) : Z := align32 (bytes_of_image s).

(* ------------------------------------------------------------------------------------------------ properties *)
(* The part of struct CameraProperties the geometry depends on or that set/get pass through.
   p_exposure stands for exposure_time_us (passed through unchanged; the harness uses integral values). *)
Record props := mkProps {
  p_exposure : Z; p_binning : Z; p_type : stype; p_ox : Z; p_oy : Z; p_w : Z; p_h : Z }.

Definition MAX_IMAGE_WIDTH : Z := 8192.
Definition MAX_IMAGE_HEIGHT : Z := 8192.

Fixpoint popcount (p : positive) : Z :=
  match p with xH => 1 | xO q => popcount q | xI q => 1 + popcount q end.
Definition popcount_u8 (b : Z) : Z := match b with Zpos p => popcount p | _ => 0 end.

(* #define clamp(v, L, H) (((v) < (L)) ? (L) : (((v) > (H)) ? (H) : (v))) *)
Definition clamp (v lo hi : Z) : Z := if v <? lo then lo else if v >? hi then hi else v.

(* simcam_get_meta: shape.x = {low 1, high MAX_IMAGE_WIDTH / binning} (float division of powers of two: exact) *)
Definition meta_w_hi (b : Z) : Z := MAX_IMAGE_WIDTH / b.
Definition meta_h_hi (b : Z) : Z := MAX_IMAGE_HEIGHT / b.

(* compute_full_resolution_shape_and_offset: w = b * shape.x, h = b * shape.y, type of im.shape *)
Definition full_shape (pr : props) (im : ishape) : ishape :=
  let b := p_binning pr in
  let d := mkDims 1 (b * p_w pr) (b * p_h pr) 1 in
  mkShape d (compute_strides d) (sh_type im).

(* ------------------------------------------------------------------------------------------------ camera state *)
(* c_frame / c_render: None = NULL pointer, Some n = a live heap block of n bytes. *)
Record cam := mkCam {
  c_kind : kind; c_props : props; c_shape : ishape;
  c_frame : option Z; c_render : option Z; c_running : bool }.

(* simcam_make_camera *)
Definition init (k : kind) : cam :=
  let d := mkDims 1 1920 1080 1 in
  mkCam k (mkProps 10000 1 U8 0 0 1920 1080)
        (mkShape d (mkStrides 1 1 1920 (1920 * 1080)) U8)
        None None false.

Inductive status := Ok | Err.

(* nbytes computed by simcam_set with fixes/01: the aligned size of the FULL-RESOLUTION image, because the streamer
   renders at full resolution into render_data and bins in place. *)
Definition alloc_bytes (pr : props) (im : ishape) : Z := aligned_bytes_of_image (full_shape pr im).
(* what the unfixed code asked for: the aligned size of the binned (reported) image *)
Definition alloc_bytes_unfixed (pr : props) (im : ishape) : Z := aligned_bytes_of_image im.

(* the binning byte after  `if (!settings->binning) settings->binning = 1;`  (uint8_t) *)
Definition norm_binning (b : Z) : Z := let b8 := b mod 256 in if b8 =? 0 then 1 else b8.

Definition simcam_set (c : cam) (s : props) : cam * status :=
  let b := norm_binning (p_binning s) in
  if negb (popcount_u8 b =? 1) then (c, Err)                       (* "Binning must be a power of two" *)
  else
    let w := clamp (p_w s) 1 (meta_w_hi b) in
    let h := clamp (p_h s) 1 (meta_h_hi b) in
    let d := mkDims 1 w h 1 in
    let im := mkShape d (compute_strides d) (p_type s) in
    let pr := mkProps (p_exposure s) b (p_type s) (p_ox s) (p_oy s) w h in
    let n := alloc_bytes pr im in
    (* checked_realloc(frame_data, n), checked_realloc(render_data, n); allocation is assumed to succeed *)
    (mkCam (c_kind c) pr im (Some n) (Some n) (c_running c), Ok).

(* ------------------------------------------------------------------------------------------------ touched extents *)
(* An access class: a routine touches buffer a_buf with accesses of a_width bytes that start at byte offsets
   a_unit * i (i = 0, 1, ...), each needing the address to be a multiple of a_align; a_extent is one past the
   highest byte offset touched (0: the routine does not touch the buffer at all). *)
Inductive buf := BRender | BFrame | BCaller.
Inductive routine := RFillRand | RFillPattern | RBin2 | RCopyRead | RCopyWrite.
Record access := mkAcc {
  a_who : routine; a_buf : buf; a_unit : Z; a_width : Z; a_align : Z; a_extent : Z }.

(* im_fill_rand: for (p = buf; p < buf + aligned_bytes_of_image(shape); p += 4) *(uint32_t* )p = ...
   iterations = ceil(nbytes / 4), each a 4-byte store *)
Definition fill_rand_extent (s : ishape) : Z :=
  let n := aligned_bytes_of_image s in
  if n <=? 0 then 0 else 4 * ((n + 3) / 4).

(* im_fill_pattern dispatch: u8, i8, u16, i16, f32 are rendered with T of that size; other types only log *)
Definition pattern_elem (t : stype) : option Z :=
  match t with U8 | I8 => Some 1 | U16 | I16 => Some 2 | F32 => Some 4 | U10 | U12 | U14 => None end.

(* im_fill_pattern<T>: for y < height, x < width: buf[strides.width * x + strides.height * y] = ... *)
Definition fill_pattern_extent (s : ishape) : Z :=
  match pattern_elem (sh_type s) with
  | None => 0
  | Some sz =>
      let w := d_w (sh_dims s) in
      let h := d_h (sh_dims s) in
      if (w <=? 0) || (h <=? 0) then 0
      else sz * (st_w (sh_strides s) * (w - 1) + st_h (sh_strides s) * (h - 1) + 1)
  end.

(* ---- bin2.avx2.c, in units of one __m256i block (32 bytes) ---- *)
Definition LANES : Z := 32.
Definition ceil_blocks (n : Z) : Z := (n + LANES - 1) / LANES.
Definition floor_blocks (n : Z) : Z := n / LANES.

(* loop 1: y < h/2, x < CEIL_BLOCKS(w): reads (2*y*dy + x) and (2*y*dy + x + dy), writes (x + y*dy) *)
Definition avx2_p1_read_blocks (w h : Z) : Z :=
  let dy := w / LANES in
  if (h / 2 <=? 0) || (ceil_blocks w <=? 0) then 0
  else 2 * (h / 2 - 1) * dy + (ceil_blocks w - 1) + dy + 1.
Definition avx2_p1_write_blocks (w h : Z) : Z :=
  let dy := w / LANES in
  if (h / 2 <=? 0) || (ceil_blocks w <=? 0) then 0
  else (ceil_blocks w - 1) + (h / 2 - 1) * dy + 1.
(* loop 2: x < FLOOR_BLOCKS(w*h/2): reads and writes block x *)
Definition avx2_p2_blocks (w h : Z) : Z := Z.max 0 (floor_blocks (w * h / 2)).
(* loop 3: x < FLOOR_BLOCKS(w*h/4): reads blocks 2x and 2x+1, writes block x *)
Definition avx2_p3_read_blocks (w h : Z) : Z := 2 * Z.max 0 (floor_blocks (w * h / 4)).
Definition avx2_p3_write_blocks (w h : Z) : Z := Z.max 0 (floor_blocks (w * h / 4)).

Definition bin2_avx2_blocks (w h : Z) : Z :=
  Z.max (Z.max (avx2_p1_read_blocks w h) (avx2_p1_write_blocks w h))
        (Z.max (avx2_p2_blocks w h) (Z.max (avx2_p3_read_blocks w h) (avx2_p3_write_blocks w h))).
Definition bin2_avx2_extent (w h : Z) : Z := LANES * bin2_avx2_blocks w h.

(* alignment each vector access of the AVX2 pass needs: 1 with fixes/02 (_mm256_loadu_si256 / _mm256_storeu_si256);
   the unfixed code dereferenced __m256i* directly, which needs 32 *)
Definition avx2_access_align : Z := 1.
Definition avx2_access_align_unfixed : Z := 32.
(* what malloc/realloc guarantee on x86-64 (alignof(max_align_t)) *)
Definition alloc_align : Z := 16.

(* ---- bin2.plain.c, in bytes ---- *)
(* horizontal: `row_end = im_ + w` for every row, so only the first row is processed: p = 0, 2, ... < w touches p
   and p+1; the compaction loop stays inside [0, w) *)
Definition plain_h_extent (w h : Z) : Z :=
  if (w * h <=? 0) || (w <=? 0) then 0 else 2 * ((w - 1) / 2) + 2.
(* vertical: `row_end = im_ + 2*w` for every row, so only row = im_ + w is processed (if it is below end):
   p in [w, 2w) touches p - w and p *)
Definition plain_v_extent (w h : Z) : Z :=
  if (w * h <=? w) || (w <=? 0) then 0 else 2 * w.
(* row copy: src_row = 2*w*k while 2*w*k < w*h, memcpy(dst_row, src_row, w) *)
Definition plain_c_extent (w h : Z) : Z :=
  if (w * h <=? 0) || (w <=? 0) then 0 else 2 * w * ((h - 1) / 2) + w.
Definition bin2_plain_extent (w h : Z) : Z :=
  Z.max (plain_h_extent w h) (Z.max (plain_v_extent w h) (plain_c_extent w h)).

(* which bin2 the build uses: bin2.avx2.c when __AVX2__ is defined (the repository builds with -mavx2) *)
Inductive variant := AVX2 | Plain.

Definition bin2_extent (v : variant) (w h : Z) : Z :=
  match v with AVX2 => bin2_avx2_extent w h | Plain => bin2_plain_extent w h end.

Definition bin2_access (v : variant) (w h : Z) : access :=
  match v with
  | AVX2 => mkAcc RBin2 BRender LANES LANES avx2_access_align (bin2_avx2_extent w h)
  | Plain => mkAcc RBin2 BRender 1 1 1 (bin2_plain_extent w h)
  end.

(* streamer loop:  int b = binning >> 1; while (b) { bin2(render_data, w, h); b >>= 1; w >>= 1; h >>= 1; }
   [bin_passes bb w h] is the list of (w, h) of the calls, for the current value bb > 0 of the C variable b. *)
Fixpoint bin_passes (bb : positive) (w h : Z) : list (Z * Z) :=
  (w, h) :: match bb with
            | xH => []
            | xO q => bin_passes q (w / 2) (h / 2)
            | xI q => bin_passes q (w / 2) (h / 2)
            end.

(* if (binning > 1) { b = binning >> 1; ... } *)
Definition bin_schedule (b w h : Z) : list (Z * Z) :=
  match b with
  | Zpos (xO q) => bin_passes q w h
  | Zpos (xI q) => bin_passes q w h
  | _ => []
  end.

(* one iteration of the streamer loop: render at full resolution into render_data, then bin in place *)
Definition render_accesses (v : variant) (c : cam) : list access :=
  let full := full_shape (c_props c) (c_shape c) in
  let gen :=
    match c_kind c with
    | KRandom => [mkAcc RFillRand BRender 4 4 4 (fill_rand_extent full)]
    | KSin => match pattern_elem (sh_type full) with
              | Some sz => [mkAcc RFillPattern BRender sz sz sz (fill_pattern_extent full)]
              | None => []
              end
    | KEmpty => []
    end in
  gen ++ map (fun wh => bin2_access v (fst wh) (snd wh))
             (bin_schedule (p_binning (c_props c)) (d_w (sh_dims full)) (d_h (sh_dims full))).

(* simcam_get_frame: memcpy(im, frame_data, bytes_of_image(&im.shape)) *)
Definition copy_accesses (c : cam) : list access :=
  let n := bytes_of_image (c_shape c) in
  [mkAcc RCopyRead BFrame 1 1 1 n; mkAcc RCopyWrite BCaller 1 1 1 n].

(* everything that touches memory between two get_frame calls *)
Definition frame_accesses (v : variant) (c : cam) : list access := render_accesses v c ++ copy_accesses c.

(* size of the block an access class works on; the caller's buffer has the size the caller announced *)
Definition buf_size (c : cam) (caller : Z) (b : buf) : option Z :=
  match b with BRender => c_render c | BFrame => c_frame c | BCaller => Some caller end.

Definition access_in_bounds (c : cam) (caller : Z) (a : access) : bool :=
  if a_extent a <=? 0 then true
  else match buf_size c caller (a_buf a) with Some n => a_extent a <=? n | None => false end.

Definition access_aligned (a : access) : bool :=
  (0 <? a_align a) && (alloc_align mod a_align a =? 0) && (a_unit a mod a_align a =? 0).

(* ------------------------------------------------------------------------------------------------ operations *)
Inductive op :=
| OSet (s : props) | OGet | OGetShape | OGetMeta | OStart | OStop | OGetFrame (nbytes : Z).

Inductive res :=
| RStatus (st : status)
| RSet (st : status) (binning_out : Z)            (* set also writes the normalised binning back to *settings *)
| RProps (p : props)
| RShape (s : ishape)
| RMeta (w_hi h_hi : Z)
| RFrame (st : status) (written : Z) (info : option ishape).

(* The streamer swaps frame_data and render_data when it publishes a frame. *)
Definition swap_buffers (c : cam) : cam :=
  mkCam (c_kind c) (c_props c) (c_shape c) (c_render c) (c_frame c) (c_running c).

Definition set_running (c : cam) (r : bool) : cam :=
  mkCam (c_kind c) (c_props c) (c_shape c) (c_frame c) (c_render c) r.

Definition step (c : cam) (o : op) : cam * res :=
  match o with
  | OSet s =>
      let (c', st) := simcam_set c s in
      (c', RSet st (match st with Ok => p_binning (c_props c') | Err => norm_binning (p_binning s) end))
  | OGet => (c, RProps (c_props c))
  | OGetShape => (c, RShape (c_shape c))
  | OGetMeta => (c, RMeta (meta_w_hi (p_binning (c_props c))) (meta_h_hi (p_binning (c_props c))))
  | OStart => (set_running c true, RStatus Ok)
  | OStop => (set_running c false, RStatus Ok)
  | OGetFrame nbytes =>
      if nbytes <? bytes_of_image (c_shape c) then (c, RFrame Err 0 None)      (* CHECK( *nbytes >= bytes_of_image) *)
      else if negb (c_running c) then (c, RFrame Err 0 None)                  (* CHECK(is_running) *)
      else (swap_buffers c, RFrame Ok (bytes_of_image (c_shape c)) (Some (c_shape c)))
  end.

(* Protocol (enforced by the HAL / the runtime, not by the camera): start needs a configured camera (a set has
   succeeded, so the buffers exist) that is not already running. *)
Definition configured (c : cam) : bool :=
  match c_frame c, c_render c with Some _, Some _ => true | _, _ => false end.

Definition wf_op (c : cam) (o : op) : bool :=
  match o with OStart => configured c && negb (c_running c) | _ => true end.

Fixpoint run (c : cam) (ops : list op) : cam :=
  match ops with [] => c | o :: tl => run (fst (step c o)) tl end.

Fixpoint wf_hist (c : cam) (ops : list op) : bool :=
  match ops with [] => true | o :: tl => wf_op c o && wf_hist (fst (step c o)) tl end.

(* what the check asks the model for every state: are all accesses of a frame in bounds / aligned *)
Definition frame_in_bounds (v : variant) (c : cam) (caller : Z) : bool :=
  forallb (access_in_bounds c caller) (frame_accesses v c) &&
  forallb (access_in_bounds (swap_buffers c) caller) (frame_accesses v c).
Definition frame_aligned (v : variant) (c : cam) : bool := forallb access_aligned (frame_accesses v c).
