(* Line-protocol driver around the extracted geometry model (same protocol as harness/h_simgeom.c, mode seq),
   plus model-only queries:
     x rand|pat <type> <W> <H>     extent, unit, width, alignment of the generator on a W x H image
     x avx2|plain <w> <h>          the same for one bin2 call
     x copy <type> <w> <h>         bytes the copy-out moves
     acc <avx2|plain>              the access classes of one frame in the current state, in-bounds / aligned verdicts *)
open Simgeom

let rec pos_of_int n = if n = 1 then XH else if n land 1 = 0 then XO (pos_of_int (n lsr 1)) else XI (pos_of_int (n lsr 1))
let z_of_int n = if n = 0 then Z0 else if n > 0 then Zpos (pos_of_int n) else Zneg (pos_of_int (-n))
let rec int_of_pos = function XH -> 1 | XO p -> 2 * int_of_pos p | XI p -> 2 * int_of_pos p + 1
let int_of_z = function Z0 -> 0 | Zpos p -> int_of_pos p | Zneg p -> - (int_of_pos p)

let stype_of_int = function
  | 0 -> U8 | 1 -> U16 | 2 -> I8 | 3 -> I16 | 4 -> F32 | 5 -> U10 | 6 -> U12 | 7 -> U14
  | _ -> failwith "sample type outside the model"
let int_of_stype = function U8 -> 0 | U16 -> 1 | I8 -> 2 | I16 -> 3 | F32 -> 4 | U10 -> 5 | U12 -> 6 | U14 -> 7
let kind_of_int = function 0 -> KRandom | 1 -> KSin | _ -> KEmpty
let rc = function Ok -> 0 | Err -> 1
let variant_of = function "plain" -> Plain | _ -> AVX2

let shape_str (s : ishape) =
  let d = s.sh_dims and t = s.sh_strides in
  Printf.sprintf "%d %d %d %d | %d %d %d %d | %d" (int_of_z d.d_c) (int_of_z d.d_w) (int_of_z d.d_h) (int_of_z d.d_p)
    (int_of_z t.st_c) (int_of_z t.st_w) (int_of_z t.st_h) (int_of_z t.st_p) (int_of_stype s.sh_type)

let mk_shape t w h =
  let d = { d_c = z_of_int 1; d_w = z_of_int w; d_h = z_of_int h; d_p = z_of_int 1 } in
  { sh_dims = d; sh_strides = compute_strides d; sh_type = stype_of_int t }

let size_str = function None -> "null" | Some n -> string_of_int (int_of_z n)
let who_str = function RFillRand -> "rand" | RFillPattern -> "pat" | RBin2 -> "bin2" | RCopyRead -> "copyrd" | RCopyWrite -> "copywr"
let buf_str = function BRender -> "render" | BFrame -> "frame" | BCaller -> "caller"

let () =
  let c = ref (init KRandom) in
  let have = ref false in
  (try
     while true do
       let line = input_line stdin in
       let w = List.filter (fun s -> s <> "") (String.split_on_char ' ' (String.trim line)) in
       (match w with
        | [] -> ()
        | s :: _ when String.length s > 0 && s.[0] = '#' -> ()
        | ["new"; k] -> c := init (kind_of_int (int_of_string k)); have := true; Printf.printf "NEW %s\n" k
        | "x" :: what :: args ->
          let a = List.map int_of_string args in
          (match what, a with
           | "rand", [t; ww; hh] ->
             Printf.printf "X %d 4 4 4\n" (int_of_z (fill_rand_extent (mk_shape t ww hh)))
           | "pat", [t; ww; hh] ->
             let sz = int_of_z (bytes_of_image (mk_shape t 1 1)) in
             Printf.printf "X %d %d %d %d\n" (int_of_z (fill_pattern_extent (mk_shape t ww hh))) sz sz sz
           | ("avx2" | "plain"), [ww; hh] ->
             let acc = bin2_access (variant_of what) (z_of_int ww) (z_of_int hh) in
             Printf.printf "X %d %d %d %d\n" (int_of_z acc.a_extent) (int_of_z acc.a_unit) (int_of_z acc.a_width) (int_of_z acc.a_align)
           | "copy", [t; ww; hh] ->
             Printf.printf "X %d 1 1 1\n" (int_of_z (bytes_of_image (mk_shape t ww hh)))
           | _ -> Printf.printf "BADOP %s\n" line)
        | _ when not !have -> print_string "NOCAM\n"
        | ["set"; b; t; ww; hh; ox; oy; ex] ->
          let s = { p_exposure = z_of_int (int_of_string ex); p_binning = z_of_int (int_of_string b);
                    p_type = stype_of_int (int_of_string t); p_ox = z_of_int (int_of_string ox);
                    p_oy = z_of_int (int_of_string oy); p_w = z_of_int (int_of_string ww); p_h = z_of_int (int_of_string hh) } in
          let c0 = !c in
          let (c1, r) = step c0 (OSet s) in
          c := c1;
          (match r with
           | RSet (Ok, bout) ->
             Printf.printf "SET rc=0 bout=%d A[r:%s>%s r:%s>%s]\n" (int_of_z bout)
               (size_str c0.c_frame) (size_str c1.c_frame) (size_str c0.c_render) (size_str c1.c_render)
           | RSet (Err, bout) -> Printf.printf "SET rc=1 bout=%d A[]\n" (int_of_z bout)
           | _ -> print_string "SET ?\n")
        | ["get"] ->
          let p = !c.c_props in
          Printf.printf "GET rc=0 exp=%d b=%d type=%d ox=%d oy=%d w=%d h=%d\n" (int_of_z p.p_exposure) (int_of_z p.p_binning)
            (int_of_stype p.p_type) (int_of_z p.p_ox) (int_of_z p.p_oy) (int_of_z p.p_w) (int_of_z p.p_h)
        | ["shape"] -> Printf.printf "SHAPE rc=0 %s\n" (shape_str !c.c_shape)
        | ["meta"] ->
          (match snd (step !c OGetMeta) with
           | RMeta (wh, hh) -> Printf.printf "META rc=0 wlo=1 whi=%d hlo=1 hhi=%d\n" (int_of_z wh) (int_of_z hh)
           | _ -> print_string "META ?\n")
        | ["start"] ->
          let wf = wf_op !c OStart in
          c := fst (step !c OStart);
          Printf.printf "START rc=0%s\n" (if wf then "" else " NOTWF")
        | ["stop"] -> c := fst (step !c OStop); print_string "STOP rc=0\n"
        | ["close"] ->
          Printf.printf "CLOSE rc=0 A[f:%s f:%s]\n" (size_str !c.c_frame) (size_str !c.c_render);
          have := false
        | ["frame"; slack; _] | ["frameshort" as slack; _] | ["frameshort" as slack] ->
          let n = int_of_z (bytes_of_image !c.c_shape) in
          let nb = if slack = "frameshort" then n - 1 else n + int_of_string slack in
          let (c1, r) = step !c (OGetFrame (z_of_int nb)) in
          c := c1;
          (match r with
           | RFrame (Ok, wr, Some s) ->
             Printf.printf "FRAME rc=0 written=%d tail=0 prefix=1 copies=1 nbytes=%d | %s\n" (int_of_z wr) nb (shape_str s)
           | RFrame (_, wr, _) -> Printf.printf "FRAME rc=1 written=%d tail=0\n" (int_of_z wr)
           | _ -> print_string "FRAME ?\n")
        | ["acc"; v] ->
          let v = variant_of v in
          let n = bytes_of_image !c.c_shape in
          let l = frame_accesses v !c in
          Printf.printf "ACC inb=%d al=%d conf=%d" (if frame_in_bounds v !c n then 1 else 0)
            (if frame_aligned v !c then 1 else 0) (if configured !c then 1 else 0);
          List.iter (fun a -> Printf.printf " %s:%s:%d:u%d:a%d" (who_str a.a_who) (buf_str a.a_buf) (int_of_z a.a_extent)
                        (int_of_z a.a_unit) (int_of_z a.a_align)) l;
          Printf.printf " | frame=%s render=%s unfixed_alloc=%d\n" (size_str !c.c_frame) (size_str !c.c_render)
            (int_of_z (alloc_bytes_unfixed !c.c_props !c.c_shape))
        | _ -> Printf.printf "BADOP %s\n" line);
       flush stdout
     done
   with End_of_file -> ())
