From Coq Require Import ZArith List Bool.
From Coq Require Import ExtrOcamlBasic.
From Ring Require Import ChanModel ChanGhost ChanSync.
Extraction Language OCaml.
Extraction "ringmodel.ml" ginit gstep idx wf_opb sinit sstep all_done enabledb.
