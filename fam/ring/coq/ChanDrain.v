(* ChanDrain.v -- a reader that keeps reading (map, unmap everything) reaches the drained state within two
   rounds when the writer commits nothing meanwhile; the third read is empty.  (C03, last sentence) *)
From Coq Require Import ZArith List Bool Lia.
From Ring Require Import ChanModel ChanGhost ChanInv ChanLog ChanStream ChanTheorems.
Import ListNotations.
Local Open Scope Z_scope.

Definition round (g : gst) (i : nat) : gst :=
  fst (gstep (fst (gstep g (OReadMap i))) (OReadUnmap i (cap (cs g)))).

Lemma round_spec g i r :
  Inv g -> nth_error (rds (cs g)) i = Some r -> rmapped r = false ->
  exists r', Inv (round g i) /\ nth_error (rds (cs (round g i))) i = Some r' /\ rmapped r' = false /\
    loglen (round g i) = loglen g /\ head (cs (round g i)) = head (cs g) /\ cap (cs (round g i)) = cap (cs g) /\
    (idx (round g i) r' = loglen g \/ idx (round g i) r' = loglen g - head (cs g)) /\
    (loglen g - head (cs g) <= idx g r -> idx (round g i) r' = loglen g).
Proof.
  intros I Hn Hu.
  assert (W : wf_op g (OReadMap i)).
  { simpl. pose proof (nth_some_lt_rd := proj1 (nth_error_Some (rds (cs g)) i)).
    assert (i < length (rds (cs g)))%nat by (apply nth_some_lt_rd; congruence).
    pose proof (i_len g I). repeat split; try lia. intros r0 Hr0. rewrite Hn in Hr0. inversion Hr0; subst; auto. }
  unfold round. destruct (gstep g (OReadMap i)) as [g1 res] eqn:E1.
  pose proof (inv_step g _ I W) as I1. rewrite E1 in I1. simpl in I1.
  destruct (read_returns_next_unread g i g1 res I W E1) as (rr & r1 & -> & N1 & L1 & P1 & X1 & _ & S1 & Z1).
  destruct (read_map_spec g i I W g1 _ E1) as (rr' & Er & F & _ & r1' & N1' & _ & _ & _ & M1 & M0).
  inversion Er; subst rr'. rewrite N1 in N1'. inversion N1'; subst r1'. clear N1' Er.
  assert (Lap : idx g r + rlen rr = loglen g \/ (idx g r + rlen rr = loglen g - head (cs g) /\ 0 < rlen rr)).
  { unfold gstep, step in E1. destruct (read_map (cs g) i) as [s' rr0] eqn:Em. inversion E1; subst.
    eapply read_existing_lap; eauto. }
  destruct F as (Fc & Fh & Fhi & Fy & Fm & Fa & Fp & Fl & Fce & Fb).
  simpl fst. rewrite <- Fc.
  destruct (Z.eq_dec (rlen rr) 0) as [Hz|Hz].
  - (* empty read: the unmap is a no-op *)
    destruct (M0 Hz) as (Mu & _).
    assert (Same : cs (fst (gstep g1 (OReadUnmap i (cap (cs g1))))) = cs g1).
    { apply read_unmap_unmapped. intros r0 Hr0. rewrite N1 in Hr0. inversion Hr0; subst; auto. }
    pose proof (inv_step g1 (OReadUnmap i (cap (cs g1))) I1 ltac:(simpl; pose proof (i_cap g1 I1); lia)) as I2.
    destruct (gstep_reader_frame g1 (OReadUnmap i (cap (cs g1))) ltac:(simpl; tauto)) as (Hl2 & _).
    exists r1. split; [exact I2|]. rewrite Same. split; [exact N1|]. split; [exact Mu|].
    split; [lia|]. split; [lia|]. split; [lia|].
    unfold idx. rewrite Same, Hl2. fold (idx g1 r1). rewrite (X1 r Hn). lia.
  - assert (Hp : 0 < rlen rr) by lia.
    destruct (M1 Hp) as (Mm & Mo & Ma). destruct (S1 Hp) as (B0 & B1 & _).
    assert (Hk : 0 <= cap (cs g1)) by (pose proof (i_cap g1 I1); lia).
    destruct (read_unmap_spec g1 i (cap (cs g1)) r1 I1 Hk N1 Mm) as (F2 & _ & r2 & N2 & U2 & X2).
    pose proof (inv_step g1 (OReadUnmap i (cap (cs g1))) I1 Hk) as I2.
    destruct F2 as (F2c & F2h & _ & _ & _ & _ & _ & F2l & _).
    exists r2. split; [exact I2|]. split; [exact N2|]. split; [exact U2|].
    split; [lia|]. split; [lia|]. split; [lia|].
    rewrite X2, Ma, (X1 r Hn). rewrite Z.min_l by lia. lia.
Qed.

(* after two rounds the reader is drained: the next read is empty *)
Theorem drained_after_two_rounds g i r :
  Inv g -> nth_error (rds (cs g)) i = Some r -> rmapped r = false ->
  let g2 := round (round g i) i in
  exists r2, nth_error (rds (cs g2)) i = Some r2 /\ idx g2 r2 = loglen g2 /\ loglen g2 = loglen g /\
    forall g3 rr, gstep g2 (OReadMap i) = (g3, ResR rr) -> rlen rr = 0.
Proof.
  intros I Hn Hu. cbv zeta.
  destruct (round_spec g i r I Hn Hu) as (r1 & I1 & N1 & U1 & L1 & H1 & C1 & D1 & _).
  destruct (round_spec (round g i) i r1 I1 N1 U1) as (r2 & I2 & N2 & U2 & L2 & H2 & C2 & _ & D2).
  set (g1 := round g i) in *. set (g2 := round g1 i) in *.
  pose proof (i_head g I) as Hh.
  assert (E2 : idx g2 r2 = loglen g2) by (rewrite L2; apply D2; destruct D1; lia).
  exists r2. split; [exact N2|]. split; [exact E2|]. split; [lia|].
  intros g3 rr E3.
  assert (W2 : wf_op g2 (OReadMap i)).
  { simpl. assert (i < length (rds (cs g2)))%nat by (apply nth_error_Some; congruence).
    pose proof (i_len g2 I2). repeat split; try lia. intros r0 Hr0. rewrite N2 in Hr0. inversion Hr0; subst; auto. }
  destruct (read_returns_next_unread g2 i g3 _ I2 W2 E3) as (rr' & r3 & Er & N3 & L3 & P3 & X3 & _ & S3 & Z3).
  inversion Er; subst rr'. destruct (Z.eq_dec (rlen rr) 0) as [|Hnz]; auto.
  destruct (S3 ltac:(lia)) as (_ & _ & B & _). rewrite (X3 r2 N2) in B. lia.
Qed.
