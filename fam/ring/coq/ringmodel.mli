
val negb : bool -> bool

type nat =
| O
| S of nat

val length : 'a1 list -> nat

val app : 'a1 list -> 'a1 list -> 'a1 list

type comparison =
| Eq
| Lt
| Gt

val compOpp : comparison -> comparison

type positive =
| XI of positive
| XO of positive
| XH

type z =
| Z0
| Zpos of positive
| Zneg of positive

module Nat :
 sig
  val eqb : nat -> nat -> bool

  val leb : nat -> nat -> bool

  val ltb : nat -> nat -> bool
 end

module Pos :
 sig
  val succ : positive -> positive

  val add : positive -> positive -> positive

  val add_carry : positive -> positive -> positive

  val pred_double : positive -> positive

  val compare_cont : comparison -> positive -> positive -> comparison

  val compare : positive -> positive -> comparison

  val eqb : positive -> positive -> bool
 end

module Z :
 sig
  val double : z -> z

  val succ_double : z -> z

  val pred_double : z -> z

  val pos_sub : positive -> positive -> z

  val add : z -> z -> z

  val opp : z -> z

  val sub : z -> z -> z

  val compare : z -> z -> comparison

  val leb : z -> z -> bool

  val ltb : z -> z -> bool

  val eqb : z -> z -> bool

  val min : z -> z -> z
 end

val nth_error : 'a1 list -> nat -> 'a1 option

val map : ('a1 -> 'a2) -> 'a1 list -> 'a2 list

type rd = { hpos : z; hcyc : z; rpos : z; rcyc : z; rmapped : bool;
            rstatus : z }

type chan = { cap : z; head : z; high : z; cyc : z; mapped : z;
              accepting : bool; rds : rd list }

val init : z -> chan

val cursor_cmp : z -> z -> z -> z -> z

val reader_min : rd -> rd list -> rd

type nw =
| NwNo
| NwAt of z * bool

val next_write : chan -> z -> nw

val set_head_mapped : chan -> z -> z -> chan

val wrap_to : chan -> z -> chan

val reset_holds : chan -> chan

val set_mapped : chan -> z -> chan

type wres =
| WTooBig
| WRefused
| WBlocked
| WRegion of z

val write_map : chan -> z -> chan * wres

val write_unmap : chan -> chan

val abort_write : chan -> chan

val accept_writes : chan -> bool -> chan

val upd : rd list -> nat -> (rd -> rd) -> rd list

val set_rds : chan -> rd list -> chan

val set_hold : z -> z -> rd -> rd

val set_target : z -> z -> bool -> rd -> rd

val set_status : z -> rd -> rd

val set_unmapped : rd -> rd

type rres = { roff : z; rlen : z; rnotified : bool }

val join : chan -> chan

val read_map : chan -> nat -> chan * rres

val avail : rd -> z -> z

val read_unmap : chan -> nat -> z -> chan * bool

type op =
| OWriteMap of z
| OCommit
| OAbort
| OAccept of bool
| OReadMap of nat
| OReadUnmap of nat * z

type res =
| ResW of wres
| ResUnit of bool
| ResR of rres

val step : chan -> op -> chan * res

type gst = { cs : chan; pend : bool; loglen : z; cell : (z -> z option);
             bounds : z list }

val ginit : z -> gst

val fill : (z -> z option) -> z -> z -> (z -> z option) -> z -> z option

val gstep : gst -> op -> gst * res

val wf_opb : gst -> op -> bool

val idx : gst -> rd -> z
