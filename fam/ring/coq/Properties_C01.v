From Ring Require Import ChanModel ChanGhost.
