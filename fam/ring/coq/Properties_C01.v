(* Properties_C01.v -- C01: the channel delivers every committed byte to each reader exactly once, in order;
   an empty read means drained.  Statements only; proofs are in ChanInv / ChanLog / ChanStream / ChanTheorems.
   Model: ChanModel (channel.c, field by field) + ChanGhost (log indices).  [grun] runs any well-formed
   history (one writer mapping then committing or aborting, any sizes, accept/refuse toggles, up to 8 readers
   joining at any time, any per-read consumed count); it is None only for ill-formed histories. *)
From Coq Require Import ZArith List Bool Lia.
From Ring Require Import ChanModel ChanGhost ChanInv ChanLog ChanStream ChanTheorems.
Import ListNotations.
Local Open Scope Z_scope.

(* Every reachable state satisfies the ring invariant (any capacity, any history length). *)
Theorem C01_invariant_reachable : forall c ops g,
  0 < c -> grun (ginit c) ops = Some g -> Inv g.
Proof. exact reachable_inv. Qed.
Print Assumptions C01_invariant_reachable.

(* Exactly-once, in-order, unaltered: over ANY continuation [ops2] of ANY reachable state, the ring cells
   reader i consumes through its unmaps are, in order, the log bytes cursor, cursor+1, ... (Some = committed
   and not overwritten), and its cursor has advanced by exactly that many bytes. *)
Theorem C01_stream_exact : forall c ops1 ops2 g1 g2 i r,
  0 < c -> grun (ginit c) ops1 = Some g1 -> grun g1 ops2 = Some g2 ->
  nth_error (rds (cs g1)) i = Some r ->
  exists r', nth_error (rds (cs g2)) i = Some r' /\
    delivered g1 ops2 i = map Some (zrange (idx g1 r) (length (delivered g1 ops2 i))) /\
    idx g2 r' = idx g1 r + Z.of_nat (length (delivered g1 ops2 i)).
Proof. intros c ops1 ops2 g1 g2 i r Hc E1 E2 Hn.
  exact (stream_exact ops2 g1 g2 i r (reachable_inv c ops1 g1 Hc E1) E2 Hn). Qed.
Print Assumptions C01_stream_exact.

(* What a read hands out: the next unread bytes of that reader (its cursor is unchanged by the map), inside the
   buffer and inside the committed log; a reader that joins starts at a write boundary <= the log length;
   and an EMPTY read happens only when the cursor equals the log length (drained). *)
Theorem C01_read_returns_next_unread : forall c ops g i g' res,
  0 < c -> grun (ginit c) ops = Some g -> wf_op g (OReadMap i) -> gstep g (OReadMap i) = (g', res) ->
  exists rr r', res = ResR rr /\ nth_error (rds (cs g')) i = Some r' /\
    loglen g' = loglen g /\ 0 <= rlen rr /\
    (forall r, nth_error (rds (cs g)) i = Some r -> idx g' r' = idx g r) /\
    (nth_error (rds (cs g)) i = None ->
       idx g' r' = loglen g - head (cs g) /\ In (idx g' r') (bounds g) /\ idx g' r' <= loglen g) /\
    (0 < rlen rr ->
       0 <= roff rr /\ roff rr + rlen rr <= cap (cs g') /\ idx g' r' + rlen rr <= loglen g' /\
       forall j, 0 <= j < rlen rr -> cell g' (roff rr + j) = Some (idx g' r' + j)) /\
    (rlen rr = 0 -> idx g' r' = loglen g').
Proof. intros c ops g i g' res Hc E. exact (read_returns_next_unread g i g' res (reachable_inv c ops g Hc E)). Qed.
Print Assumptions C01_read_returns_next_unread.

Theorem C01_empty_means_drained : forall c ops g i g' rr,
  0 < c -> grun (ginit c) ops = Some g -> wf_op g (OReadMap i) ->
  gstep g (OReadMap i) = (g', ResR rr) -> rlen rr = 0 ->
  exists r', nth_error (rds (cs g')) i = Some r' /\ idx g' r' = loglen g'.
Proof. intros c ops g i g' rr Hc E W G Hz.
  destruct (read_returns_next_unread g i g' _ (reachable_inv c ops g Hc E) W G)
    as (rr' & r' & Hr & Hn & _ & _ & _ & _ & _ & Hd).
  inversion Hr; subst rr'. exists r'. split; [exact Hn|]. apply Hd. exact Hz. Qed.
Print Assumptions C01_empty_means_drained.

(* An unmap moves the cursor by exactly min(consumed, slice length) and leaves every other reader alone. *)
Theorem C01_unmap_advances : forall c ops g i k r,
  0 < c -> grun (ginit c) ops = Some g -> 0 <= k ->
  nth_error (rds (cs g)) i = Some r -> rmapped r = true ->
  let g' := fst (gstep g (OReadUnmap i k)) in
  exists r', nth_error (rds (cs g')) i = Some r' /\ rmapped r' = false /\
    idx g' r' = idx g r + Z.min (avail r (high (cs g))) k /\
    loglen g' = loglen g /\
    forall j, j <> i -> nth_error (rds (cs g')) j = nth_error (rds (cs g)) j.
Proof. intros c ops g i k r Hc E. exact (unmap_advances g i k r (reachable_inv c ops g Hc E)). Qed.
Print Assumptions C01_unmap_advances.

(* The Overflow / Error branches of channel_read_map are dead on well-formed histories. *)
Theorem C01_no_overflow_status : forall c ops g r,
  0 < c -> grun (ginit c) ops = Some g -> In r (rds (cs g)) -> rstatus r = 0.
Proof. intros c ops g r Hc E. exact (status_ok g r (reachable_inv c ops g Hc E)). Qed.
Print Assumptions C01_no_overflow_status.

(* ---- non-vacuity: a reachable state with a wrapped writer, a lagging mapped reader and a caught-up one ---- *)
Definition ex_ops : list op :=
  [OWriteMap 3; OCommit; OReadMap 0%nat; OReadUnmap 0%nat 3; OWriteMap 3; OCommit; OReadMap 1%nat;
   OReadMap 0%nat; OWriteMap 2; OAbort; OAccept false; OAccept true; OReadUnmap 0%nat 1; OReadMap 0%nat].

Example ex_reachable : exists g, grun (ginit 5) ex_ops = Some g /\ cyc (cs g) = 1 /\ length (rds (cs g)) = 2%nat /\
  loglen g = 6 /\ exists r, nth_error (rds (cs g)) 0 = Some r /\ rmapped r = true /\ idx g r = 4.
Proof. eexists. split; [vm_compute; reflexivity|]. vm_compute. repeat split. eexists. repeat split. Qed.

(* the D1 history (reader exactly at `high` when the writer wraps): the read after the wrap is NOT empty *)
Example ex_d1_fixed :
  match grun (ginit 5) [OWriteMap 3; OCommit; OReadMap 0%nat; OReadUnmap 0%nat 3; OWriteMap 3; OCommit] with
  | Some g => snd (gstep g (OReadMap 0%nat)) = ResR (mkRres 0 3 true)
  | None => False
  end.
Proof. vm_compute. reflexivity. Qed.
