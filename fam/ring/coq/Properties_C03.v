(* Properties_C03.v -- C03: a blocked writer always resumes when space is released or writes are refused;
   readers that keep reading reach the drained state in a bounded number of calls.
   Model: ChanSync (one transition per block between scheduling points; the channel state and the critical
   sections are ChanModel's).  Thread 0 is the writer; every other thread reads through registered readers or
   toggles accept.  [srun true sp] runs ANY schedule (list of thread choices, any length), with (sp = true) or
   without spurious wake-ups; it is None only when the schedule picks a thread that is not enabled.
   Liveness is stated as: "the wait condition being false implies the writer has been notified, the lock is
   free, and the writer's own next step returns" -- i.e. bounded progress (one own step); that an enabled
   thread is eventually scheduled is the OS's fairness, assumed. *)
From Coq Require Import ZArith List Bool Lia.
From Ring Require Import ChanModel ChanGhost ChanInv ChanLog ChanStream ChanTheorems ChanSync ChanSyncProofs ChanDrain.
Import ListNotations.
Local Open Scope Z_scope.

(* No lost wake-up: in every state of every schedule, a writer asleep WITHOUT a pending notification still has
   a true wait condition (writes accepted and no room for its request).  [status_ok]: no reader has been driven
   into channel.c's error branches (double map), which C01 shows unreachable for well-behaved readers. *)
Theorem C03_no_lost_wakeup : forall sp c k scripts sched s th n rest,
  scripts_ok (joins (init c) k) scripts -> srun true sp (sinit c k scripts) sched = Some s ->
  nth_error (thrs s) 0 = Some th -> tpc th = PParked false -> tscript th = OWriteMap n :: rest ->
  status_ok (ch s) -> blocked (ch s) n.
Proof. intros sp c k scripts sched s th n rest Hs E.
  exact (no_lost_wakeup s th n rest (reachable_J sp c k scripts sched s Hs E)). Qed.
Print Assumptions C03_no_lost_wakeup.

(* Release resumes / refusal returns, for every instant: whenever the request could proceed (space released by
   readers, or writes refused), a parked writer HAS been notified, nobody holds the lock, and its next own step
   returns from channel_write_map (with a region or NULL), leaving it at its next operation. *)
Theorem C03_parked_writer_resumes : forall sp c k scripts sched s th b n rest,
  scripts_ok (joins (init c) k) scripts -> srun true sp (sinit c k scripts) sched = Some s ->
  nth_error (thrs s) 0 = Some th -> tpc th = PParked b -> tscript th = OWriteMap n :: rest ->
  status_ok (ch s) -> ~ blocked (ch s) n ->
  b = true /\ lk s = None /\
  exists s' w, sstep true sp s 0 = Some (s', mkLabel KWait (Some (ResW w))) /\ w <> WBlocked /\
    exists th', nth_error (thrs s') 0 = Some th' /\ tscript th' = rest.
Proof. intros sp c k scripts sched s th b n rest Hs E.
  exact (parked_writer_resumes sp s th b n rest (reachable_J sp c k scripts sched s Hs E)). Qed.
Print Assumptions C03_parked_writer_resumes.

(* Refusal: once writes are refused the writer is neither asleep un-notified nor between its check and its
   sleep, and no request is blocked -- whatever the order of the refusal and the writer's check-then-sleep. *)
Theorem C03_refusal_returns : forall sp c k scripts sched s th,
  scripts_ok (joins (init c) k) scripts -> srun true sp (sinit c k scripts) sched = Some s ->
  nth_error (thrs s) 0 = Some th -> accepting (ch s) = false -> status_ok (ch s) ->
  tpc th <> PPrewait /\ tpc th <> PParked false /\ lk s = None /\ forall n, ~ blocked (ch s) n.
Proof. intros sp c k scripts sched s th Hs E Hn Ha Hok.
  destruct (refused_not_asleep s th (reachable_J sp c k scripts sched s Hs E) Hn Ha Hok) as (A & B & C).
  repeat split; auto. intros n. apply refused_not_blocked. exact Ha. Qed.
Print Assumptions C03_refusal_returns.

(* The channel lock is only ever held across scheduling points by the writer at its pre-wait point, and that
   step is always enabled and releases it: no thread waits for the lock forever. *)
Theorem C03_lock_released : forall sp c k scripts sched s t,
  scripts_ok (joins (init c) k) scripts -> srun true sp (sinit c k scripts) sched = Some s ->
  lk s = Some t ->
  t = 0%nat /\ exists s' l, sstep true sp s 0 = Some (s', l) /\ lk s' = None.
Proof. intros sp c k scripts sched s t Hs E Hl.
  destruct (lock_only_at_prewait s t (reachable_J sp c k scripts sched s Hs E) Hl) as (-> & th & n & rest & Hn & Hp & _).
  split; auto. exact (prewait_releases sp s th Hn Hp). Qed.
Print Assumptions C03_lock_released.

(* A request below the capacity can only wait on readers, never on itself: with every reader drained it fits. *)
Theorem C03_space_eventually : forall c n,
  0 <= n < cap c -> (forall r, In r (rds c) -> hpos r = head c /\ hcyc r = cyc c) -> ~ blocked c n.
Proof. exact space_when_drained. Qed.
Print Assumptions C03_space_eventually.

(* Readers reach the drained state in a bounded number of calls: from ANY reachable channel state, with no commit
   in between, two rounds of (map; unmap everything) leave the reader's cursor at the end of the log and the
   third read is empty. *)
Theorem C03_drain_bound : forall c ops g i r,
  0 < c -> grun (ginit c) ops = Some g -> nth_error (rds (cs g)) i = Some r -> rmapped r = false ->
  let g2 := round (round g i) i in
  exists r2, nth_error (rds (cs g2)) i = Some r2 /\ idx g2 r2 = loglen g2 /\ loglen g2 = loglen g /\
    forall g3 rr, gstep g2 (OReadMap i) = (g3, ResR rr) -> rlen rr = 0.
Proof. intros c ops g i r Hc E. exact (drained_after_two_rounds g i r (reachable_inv c ops g Hc E)). Qed.
Print Assumptions C03_drain_bound.

(* ---- the lock in channel_accept_writes is necessary: with the former code (flag written and notified without
   the lock) this 11-step schedule leaves the writer asleep, un-notified, although writes are refused (D2) ---- *)
Definition d2_scripts : list (list op) := [[OWriteMap 3; OCommit; OWriteMap 3; OCommit]; [OAccept false]].
Definition d2_sched : list nat := [0; 0; 0; 0; 0; 0; 0; 1; 1; 1; 0]%nat.

Example C03_no_lost_wakeup_refuted_without_lock :
  match srun false false (sinit 4 1 d2_scripts) d2_sched with
  | Some s => accepting (ch s) = false /\
              (exists th, nth_error (thrs s) 0 = Some th /\ tpc th = PParked false) /\
              forallb (fun t => negb (enabledb false false s t)) [0; 1]%nat = true
  | None => False
  end.
Proof. vm_compute. split; [reflexivity|]. split; [eexists; split; reflexivity|reflexivity]. Qed.

(* the same schedule prefix under the current code: the controller cannot pass the lock while the writer is
   between check and sleep; afterwards the writer is woken and returns NULL *)
Example ex_d2_fixed :
  match srun true false (sinit 4 1 d2_scripts) [0; 0; 0; 0; 0; 0; 0; 1; 1; 0; 1; 0]%nat with
  | Some s => accepting (ch s) = false /\
              exists th, nth_error (thrs s) 0 = Some th /\ tpc th = PStart /\ tscript th = [OCommit]
  | None => False
  end.
Proof. vm_compute. split; [reflexivity|]. eexists. repeat split. Qed.

(* non-vacuity of the hypotheses: a reachable state with the writer parked un-notified and a true wait condition *)
Example ex_parked : 
  match srun true false (sinit 4 1 d2_scripts) [0; 0; 0; 0; 0; 0; 0; 0]%nat with
  | Some s => exists th, nth_error (thrs s) 0 = Some th /\ tpc th = PParked false /\
                snd (write_map (ch s) 3) = WBlocked
  | None => False
  end.
Proof. vm_compute. eexists. repeat split. Qed.

Example ex_scripts_ok : scripts_ok (joins (init 4) 1) d2_scripts.
Proof. intros t sc Ht Hn. destruct t as [|[|[|t]]]; simpl in Hn; try congruence; try discriminate.
  inversion Hn; subst. repeat constructor. Qed.
