From Ring Require Import ChanModel ChanSync.
