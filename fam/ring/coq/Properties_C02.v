(* Properties_C02.v -- C02: the writer is never given memory a reader still holds or has not consumed;
   a reader's slice lies inside committed data and is not modified until that reader unmaps it. *)
From Coq Require Import ZArith List Bool Lia.
From Ring Require Import ChanModel ChanGhost ChanInv ChanLog ChanStream ChanTheorems.
Import ListNotations.
Local Open Scope Z_scope.

(* The region handed out is contiguous [beg, beg+n), inside the buffer, and is exactly [head, mapped). *)
Theorem C02_region_inside : forall c ops g n g' beg,
  0 < c -> grun (ginit c) ops = Some g -> wf_op g (OWriteMap n) ->
  gstep g (OWriteMap n) = (g', ResW (WRegion beg)) ->
  pend g' = true /\ head (cs g') = beg /\ mapped (cs g') = beg + n /\ 0 <= beg /\ beg + n <= cap (cs g') /\
  cap (cs g') = cap (cs g).
Proof. intros c ops g n g' beg Hc E. exact (write_map_region g n g' beg (reachable_inv c ops g Hc E)). Qed.
Print Assumptions C02_region_inside.

(* In EVERY reachable state in which a write is mapped -- at the moment of mapping and for as long as it stays
   mapped, whatever readers do or join meanwhile -- no offset of the region holds a byte some reader has not
   consumed (mapped slices included: they are unread until unmapped).  Covers the exactly-full and the
   exactly-empty-at-wrap instants: they are ordinary reachable states. *)
Theorem C02_region_disjoint : forall c ops g r o,
  0 < c -> grun (ginit c) ops = Some g -> pend g = true -> In r (rds (cs g)) ->
  head (cs g) <= o < mapped (cs g) -> ~ unread g r o.
Proof. intros c ops g r o Hc E. exact (region_disjoint g r o (reachable_inv c ops g Hc E)). Qed.
Print Assumptions C02_region_disjoint.

(* A mapped slice lies inside the buffer, every byte of it is committed data (Some log index, consecutive),
   and it counts as unread. *)
Theorem C02_slice_committed : forall c ops g r,
  0 < c -> grun (ginit c) ops = Some g -> In r (rds (cs g)) -> rmapped r = true ->
  0 <= hpos r /\ hpos r + avail r (high (cs g)) <= cap (cs g) /\
  forall j, 0 <= j < avail r (high (cs g)) ->
    unread g r (hpos r + j) /\ cell g (hpos r + j) = Some (idx g r + j).
Proof. intros c ops g r Hc E. exact (slice_committed g r (reachable_inv c ops g Hc E)). Qed.
Print Assumptions C02_slice_committed.

(* No operation of anybody changes a ring cell that some reader has not consumed. *)
Theorem C02_unread_stable : forall c ops g o r x,
  0 < c -> grun (ginit c) ops = Some g -> wf_op g o -> In r (rds (cs g)) -> unread g r x ->
  cell (fst (gstep g o)) x = cell g x.
Proof. intros c ops g o r x Hc E. exact (unread_stable g o r x (reachable_inv c ops g Hc E)). Qed.
Print Assumptions C02_unread_stable.

(* Between a map and the matching unmap -- over any operations of the writer and of the other readers, of any
   length -- the reader stays mapped on the same slice and no byte of it changes. *)
Theorem C02_slice_stable : forall c ops1 ops2 g1 g2 i r,
  0 < c -> grun (ginit c) ops1 = Some g1 -> grun g1 ops2 = Some g2 -> Forall (not_by i) ops2 ->
  nth_error (rds (cs g1)) i = Some r -> rmapped r = true ->
  exists r', nth_error (rds (cs g2)) i = Some r' /\ rmapped r' = true /\ hpos r' = hpos r /\
    avail r' (high (cs g2)) = avail r (high (cs g1)) /\
    forall j, 0 <= j < avail r (high (cs g1)) -> cell g2 (hpos r + j) = cell g1 (hpos r + j).
Proof. intros c ops1 ops2 g1 g2 i r Hc E1 E2.
  exact (slice_stable ops2 g1 g2 i r (reachable_inv c ops1 g1 Hc E1) E2). Qed.
Print Assumptions C02_slice_stable.

(* ---- non-vacuity: exactly-full ring with a mapped write next to a reader's unread data ---- *)
Example ex_full : exists g, grun (ginit 6) [OReadMap 0%nat; OWriteMap 4; OCommit; OReadMap 0%nat; OReadUnmap 0%nat 2;
                                         OWriteMap 2; OCommit; OWriteMap 2] = Some g /\
  pend g = true /\ head (cs g) = 0 /\ mapped (cs g) = 2 /\ cyc (cs g) = 1 /\
  exists r, nth_error (rds (cs g)) 0 = Some r /\ hpos r = 2 /\ hcyc r = 0.
Proof. eexists. split; [vm_compute; reflexivity|]. vm_compute. repeat split. eexists. repeat split. Qed.

(* the same state refuses (blocks) one more byte: the buffer is exactly full *)
Example ex_full_blocks :
  match grun (ginit 6) [OReadMap 0%nat; OWriteMap 4; OCommit; OReadMap 0%nat; OReadUnmap 0%nat 2;
                        OWriteMap 2; OCommit; OWriteMap 2; OCommit] with
  | Some g => snd (gstep g (OWriteMap 1)) = ResW WBlocked
  | None => False
  end.
Proof. vm_compute. reflexivity. Qed.
