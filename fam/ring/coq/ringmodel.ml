
(** val negb : bool -> bool **)

let negb = function
| true -> false
| false -> true

type nat =
| O
| S of nat

(** val length : 'a1 list -> nat **)

let rec length = function
| [] -> O
| _ :: l' -> S (length l')

(** val app : 'a1 list -> 'a1 list -> 'a1 list **)

let rec app l m =
  match l with
  | [] -> m
  | a :: l1 -> a :: (app l1 m)

type comparison =
| Eq
| Lt
| Gt

(** val compOpp : comparison -> comparison **)

let compOpp = function
| Eq -> Eq
| Lt -> Gt
| Gt -> Lt

type positive =
| XI of positive
| XO of positive
| XH

type z =
| Z0
| Zpos of positive
| Zneg of positive

module Nat =
 struct
  (** val eqb : nat -> nat -> bool **)

  let rec eqb n m =
    match n with
    | O -> (match m with
            | O -> true
            | S _ -> false)
    | S n' -> (match m with
               | O -> false
               | S m' -> eqb n' m')

  (** val leb : nat -> nat -> bool **)

  let rec leb n m =
    match n with
    | O -> true
    | S n' -> (match m with
               | O -> false
               | S m' -> leb n' m')

  (** val ltb : nat -> nat -> bool **)

  let ltb n m =
    leb (S n) m
 end

module Pos =
 struct
  (** val succ : positive -> positive **)

  let rec succ = function
  | XI p -> XO (succ p)
  | XO p -> XI p
  | XH -> XO XH

  (** val add : positive -> positive -> positive **)

  let rec add x y =
    match x with
    | XI p ->
      (match y with
       | XI q -> XO (add_carry p q)
       | XO q -> XI (add p q)
       | XH -> XO (succ p))
    | XO p ->
      (match y with
       | XI q -> XI (add p q)
       | XO q -> XO (add p q)
       | XH -> XI p)
    | XH -> (match y with
             | XI q -> XO (succ q)
             | XO q -> XI q
             | XH -> XO XH)

  (** val add_carry : positive -> positive -> positive **)

  and add_carry x y =
    match x with
    | XI p ->
      (match y with
       | XI q -> XI (add_carry p q)
       | XO q -> XO (add_carry p q)
       | XH -> XI (succ p))
    | XO p ->
      (match y with
       | XI q -> XO (add_carry p q)
       | XO q -> XI (add p q)
       | XH -> XO (succ p))
    | XH ->
      (match y with
       | XI q -> XI (succ q)
       | XO q -> XO (succ q)
       | XH -> XI XH)

  (** val pred_double : positive -> positive **)

  let rec pred_double = function
  | XI p -> XI (XO p)
  | XO p -> XI (pred_double p)
  | XH -> XH

  (** val compare_cont : comparison -> positive -> positive -> comparison **)

  let rec compare_cont r x y =
    match x with
    | XI p ->
      (match y with
       | XI q -> compare_cont r p q
       | XO q -> compare_cont Gt p q
       | XH -> Gt)
    | XO p ->
      (match y with
       | XI q -> compare_cont Lt p q
       | XO q -> compare_cont r p q
       | XH -> Gt)
    | XH -> (match y with
             | XH -> r
             | _ -> Lt)

  (** val compare : positive -> positive -> comparison **)

  let compare =
    compare_cont Eq

  (** val eqb : positive -> positive -> bool **)

  let rec eqb p q =
    match p with
    | XI p0 -> (match q with
                | XI q0 -> eqb p0 q0
                | _ -> false)
    | XO p0 -> (match q with
                | XO q0 -> eqb p0 q0
                | _ -> false)
    | XH -> (match q with
             | XH -> true
             | _ -> false)
 end

module Z =
 struct
  (** val double : z -> z **)

  let double = function
  | Z0 -> Z0
  | Zpos p -> Zpos (XO p)
  | Zneg p -> Zneg (XO p)

  (** val succ_double : z -> z **)

  let succ_double = function
  | Z0 -> Zpos XH
  | Zpos p -> Zpos (XI p)
  | Zneg p -> Zneg (Pos.pred_double p)

  (** val pred_double : z -> z **)

  let pred_double = function
  | Z0 -> Zneg XH
  | Zpos p -> Zpos (Pos.pred_double p)
  | Zneg p -> Zneg (XI p)

  (** val pos_sub : positive -> positive -> z **)

  let rec pos_sub x y =
    match x with
    | XI p ->
      (match y with
       | XI q -> double (pos_sub p q)
       | XO q -> succ_double (pos_sub p q)
       | XH -> Zpos (XO p))
    | XO p ->
      (match y with
       | XI q -> pred_double (pos_sub p q)
       | XO q -> double (pos_sub p q)
       | XH -> Zpos (Pos.pred_double p))
    | XH ->
      (match y with
       | XI q -> Zneg (XO q)
       | XO q -> Zneg (Pos.pred_double q)
       | XH -> Z0)

  (** val add : z -> z -> z **)

  let add x y =
    match x with
    | Z0 -> y
    | Zpos x' ->
      (match y with
       | Z0 -> x
       | Zpos y' -> Zpos (Pos.add x' y')
       | Zneg y' -> pos_sub x' y')
    | Zneg x' ->
      (match y with
       | Z0 -> x
       | Zpos y' -> pos_sub y' x'
       | Zneg y' -> Zneg (Pos.add x' y'))

  (** val opp : z -> z **)

  let opp = function
  | Z0 -> Z0
  | Zpos x0 -> Zneg x0
  | Zneg x0 -> Zpos x0

  (** val sub : z -> z -> z **)

  let sub m n =
    add m (opp n)

  (** val compare : z -> z -> comparison **)

  let compare x y =
    match x with
    | Z0 -> (match y with
             | Z0 -> Eq
             | Zpos _ -> Lt
             | Zneg _ -> Gt)
    | Zpos x' -> (match y with
                  | Zpos y' -> Pos.compare x' y'
                  | _ -> Gt)
    | Zneg x' ->
      (match y with
       | Zneg y' -> compOpp (Pos.compare x' y')
       | _ -> Lt)

  (** val leb : z -> z -> bool **)

  let leb x y =
    match compare x y with
    | Gt -> false
    | _ -> true

  (** val ltb : z -> z -> bool **)

  let ltb x y =
    match compare x y with
    | Lt -> true
    | _ -> false

  (** val eqb : z -> z -> bool **)

  let eqb x y =
    match x with
    | Z0 -> (match y with
             | Z0 -> true
             | _ -> false)
    | Zpos p -> (match y with
                 | Zpos q -> Pos.eqb p q
                 | _ -> false)
    | Zneg p -> (match y with
                 | Zneg q -> Pos.eqb p q
                 | _ -> false)

  (** val min : z -> z -> z **)

  let min n m =
    match compare n m with
    | Gt -> m
    | _ -> n
 end

(** val nth_error : 'a1 list -> nat -> 'a1 option **)

let rec nth_error l = function
| O -> (match l with
        | [] -> None
        | x :: _ -> Some x)
| S n0 -> (match l with
           | [] -> None
           | _ :: l0 -> nth_error l0 n0)

(** val map : ('a1 -> 'a2) -> 'a1 list -> 'a2 list **)

let rec map f = function
| [] -> []
| a :: t -> (f a) :: (map f t)

type rd = { hpos : z; hcyc : z; rpos : z; rcyc : z; rmapped : bool;
            rstatus : z }

type chan = { cap : z; head : z; high : z; cyc : z; mapped : z;
              accepting : bool; rds : rd list }

(** val init : z -> chan **)

let init capacity =
  { cap = capacity; head = Z0; high = Z0; cyc = Z0; mapped = Z0; accepting =
    true; rds = [] }

(** val cursor_cmp : z -> z -> z -> z -> z **)

let cursor_cmp ca pa cb pb =
  if Z.ltb ca cb
  then Zneg XH
  else if Z.ltb cb ca
       then Zpos XH
       else if Z.ltb pa pb
            then Zneg XH
            else if Z.ltb pb pa then Zpos XH else Z0

(** val reader_min : rd -> rd list -> rd **)

let rec reader_min mn = function
| [] -> mn
| r :: l' ->
  if Z.eqb (cursor_cmp mn.hcyc mn.hpos r.hcyc r.hpos) (Zpos XH)
  then reader_min r l'
  else reader_min mn l'

type nw =
| NwNo
| NwAt of z * bool

(** val next_write : chan -> z -> nw **)

let next_write s n =
  if negb s.accepting
  then NwNo
  else (match s.rds with
        | [] -> NwNo
        | r0 :: rest ->
          let m = reader_min r0 rest in
          let tail = m.hpos in
          if Z.ltb s.head tail
          then if Z.leb n (Z.sub tail s.head)
               then NwAt (s.head, false)
               else NwNo
          else if (&&) (Z.eqb tail s.head)
                    (Z.eqb s.cyc (Z.add m.hcyc (Zpos XH)))
               then NwNo
               else if Z.leb n (Z.sub s.cap s.head)
                    then NwAt (s.head, false)
                    else if Z.leb n tail
                         then NwAt (Z0, false)
                         else if Z.eqb tail s.head
                              then if Z.ltb n s.cap
                                   then NwAt (Z0, true)
                                   else NwNo
                              else NwNo)

(** val set_head_mapped : chan -> z -> z -> chan **)

let set_head_mapped s h m =
  { cap = s.cap; head = h; high = s.high; cyc = s.cyc; mapped = m;
    accepting = s.accepting; rds = s.rds }

(** val wrap_to : chan -> z -> chan **)

let wrap_to s beg =
  { cap = s.cap; head = beg; high = s.head; cyc = (Z.add s.cyc (Zpos XH));
    mapped = s.mapped; accepting = s.accepting; rds = s.rds }

(** val reset_holds : chan -> chan **)

let reset_holds s =
  { cap = s.cap; head = s.head; high = s.high; cyc = s.cyc; mapped =
    s.mapped; accepting = s.accepting; rds =
    (map (fun r -> { hpos = Z0; hcyc = s.cyc; rpos = r.rpos; rcyc = r.rcyc;
      rmapped = r.rmapped; rstatus = r.rstatus }) s.rds) }

(** val set_mapped : chan -> z -> chan **)

let set_mapped s m =
  { cap = s.cap; head = s.head; high = s.high; cyc = s.cyc; mapped = m;
    accepting = s.accepting; rds = s.rds }

type wres =
| WTooBig
| WRefused
| WBlocked
| WRegion of z

(** val write_map : chan -> z -> chan * wres **)

let write_map s n =
  if Z.leb s.cap n
  then (s, WTooBig)
  else (match s.rds with
        | [] ->
          if Z.leb s.cap (Z.add s.head n)
          then ((set_mapped (wrap_to s Z0) n), (WRegion Z0))
          else ((set_mapped s (Z.add s.head n)), (WRegion s.head))
        | _ :: _ ->
          if negb s.accepting
          then (s, WRefused)
          else (match next_write s n with
                | NwNo -> (s, WBlocked)
                | NwAt (beg, wrap) ->
                  let s1 = if Z.eqb beg s.head then s else wrap_to s beg in
                  let s2 = if wrap then reset_holds s1 else s1 in
                  ((set_mapped s2 (Z.add beg n)), (WRegion beg))))

(** val write_unmap : chan -> chan **)

let write_unmap s =
  if s.accepting then set_head_mapped s s.mapped s.mapped else s

(** val abort_write : chan -> chan **)

let abort_write s =
  if s.accepting then set_mapped s s.head else s

(** val accept_writes : chan -> bool -> chan **)

let accept_writes s b =
  { cap = s.cap; head = s.head; high = s.high; cyc = s.cyc; mapped =
    s.mapped; accepting = b; rds = s.rds }

(** val upd : rd list -> nat -> (rd -> rd) -> rd list **)

let rec upd l i f =
  match l with
  | [] -> []
  | r :: l' -> (match i with
                | O -> (f r) :: l'
                | S i' -> r :: (upd l' i' f))

(** val set_rds : chan -> rd list -> chan **)

let set_rds s l =
  { cap = s.cap; head = s.head; high = s.high; cyc = s.cyc; mapped =
    s.mapped; accepting = s.accepting; rds = l }

(** val set_hold : z -> z -> rd -> rd **)

let set_hold p c r =
  { hpos = p; hcyc = c; rpos = r.rpos; rcyc = r.rcyc; rmapped = r.rmapped;
    rstatus = r.rstatus }

(** val set_target : z -> z -> bool -> rd -> rd **)

let set_target p c m r =
  { hpos = r.hpos; hcyc = r.hcyc; rpos = p; rcyc = c; rmapped = m; rstatus =
    r.rstatus }

(** val set_status : z -> rd -> rd **)

let set_status st r =
  { hpos = r.hpos; hcyc = r.hcyc; rpos = r.rpos; rcyc = r.rcyc; rmapped =
    r.rmapped; rstatus = st }

(** val set_unmapped : rd -> rd **)

let set_unmapped r =
  { hpos = r.hpos; hcyc = r.hcyc; rpos = r.rpos; rcyc = r.rcyc; rmapped =
    false; rstatus = r.rstatus }

type rres = { roff : z; rlen : z; rnotified : bool }

(** val join : chan -> chan **)

let join s =
  set_rds s
    (app s.rds ({ hpos = Z0; hcyc = s.cyc; rpos = Z0; rcyc = Z0; rmapped =
      false; rstatus = Z0 } :: []))

(** val read_map : chan -> nat -> chan * rres **)

let read_map s0 i =
  let s = if Nat.eqb i (length s0.rds) then join s0 else s0 in
  (match nth_error s.rds i with
   | Some r ->
     if r.rmapped
     then ((set_rds s
             (upd s.rds i (fun r0 ->
               set_status (Zpos (XO XH)) (set_hold s.head s.cyc r0)))),
            { roff = Z0; rlen = Z0; rnotified = false })
     else if (&&) (Z.eqb r.hpos s.head) (Z.eqb r.hcyc s.cyc)
          then (s, { roff = r.hpos; rlen = Z0; rnotified = false })
          else if Z.ltb r.hpos s.head
               then if negb (Z.eqb r.hcyc s.cyc)
                    then ((set_rds s
                            (upd s.rds i (fun r0 ->
                              set_status (Zpos XH) (set_hold s.head s.cyc r0)))),
                           { roff = Z0; rlen = Z0; rnotified = false })
                    else ((set_rds s
                            (upd s.rds i (set_target s.head s.cyc true))),
                           { roff = r.hpos; rlen = (Z.sub s.head r.hpos);
                           rnotified = false })
               else if negb (Z.eqb s.cyc (Z.add r.hcyc (Zpos XH)))
                    then ((set_rds s
                            (upd s.rds i (fun r0 ->
                              set_status (Zpos XH) (set_hold s.head s.cyc r0)))),
                           { roff = Z0; rlen = Z0; rnotified = false })
                    else if Z.eqb (Z.sub s.high r.hpos) Z0
                         then if Z.ltb Z0 s.head
                              then ((set_rds s
                                      (upd s.rds i (fun r0 ->
                                        set_target s.head s.cyc true
                                          (set_hold Z0 s.cyc r0)))), { roff =
                                     Z0; rlen = s.head; rnotified = true })
                              else ((set_rds s
                                      (upd s.rds i (fun r0 ->
                                        set_target Z0
                                          (Z.add r0.hcyc (Zpos XH)) false
                                          (set_hold Z0 s.cyc r0)))), { roff =
                                     Z0; rlen = Z0; rnotified = true })
                         else ((set_rds s
                                 (upd s.rds i
                                   (set_target Z0 (Z.add r.hcyc (Zpos XH))
                                     true))), { roff = r.hpos; rlen =
                                (Z.sub s.high r.hpos); rnotified = false })
   | None -> (s, { roff = Z0; rlen = Z0; rnotified = false }))

(** val avail : rd -> z -> z **)

let avail r hi =
  if (&&) (Z.eqb r.rpos r.hpos) (Z.eqb r.rcyc r.hcyc)
  then Z0
  else if Z.eqb r.rpos Z0 then Z.sub hi r.hpos else Z.sub r.rpos r.hpos

(** val read_unmap : chan -> nat -> z -> chan * bool **)

let read_unmap s i k =
  match nth_error s.rds i with
  | Some r ->
    if negb r.rmapped
    then (s, false)
    else let len = avail r s.high in
         let c = Z.min len k in
         let r1 =
           if Z.leb len c
           then set_hold r.rpos r.rcyc r
           else set_hold (Z.add r.hpos c) r.hcyc r
         in
         let r2 =
           if (&&) (Z.ltb s.head r1.hpos) (Z.eqb r1.hpos s.high)
           then set_hold Z0 (Z.add r1.hcyc (Zpos XH)) r1
           else r1
         in
         ((set_rds s (upd s.rds i (fun _ -> set_unmapped r2))), true)
  | None -> (s, false)

type op =
| OWriteMap of z
| OCommit
| OAbort
| OAccept of bool
| OReadMap of nat
| OReadUnmap of nat * z

type res =
| ResW of wres
| ResUnit of bool
| ResR of rres

(** val step : chan -> op -> chan * res **)

let step s = function
| OWriteMap n -> let (s', w) = write_map s n in (s', (ResW w))
| OCommit -> ((write_unmap s), (ResUnit false))
| OAbort -> ((abort_write s), (ResUnit false))
| OAccept b -> ((accept_writes s b), (ResUnit true))
| OReadMap i -> let (s', r) = read_map s i in (s', (ResR r))
| OReadUnmap (i, k) -> let (s', nt) = read_unmap s i k in (s', (ResUnit nt))

type gst = { cs : chan; pend : bool; loglen : z; cell : (z -> z option);
             bounds : z list }

(** val ginit : z -> gst **)

let ginit capacity =
  { cs = (init capacity); pend = false; loglen = Z0; cell = (fun _ -> None);
    bounds = (Z0 :: []) }

(** val fill :
    (z -> z option) -> z -> z -> (z -> z option) -> z -> z option **)

let fill f beg n v o =
  if (&&) (Z.leb beg o) (Z.ltb o (Z.add beg n)) then v o else f o

(** val gstep : gst -> op -> gst * res **)

let gstep g o =
  let (s', r) = step g.cs o in
  (match o with
   | OWriteMap n ->
     (match r with
      | ResW w ->
        (match w with
         | WRegion beg ->
           ({ cs = s'; pend = true; loglen = g.loglen; cell =
             (fill g.cell beg n (fun _ -> None)); bounds = g.bounds }, r)
         | _ ->
           ({ cs = s'; pend = g.pend; loglen = g.loglen; cell = g.cell;
             bounds = g.bounds }, r))
      | _ ->
        ({ cs = s'; pend = g.pend; loglen = g.loglen; cell = g.cell; bounds =
          g.bounds }, r))
   | OCommit ->
     if (&&) g.pend g.cs.accepting
     then let beg = g.cs.head in
          let n = Z.sub g.cs.mapped beg in
          ({ cs = s'; pend = false; loglen = (Z.add g.loglen n); cell =
          (fill g.cell beg n (fun o0 -> Some (Z.add g.loglen (Z.sub o0 beg))));
          bounds = ((Z.add g.loglen n) :: g.bounds) }, r)
     else ({ cs = s'; pend = false; loglen = g.loglen; cell = g.cell;
            bounds = g.bounds }, r)
   | OAbort ->
     ({ cs = s'; pend = false; loglen = g.loglen; cell = g.cell; bounds =
       g.bounds }, r)
   | _ ->
     ({ cs = s'; pend = g.pend; loglen = g.loglen; cell = g.cell; bounds =
       g.bounds }, r))

(** val wf_opb : gst -> op -> bool **)

let wf_opb g = function
| OWriteMap n -> (&&) (negb g.pend) (Z.leb Z0 n)
| OAccept _ -> true
| OReadMap i ->
  (&&)
    ((&&) (Nat.leb i (length g.cs.rds))
      (Nat.ltb i (S (S (S (S (S (S (S (S O))))))))))
    (match nth_error g.cs.rds i with
     | Some r -> negb r.rmapped
     | None -> true)
| OReadUnmap (_, k) -> Z.leb Z0 k
| _ -> g.pend

(** val idx : gst -> rd -> z **)

let idx g r =
  if Z.eqb r.hcyc g.cs.cyc
  then Z.add (Z.sub g.loglen g.cs.head) r.hpos
  else Z.add (Z.sub (Z.sub g.loglen g.cs.head) g.cs.high) r.hpos
