(* ChanSync.v -- the blocking protocol of channel.c as an interleaving system (DESIGN 5.2, 6.3, Appendix A).
   One transition = one block of code between two scheduling points of the deterministic scheduler
   (harness/vplatform): "op" (the harness' point before every operation), lock_acquire, entry of
   condition_variable_wait (lock still held), the wait itself, thread exit.  The channel state and every
   critical section are ChanModel's; this file adds the lock, the parking and the notifications.
   [accept_locked] selects channel_accept_writes as it is now (flag written under the lock) or as it was
   (flag written and notified without the lock). *)
From Coq Require Import ZArith List Bool.
From Ring Require Import ChanModel.
Import ListNotations.
Local Open Scope Z_scope.

Inductive pc :=
| PInit                       (* created, not yet run *)
| PStart                      (* at the harness' point before the next operation *)
| PLock                       (* at lock_acquire of the next operation *)
| PPrewait                    (* inside channel_write_map, holding the lock, about to wait *)
| PParked (notified : bool)   (* waiting on notify_space_available, lock released *)
| PExit
| PDone.

Record thr := mkThr { tpc : pc; tscript : list op }.
Record sys := mkSys { ch : chan; lk : option nat; thrs : list thr }.

Inductive kind := KCreate | KDev | KLock | KPrewait | KWait | KExit.
Record label := mkLabel { lkind : kind; lres : option res }.

Definition notifies (r : res) : bool :=
  match r with
  | ResUnit nt => nt
  | ResR rr => rnotified rr
  | ResW _ => false
  end.

Definition wake (t : thr) : thr :=
  match tpc t with PParked _ => mkThr (PParked true) (tscript t) | _ => t end.

Fixpoint set_thr (l : list thr) (i : nat) (x : thr) : list thr :=
  match l, i with
  | [], _ => []
  | _ :: l', O => x :: l'
  | a :: l', S i' => a :: set_thr l' i' x
  end.

Definition next_pc (rest : list op) : pc := match rest with [] => PExit | _ => PStart end.

(* the running thread finishes its current operation with result r *)
Definition complete (s : sys) (t : nat) (c' : chan) (rest : list op) (r : res) : sys :=
  let l := set_thr (thrs s) t (mkThr (next_pc rest) rest) in
  mkSys c' None (if notifies r then map wake l else l).

Definition reader_mapped (c : chan) (i : nat) : bool :=
  match nth_error (rds c) i with Some r => rmapped r | None => false end.

(* evaluate the loop of channel_write_map inside the critical section *)
Definition try_write (s : sys) (t : nat) (n : Z) (rest : list op) : sys * label :=
  let (c', w) := write_map (ch s) n in
  match w with
  | WBlocked => (mkSys (ch s) (Some t) (set_thr (thrs s) t (mkThr PPrewait (OWriteMap n :: rest))),
                 mkLabel KLock None)
  | _ => (complete s t c' rest (ResW w), mkLabel KLock (Some (ResW w)))
  end.

Definition relabel (k : kind) (x : sys * label) : sys * label := (fst x, mkLabel k (lres (snd x))).

Definition sstep (accept_locked spurious : bool) (s : sys) (t : nat) : option (sys * label) :=
  match nth_error (thrs s) t with
  | None => None
  | Some th =>
    match tpc th, tscript th with
    | PInit, sc => Some (mkSys (ch s) (lk s) (set_thr (thrs s) t (mkThr (next_pc sc) sc)), mkLabel KCreate None)
    | PStart, o :: rest =>
        match o with
        | OWriteMap n =>
            if cap (ch s) <=? n
            then Some (mkSys (ch s) (lk s) (set_thr (thrs s) t (mkThr (next_pc rest) rest)), mkLabel KDev (Some (ResW WTooBig)))
            else Some (mkSys (ch s) (lk s) (set_thr (thrs s) t (mkThr PLock (o :: rest))), mkLabel KDev None)
        | OReadUnmap i k =>
            if reader_mapped (ch s) i
            then Some (mkSys (ch s) (lk s) (set_thr (thrs s) t (mkThr PLock (o :: rest))), mkLabel KDev None)
            else Some (mkSys (ch s) (lk s) (set_thr (thrs s) t (mkThr (next_pc rest) rest)), mkLabel KDev (Some (ResUnit false)))
        | OAccept b =>
            if accept_locked
            then Some (mkSys (ch s) (lk s) (set_thr (thrs s) t (mkThr PLock (o :: rest))), mkLabel KDev None)
            else (* the former code: flag and notification without the lock *)
              let l := set_thr (thrs s) t (mkThr (next_pc rest) rest) in
              Some (mkSys (accept_writes (ch s) b) (lk s) (map wake l), mkLabel KDev (Some (ResUnit true)))
        | _ => Some (mkSys (ch s) (lk s) (set_thr (thrs s) t (mkThr PLock (o :: rest))), mkLabel KDev None)
        end
    | PLock, o :: rest =>
        match lk s with
        | Some _ => None
        | None =>
            match o with
            | OWriteMap n => Some (try_write s t n rest)
            | _ => let (c', r) := step (ch s) o in Some (complete s t c' rest r, mkLabel KLock (Some r))
            end
        end
    | PPrewait, sc =>
        Some (mkSys (ch s) None (set_thr (thrs s) t (mkThr (PParked false) sc)), mkLabel KPrewait None)
    | PParked b, OWriteMap n :: rest =>
        match lk s with
        | Some _ => None
        | None => if b || spurious then Some (relabel KWait (try_write s t n rest)) else None
        end
    | PExit, sc => Some (mkSys (ch s) (lk s) (set_thr (thrs s) t (mkThr PDone sc)), mkLabel KExit None)
    | _, _ => None
    end
  end.

(* run a schedule (list of thread choices); None as soon as a chosen thread is not enabled *)
Fixpoint srun (al sp : bool) (s : sys) (sched : list nat) : option sys :=
  match sched with
  | [] => Some s
  | t :: sched' => match sstep al sp s t with Some (s', _) => srun al sp s' sched' | None => None end
  end.

Fixpoint srun_labels (al sp : bool) (s : sys) (sched : list nat) : list (option label) * sys :=
  match sched with
  | [] => ([], s)
  | t :: sched' =>
      match sstep al sp s t with
      | Some (s', l) => let (ls, s'') := srun_labels al sp s' sched' in (Some l :: ls, s'')
      | None => ([None], s)
      end
  end.

Fixpoint joins (c : chan) (k : nat) : chan :=
  match k with O => c | S k' => joins (fst (read_map c (length (rds c)))) k' end.

Definition sinit (capacity : Z) (nreaders : nat) (scripts : list (list op)) : sys :=
  mkSys (joins (init capacity) nreaders) None (map (mkThr PInit) scripts).

Definition enabledb (al sp : bool) (s : sys) (t : nat) : bool :=
  match sstep al sp s t with Some _ => true | None => false end.

Definition all_done (s : sys) : bool :=
  forallb (fun th => match tpc th with PDone => true | _ => false end) (thrs s).
