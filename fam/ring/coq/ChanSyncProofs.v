(* ChanSyncProofs.v -- no lost wake-up and bounded progress for the blocking protocol (C03).
   Thread 0 is the writer; every other thread only reads (registered readers) or toggles accept. *)
From Coq Require Import ZArith List Bool Lia.
From Ring Require Import ChanModel ChanGhost ChanInv ChanSync.
Import ListNotations.
Local Open Scope Z_scope.

Definition blocked (c : chan) (n : Z) : Prop := snd (write_map c n) = WBlocked.
Definition status_ok (c : chan) : Prop := forall r, In r (rds c) -> rstatus r = 0.

(* ------------------------------------------------------------------ what write_map's verdict depends on *)
Definition key (r : rd) : Z * Z := (hpos r, hcyc r).

Definition keq (c c' : chan) : Prop :=
  cap c' = cap c /\ head c' = head c /\ cyc c' = cyc c /\ accepting c' = accepting c /\
  map key (rds c') = map key (rds c) /\ map rstatus (rds c') = map rstatus (rds c).

Lemma keq_refl c : keq c c.
Proof. unfold keq; repeat split; reflexivity. Qed.

Lemma reader_min_key l : forall l' r0 r0',
  key r0 = key r0' -> map key l = map key l' -> key (reader_min r0 l) = key (reader_min r0' l').
Proof. induction l as [|a l IH]; intros [|a' l'] r0 r0' H0 Hl; simpl in Hl; try discriminate; simpl; auto.
  assert (Ha : key a = key a') by congruence.
  assert (Hl' : map key l = map key l') by congruence.
  assert (E : cursor_cmp (hcyc r0) (hpos r0) (hcyc a) (hpos a) = cursor_cmp (hcyc r0') (hpos r0') (hcyc a') (hpos a')).
  { unfold key in H0, Ha. congruence. }
  rewrite E. destruct (cursor_cmp (hcyc r0') (hpos r0') (hcyc a') (hpos a') =? 1); apply IH; auto. Qed.

Lemma next_write_keq c c' n : keq c c' -> next_write c' n = next_write c n.
Proof. intros (Hc & Hh & Hy & Ha & Hk & _). unfold next_write. rewrite Ha, Hh, Hc, Hy.
  destruct (rds c) as [|r0 rest] eqn:E; destruct (rds c') as [|r0' rest'] eqn:E'; simpl in Hk; try discriminate; auto.
  assert (H0 : key r0' = key r0) by congruence. assert (Hl : map key rest' = map key rest) by congruence.
  pose proof (reader_min_key rest' rest r0' r0 H0 Hl) as K. unfold key in K.
  assert (K1 : hpos (reader_min r0' rest') = hpos (reader_min r0 rest)) by congruence.
  assert (K2 : hcyc (reader_min r0' rest') = hcyc (reader_min r0 rest)) by congruence.
  rewrite K1, K2. reflexivity. Qed.

Lemma blocked_keq c c' n : keq c c' -> blocked c n -> blocked c' n.
Proof. intros K. pose proof (next_write_keq c c' n K) as NW. destruct K as (Hc & Hh & Hy & Ha & Hk & _).
  unfold blocked, write_map. rewrite Hc, Hh, Ha, NW.
  destruct (cap c <=? n); [simpl; auto|].
  destruct (rds c) as [|r0 rest] eqn:E; destruct (rds c') as [|r0' rest'] eqn:E'; simpl in Hk; try discriminate.
  - destruct (cap c <=? head c + n); simpl; auto.
  - destruct (negb (accepting c)); simpl; auto.
    destruct (next_write c n); simpl; auto. Qed.

Lemma status_ok_keq c c' : keq c c' -> status_ok c' -> status_ok c.
Proof. intros (_ & _ & _ & _ & _ & Hs) H r Hr. 
  assert (In (rstatus r) (map rstatus (rds c))) by (apply in_map; exact Hr).
  rewrite <- Hs in H0. apply in_map_iff in H0. destruct H0 as (r' & E & Hr'). rewrite <- E. apply H. exact Hr'. Qed.

Lemma blocked_accepting c n : blocked c n -> accepting c = true.
Proof. unfold blocked, write_map. destruct (cap c <=? n); [simpl; discriminate|].
  destruct (rds c).
  - destruct (cap c <=? head c + n); simpl; discriminate.
  - destruct (accepting c); simpl; auto. discriminate. Qed.

Lemma not_blocked_completes c n : ~ blocked c n -> snd (write_map c n) <> WBlocked.
Proof. auto. Qed.

(* ------------------------------------------------------------------ a read that does not notify cannot unblock *)
Lemma upd_map_same {A} (g : rd -> A) l i f : (forall r, g (f r) = g r) -> map g (upd l i f) = map g l.
Proof. intros H. revert i; induction l as [|a l IH]; intros [|i]; simpl; auto; rewrite ?H, ?IH; auto. Qed.

Lemma upd_in_status l i f r : nth_error l i = Some r -> In (f r) (upd l i f).
Proof. revert i; induction l as [|a l IH]; intros [|i]; simpl; intros H; try discriminate.
  - inversion H; auto.
  - right; apply IH; auto. Qed.

Lemma read_map_quiet c i c' rr :
  read_map c i = (c', rr) -> (i < length (rds c))%nat -> rnotified rr = false -> status_ok c' -> keq c c'.
Proof.
  unfold read_map. intros E Hi Hq Hs.
  replace (Nat.eqb i (length (rds c))) with false in E by (symmetry; apply Nat.eqb_neq; lia).
  destruct (nth_error (rds c) i) as [r|] eqn:Hn; [|inversion E; subst; apply keq_refl].
  assert (Kset : forall p y m, keq c (set_rds c (upd (rds c) i (set_target p y m)))).
  { intros. unfold keq; simpl. repeat split; auto; apply upd_map_same; intros; reflexivity. }
  assert (Bad : forall st p y, ~ status_ok (set_rds c (upd (rds c) i (fun r => set_status st (set_hold p y r)))) \/ st = 0).
  { intros st p y. destruct (Z.eq_dec st 0); [right; auto|left]. intros H.
    specialize (H _ (upd_in_status (rds c) i (fun r => set_status st (set_hold p y r)) r Hn)). simpl in H. auto. }
  destruct (rmapped r).
  { inversion E; subst. destruct (Bad 2 (head c) (cyc c)) as [B|B]; [contradiction|discriminate]. }
  destruct ((hpos r =? head c) && (hcyc r =? cyc c)); [inversion E; subst; apply keq_refl|].
  destruct (hpos r <? head c).
  - destruct (negb (hcyc r =? cyc c)).
    + inversion E; subst. destruct (Bad 1 (head c) (cyc c)) as [B|B]; [contradiction|discriminate].
    + inversion E; subst. apply Kset.
  - destruct (negb (cyc c =? hcyc r + 1)).
    + inversion E; subst. destruct (Bad 1 (head c) (cyc c)) as [B|B]; [contradiction|discriminate].
    + destruct (high c - hpos r =? 0).
      * destruct (0 <? head c); inversion E; subst; simpl in Hq; discriminate.
      * inversion E; subst. apply Kset.
Qed.

Definition reader_op_ok (c : chan) (o : op) : Prop :=
  match o with
  | OAccept _ => True
  | OReadMap i => (i < length (rds c))%nat
  | OReadUnmap _ _ => True
  | _ => False
  end.

(* a critical section of a non-writer thread either notifies or leaves the writer's verdict alone *)
Lemma reader_step_quiet c o c' r n :
  reader_op_ok c o -> step c o = (c', r) -> notifies r = false ->
  status_ok c' -> (status_ok c -> blocked c n) -> blocked c' n.
Proof.
  intros Hok E Hq Hs Hb. destruct o as [m| | |b|i|i k]; simpl in Hok; try contradiction; simpl in E.
  - inversion E; subst. simpl in Hq. discriminate.
  - destruct (read_map c i) as [c1 rr] eqn:Er. inversion E; subst. simpl in Hq.
    pose proof (read_map_quiet c i c' rr Er Hok Hq Hs) as K.
    apply (blocked_keq c c' n K). apply Hb. eapply status_ok_keq; eauto.
  - destruct (read_unmap c i k) as [c1 nt] eqn:Er. inversion E; subst. simpl in Hq. subst nt.
    unfold read_unmap in Er. destruct (nth_error (rds c) i) as [r0|]; [|inversion Er; subst; auto].
    destruct (negb (rmapped r0)); inversion Er; subst; auto.
Qed.

Lemma step_length c o c' r : step c o = (c', r) -> (length (rds c) <= length (rds c'))%nat.
Proof.
  destruct o as [m| | |b|i|i k]; simpl; intros E.
  - destruct (write_map c m) as [c1 w] eqn:Ew. inversion E; subst. unfold write_map in Ew.
    destruct (cap c <=? m); [inversion Ew; subst; lia|].
    destruct (rds c) eqn:Er.
    + destruct (cap c <=? head c + m); inversion Ew; subst; simpl; rewrite Er; simpl; lia.
    + destruct (negb (accepting c)); [inversion Ew; subst; rewrite Er; lia|].
      destruct (next_write c m); [inversion Ew; subst; rewrite Er; lia|].
      destruct (beg =? head c); destruct wrap; inversion Ew; subst; simpl; rewrite ?map_length, ?Er; simpl; lia.
  - inversion E; subst. unfold write_unmap. destruct (accepting c); simpl; lia.
  - inversion E; subst. unfold abort_write. destruct (accepting c); simpl; lia.
  - inversion E; subst. simpl. lia.
  - destruct (read_map c i) as [c1 rr] eqn:Er. inversion E; subst. unfold read_map in Er.
    assert (Hj : (length (rds c) <= length (rds (if Nat.eqb i (length (rds c)) then join c else c)))%nat).
    { destruct (Nat.eqb i (length (rds c))); simpl; rewrite ?app_length; simpl; lia. }
    set (s := if Nat.eqb i (length (rds c)) then join c else c) in *.
    destruct (nth_error (rds s) i) as [r0|]; [|inversion Er; subst; lia].
    destruct (rmapped r0); [inversion Er; subst; simpl; rewrite upd_length; lia|].
    destruct ((hpos r0 =? head s) && (hcyc r0 =? cyc s)); [inversion Er; subst; lia|].
    destruct (hpos r0 <? head s).
    + destruct (negb (hcyc r0 =? cyc s)); inversion Er; subst; simpl; rewrite upd_length; lia.
    + destruct (negb (cyc s =? hcyc r0 + 1)); [inversion Er; subst; simpl; rewrite upd_length; lia|].
      destruct (high s - hpos r0 =? 0); [destruct (0 <? head s)|]; inversion Er; subst; simpl; rewrite upd_length; lia.
  - destruct (read_unmap c i k) as [c1 nt] eqn:Er. inversion E; subst. unfold read_unmap in Er.
    destruct (nth_error (rds c) i) as [r0|]; [|inversion Er; subst; lia].
    destruct (negb (rmapped r0)); inversion Er; subst; simpl; rewrite ?upd_length; lia.
Qed.

(* ------------------------------------------------------------------ thread table facts *)
Lemma nth_set_same l t x : (t < length l)%nat -> nth_error (set_thr l t x) t = Some x.
Proof. revert t; induction l as [|a l IH]; intros [|t] H; simpl in *; try lia; auto. apply IH; lia. Qed.

Lemma nth_set_other l t u x : u <> t -> nth_error (set_thr l t x) u = nth_error l u.
Proof. revert t u; induction l as [|a l IH]; intros [|t] [|u] H; simpl; auto; try congruence. Qed.

Lemma nth_some_lt {A} (l : list A) t x : nth_error l t = Some x -> (t < length l)%nat.
Proof. intros H. apply nth_error_Some. congruence. Qed.

Definition quiet_pc (p : pc) : Prop := match p with PPrewait | PParked _ => False | _ => True end.

Lemma wake_script th : tscript (wake th) = tscript th.
Proof. unfold wake. destruct (tpc th); reflexivity. Qed.

Lemma wake_quiet th : quiet_pc (tpc th) -> wake th = th.
Proof. unfold wake. destruct (tpc th) eqn:E; simpl; tauto. Qed.

Lemma wake_pc th : tpc (wake th) = match tpc th with PParked _ => PParked true | p => p end.
Proof. unfold wake. destruct (tpc th) eqn:E; simpl; auto. Qed.

Lemma ok_mono c c' o : (length (rds c) <= length (rds c'))%nat -> reader_op_ok c o -> reader_op_ok c' o.
Proof. destruct o; simpl; auto. lia. Qed.

(* ------------------------------------------------------------------ the system invariant *)
Record J (s : sys) : Prop := mkJ {
  j_others : forall t th, t <> 0%nat -> nth_error (thrs s) t = Some th ->
               Forall (reader_op_ok (ch s)) (tscript th) /\ quiet_pc (tpc th);
  j_lock : forall t, lk s = Some t ->
               t = 0%nat /\ exists th, nth_error (thrs s) 0 = Some th /\ tpc th = PPrewait;
  j_pre : forall th, nth_error (thrs s) 0 = Some th -> tpc th = PPrewait ->
            lk s = Some 0%nat /\ exists n rest, tscript th = OWriteMap n :: rest /\ blocked (ch s) n;
  j_park : forall th b, nth_error (thrs s) 0 = Some th -> tpc th = PParked b ->
            exists n rest, tscript th = OWriteMap n :: rest /\
              (b = false -> status_ok (ch s) -> blocked (ch s) n)
}.

Lemma next_pc_quiet rest : quiet_pc (next_pc rest).
Proof. destruct rest; simpl; auto. Qed.

(* a step that only moves thread t between quiet control points *)
Lemma J_local s t th x :
  J s -> nth_error (thrs s) t = Some th -> quiet_pc (tpc th) -> quiet_pc (tpc x) ->
  (t <> 0%nat -> Forall (reader_op_ok (ch s)) (tscript x)) ->
  J (mkSys (ch s) (lk s) (set_thr (thrs s) t x)).
Proof.
  intros [A B C D] Hn Hq Hx Hs. pose proof (nth_some_lt _ _ _ Hn) as Hlt.
  constructor; cbn [ch lk thrs].
  - intros u thu Hu Hnu. destruct (Nat.eq_dec u t) as [->|Hne].
    + rewrite nth_set_same in Hnu by exact Hlt. inversion Hnu; subst. split; auto.
    + rewrite nth_set_other in Hnu by exact Hne. apply (A u thu Hu Hnu).
  - intros u Hu. destruct (B u Hu) as (-> & th0 & H0 & Hp). split; [reflexivity|].
    destruct (Nat.eq_dec t 0) as [->|Hne].
    + rewrite H0 in Hn. inversion Hn; subst. rewrite Hp in Hq. contradiction.
    + exists th0. rewrite nth_set_other by auto. auto.
  - intros th0 H0 Hp. destruct (Nat.eq_dec t 0) as [->|Hne].
    + rewrite nth_set_same in H0 by exact Hlt. inversion H0; subst. rewrite Hp in Hx. contradiction.
    + rewrite nth_set_other in H0 by auto. apply (C th0 H0 Hp).
  - intros th0 b H0 Hp. destruct (Nat.eq_dec t 0) as [->|Hne].
    + rewrite nth_set_same in H0 by exact Hlt. inversion H0; subst. rewrite Hp in Hx. contradiction.
    + rewrite nth_set_other in H0 by auto. apply (D th0 b H0 Hp).
Qed.

(* thread t finishes an operation inside its critical section *)
Lemma J_complete s t th c' rest r :
  J s -> lk s = None -> nth_error (thrs s) t = Some th ->
  (length (rds (ch s)) <= length (rds c'))%nat ->
  (t <> 0%nat -> Forall (reader_op_ok (ch s)) rest /\
                 forall n, notifies r = false -> status_ok c' -> (status_ok (ch s) -> blocked (ch s) n) -> blocked c' n) ->
  J (complete s t c' rest r).
Proof.
  intros [A B C D] Hl Hn Hlen Ht. pose proof (nth_some_lt _ _ _ Hn) as Hlt.
  set (l := set_thr (thrs s) t (mkThr (next_pc rest) rest)).
  assert (Hw : forall u, nth_error (if notifies r then map wake l else l) u =
                         option_map (fun x => if notifies r then wake x else x) (nth_error l u)).
  { intros u. destruct (notifies r); [apply nth_error_map|]. destruct (nth_error l u); reflexivity. }
  unfold complete. fold l. constructor; cbn [ch lk thrs].
  - intros u thu Hu Hnu. rewrite Hw in Hnu.
    destruct (nth_error l u) as [x|] eqn:Hx; [|discriminate]. simpl in Hnu. inversion Hnu; subst thu; clear Hnu.
    assert (Hx' : Forall (reader_op_ok (ch s)) (tscript x) /\ quiet_pc (tpc x)).
    { unfold l in Hx. destruct (Nat.eq_dec u t) as [->|Hne].
      - rewrite nth_set_same in Hx by exact Hlt. inversion Hx; subst; simpl. split; [apply Ht; auto|apply next_pc_quiet].
      - rewrite nth_set_other in Hx by exact Hne. apply (A u x Hu Hx). }
    destruct Hx' as (Hs & Hq).
    assert ((if notifies r then wake x else x) = x) as -> by (destruct (notifies r); auto; apply wake_quiet; auto).
    split; auto. eapply Forall_impl; [|exact Hs]. intros o. apply ok_mono. exact Hlen.
  - intros u Hu. discriminate.
  - intros th0 H0 Hp. exfalso. rewrite Hw in H0.
    destruct (nth_error l 0) as [x|] eqn:Hx; [|discriminate]. simpl in H0. inversion H0; subst th0; clear H0.
    assert (Hxp : tpc x = PPrewait).
    { destruct (notifies r); auto. rewrite wake_pc in Hp. destruct (tpc x); auto; discriminate. }
    unfold l in Hx. destruct (Nat.eq_dec t 0) as [->|Hne].
    + rewrite nth_set_same in Hx by exact Hlt. inversion Hx; subst. simpl in Hxp. destruct rest; discriminate.
    + rewrite nth_set_other in Hx by auto. destruct (C x Hx Hxp) as (Hk & _). congruence.
  - intros th0 b H0 Hp. rewrite Hw in H0.
    destruct (nth_error l 0) as [x|] eqn:Hx; [|discriminate]. simpl in H0. inversion H0; subst th0; clear H0.
    unfold l in Hx. destruct (Nat.eq_dec t 0) as [->|Hne].
    + rewrite nth_set_same in Hx by exact Hlt. inversion Hx; subst.
      destruct (notifies r); [rewrite wake_pc in Hp|]; simpl in Hp; destruct rest; discriminate.
    + rewrite nth_set_other in Hx by auto.
      destruct (notifies r) eqn:Hnt.
      * rewrite wake_pc in Hp. rewrite wake_script.
        destruct (tpc x) eqn:Hpx; try discriminate. inversion Hp; subst b.
        destruct (D x notified Hx Hpx) as (n & rs & Hsc & _). exists n, rs. split; auto. discriminate.
      * destruct (D x b Hx Hp) as (n & rs & Hsc & Hb). exists n, rs. split; auto.
        intros -> Hs'. destruct (Ht Hne) as (_ & Hq). apply Hq; auto.
Qed.

Lemma J_prewait s n rest th :
  J s -> nth_error (thrs s) 0 = Some th -> blocked (ch s) n ->
  J (mkSys (ch s) (Some 0%nat) (set_thr (thrs s) 0 (mkThr PPrewait (OWriteMap n :: rest)))).
Proof.
  intros [A B C D] Hn Hb. pose proof (nth_some_lt _ _ _ Hn) as Hlt.
  constructor; cbn [ch lk thrs].
  - intros u thu Hu Hnu. rewrite nth_set_other in Hnu by auto. apply (A u thu Hu Hnu).
  - intros u Hu. inversion Hu; subst. split; auto. eexists. rewrite nth_set_same by exact Hlt. split; reflexivity.
  - intros th0 H0 Hp. rewrite nth_set_same in H0 by exact Hlt. inversion H0; subst. simpl.
    split; auto. exists n, rest. auto.
  - intros th0 b H0 Hp. rewrite nth_set_same in H0 by exact Hlt. inversion H0; subst. discriminate.
Qed.

Lemma J_parkstep s th :
  J s -> nth_error (thrs s) 0 = Some th -> tpc th = PPrewait ->
  J (mkSys (ch s) None (set_thr (thrs s) 0 (mkThr (PParked false) (tscript th)))).
Proof.
  intros [A B C D] Hn Hp. pose proof (nth_some_lt _ _ _ Hn) as Hlt.
  destruct (C th Hn Hp) as (_ & n & rest & Hs & Hb).
  constructor; cbn [ch lk thrs].
  - intros u thu Hu Hnu. rewrite nth_set_other in Hnu by auto. apply (A u thu Hu Hnu).
  - intros u Hu. discriminate.
  - intros th0 H0 Hp0. rewrite nth_set_same in H0 by exact Hlt. inversion H0; subst. discriminate.
  - intros th0 b H0 Hp0. rewrite nth_set_same in H0 by exact Hlt. inversion H0; subst. simpl.
    exists n, rest. auto.
Qed.

Lemma J_try_write s t th n rest :
  J s -> lk s = None -> nth_error (thrs s) t = Some th -> (t <> 0%nat -> False) ->
  J (fst (try_write s t n rest)).
Proof.
  intros Hj Hl Hn Ht. assert (t = 0%nat) as -> by (destruct t; auto; exfalso; apply Ht; discriminate).
  unfold try_write. destruct (write_map (ch s) n) as [c' w] eqn:E.
  assert (Hlen : (length (rds (ch s)) <= length (rds c'))%nat).
  { apply (step_length (ch s) (OWriteMap n) c' (ResW w)). simpl. rewrite E. reflexivity. }
  destruct w; simpl; try (eapply J_complete; eauto; intros C; exfalso; apply C; reflexivity).
  eapply J_prewait; eauto. unfold blocked. rewrite E. reflexivity.
Qed.

Theorem J_step sp s t s' l : J s -> sstep true sp s t = Some (s', l) -> J s'.
Proof.
  intros Hj. unfold sstep.
  destruct (nth_error (thrs s) t) as [th|] eqn:Hn; [|discriminate].
  assert (Hoth : t <> 0%nat -> Forall (reader_op_ok (ch s)) (tscript th) /\ quiet_pc (tpc th)).
  { intros Ht. apply (j_others s Hj t th Ht Hn). }
  destruct (tpc th) eqn:Hp; destruct (tscript th) as [|o rest] eqn:Hs; try discriminate.
  - (* PInit, [] *) intros E; inversion E; subst.
    eapply J_local; eauto; simpl; auto. rewrite Hp; simpl; auto.
  - intros E; inversion E; subst. eapply J_local; eauto; simpl; auto. rewrite Hp; simpl; auto.
    intros Ht. apply Hoth. exact Ht.
  - (* PStart *)
    assert (Tail : t <> 0%nat -> Forall (reader_op_ok (ch s)) rest).
    { intros Ht. destruct (Hoth Ht) as (F & _). inversion F; auto. }
    assert (Whole : t <> 0%nat -> Forall (reader_op_ok (ch s)) (o :: rest)).
    { intros Ht. destruct (Hoth Ht) as (F & _). auto. }
    assert (Q : quiet_pc (tpc th)) by (rewrite Hp; simpl; auto).
    destruct o as [n| | |b|i|i k].
    + destruct (cap (ch s) <=? n); intros E; inversion E; subst; eapply J_local; eauto; simpl; auto; apply next_pc_quiet.
    + intros E; inversion E; subst; eapply J_local; eauto; simpl; auto.
    + intros E; inversion E; subst; eapply J_local; eauto; simpl; auto.
    + intros E; inversion E; subst; eapply J_local; eauto; simpl; auto.
    + intros E; inversion E; subst; eapply J_local; eauto; simpl; auto.
    + destruct (reader_mapped (ch s) i); intros E; inversion E; subst; eapply J_local; eauto; simpl; auto; apply next_pc_quiet.
  - (* PLock *)
    destruct (lk s) eqn:Hl; [discriminate|].
    assert (Tail : t <> 0%nat -> Forall (reader_op_ok (ch s)) rest).
    { intros Ht. destruct (Hoth Ht) as (F & _). inversion F; auto. }
    assert (Hd : t <> 0%nat -> reader_op_ok (ch s) o).
    { intros Ht. destruct (Hoth Ht) as (F & _). inversion F; auto. }
    assert (Gen : forall c' r, step (ch s) o = (c', r) -> J (complete s t c' rest r)).
    { intros c' r Es. eapply J_complete; eauto.
      - eapply step_length; eauto.
      - intros Ht. split; [apply Tail; auto|]. intros n Hq Hok Hb.
        eapply reader_step_quiet; eauto. }
    destruct o as [n| | |b|i|i k];
      try (destruct (step (ch s) _) as [c' r] eqn:Es; intros E; inversion E; subst; apply Gen; reflexivity).
    intros E; inversion E as [E']; clear E. replace s' with (fst (try_write s t n rest)) by (rewrite E'; reflexivity).
    eapply J_try_write; eauto.
  - (* PPrewait, [] *)
    intros E; inversion E; subst.
    assert (t = 0%nat) as -> by (destruct t; auto; destruct (Hoth ltac:(discriminate)) as (_ & Q); simpl in Q; contradiction).
    rewrite <- Hs. apply J_parkstep; auto.
  - intros E; inversion E; subst.
    assert (t = 0%nat) as -> by (destruct t; auto; destruct (Hoth ltac:(discriminate)) as (_ & Q); simpl in Q; contradiction).
    rewrite <- Hs. apply J_parkstep; auto.
  - (* PParked *)
    destruct o as [n| | |b|i|i k]; try discriminate.
    destruct (lk s) eqn:Hl; [discriminate|].
    destruct (notified || sp); [|discriminate].
    intros E; inversion E; subst. unfold relabel; cbn [fst].
    eapply J_try_write; eauto. intros Ht. destruct (Hoth Ht) as (_ & Q). simpl in Q. contradiction.
  - (* PExit *)
    intros E; inversion E; subst. eapply J_local; eauto; simpl; auto; try (rewrite Hp; simpl; auto);
      try (intros Ht; apply Hoth; exact Ht).
  - intros E; inversion E; subst. eapply J_local; eauto; simpl; auto; try (rewrite Hp; simpl; auto);
      try (intros Ht; apply Hoth; exact Ht).
Qed.

(* ------------------------------------------------------------------ every schedule *)
Lemma J_run sp sched : forall s s', J s -> srun true sp s sched = Some s' -> J s'.
Proof. induction sched as [|t sched IH]; simpl; intros s s' Hj E.
  - inversion E; subst; auto.
  - destruct (sstep true sp s t) as [[s1 l]|] eqn:Es; [|discriminate].
    eapply IH; [|exact E]. eapply J_step; eauto. Qed.

Definition scripts_ok (c : chan) (scripts : list (list op)) : Prop :=
  forall t sc, t <> 0%nat -> nth_error scripts t = Some sc -> Forall (reader_op_ok c) sc.

Lemma J_init c k scripts : scripts_ok (joins (init c) k) scripts -> J (sinit c k scripts).
Proof. intros H. unfold sinit. constructor; cbn [ch lk thrs].
  - intros t th Ht Hn. rewrite nth_error_map in Hn. destruct (nth_error scripts t) as [sc|] eqn:E; [|discriminate].
    inversion Hn; subst; simpl. split; auto. eapply H; eauto.
  - intros t Ht; discriminate.
  - intros th Hn Hp. rewrite nth_error_map in Hn. destruct (nth_error scripts 0); inversion Hn; subst; discriminate.
  - intros th b Hn Hp. rewrite nth_error_map in Hn. destruct (nth_error scripts 0); inversion Hn; subst; discriminate.
Qed.

Theorem reachable_J sp c k scripts sched s :
  scripts_ok (joins (init c) k) scripts -> srun true sp (sinit c k scripts) sched = Some s -> J s.
Proof. intros H E. eapply J_run; [apply J_init; exact H|exact E]. Qed.

(* ------------------------------------------------------------------ consequences *)
Lemma no_lost_wakeup s th n rest :
  J s -> nth_error (thrs s) 0 = Some th -> tpc th = PParked false -> tscript th = OWriteMap n :: rest ->
  status_ok (ch s) -> blocked (ch s) n.
Proof. intros Hj Hn Hp Hs Hok. destruct (j_park s Hj th false Hn Hp) as (n' & rest' & Hs' & Hb).
  rewrite Hs in Hs'. inversion Hs'; subst. auto. Qed.

Lemma lock_only_at_prewait s t : J s -> lk s = Some t ->
  t = 0%nat /\ exists th n rest, nth_error (thrs s) 0 = Some th /\ tpc th = PPrewait /\
    tscript th = OWriteMap n :: rest /\ blocked (ch s) n.
Proof. intros Hj Hl. destruct (j_lock s Hj t Hl) as (-> & th & Hn & Hp). split; auto.
  destruct (j_pre s Hj th Hn Hp) as (_ & n & rest & Hs & Hb). exists th, n, rest. auto. Qed.

(* the lock is never held across steps except by the writer at its pre-wait point, whose next step
   (always enabled) releases it *)
Lemma prewait_releases sp s th : nth_error (thrs s) 0 = Some th -> tpc th = PPrewait ->
  exists s' l, sstep true sp s 0 = Some (s', l) /\ lk s' = None.
Proof. intros Hn Hp. unfold sstep. rewrite Hn, Hp.
  destruct (tscript th); eexists; eexists; split; reflexivity. Qed.

(* once the wait condition is false -- space was released or writes are refused -- a parked writer has been
   notified, the lock is free, and its very next step returns from channel_write_map *)
Lemma parked_writer_resumes sp s th b n rest :
  J s -> nth_error (thrs s) 0 = Some th -> tpc th = PParked b -> tscript th = OWriteMap n :: rest ->
  status_ok (ch s) -> ~ blocked (ch s) n ->
  b = true /\ lk s = None /\
  exists s' w, sstep true sp s 0 = Some (s', mkLabel KWait (Some (ResW w))) /\ w <> WBlocked /\
    exists th', nth_error (thrs s') 0 = Some th' /\ tscript th' = rest.
Proof.
  intros Hj Hn Hp Hs Hok Hnb.
  assert (Hb : b = true).
  { destruct b; auto. exfalso. apply Hnb. eapply no_lost_wakeup; eauto. }
  subst b.
  assert (Hl : lk s = None).
  { destruct (lk s) as [t|] eqn:Hl; auto. destruct (j_lock s Hj t Hl) as (_ & th0 & H0 & Hp0).
    rewrite Hn in H0. inversion H0; subst. congruence. }
  split; auto. split; auto.
  unfold sstep. rewrite Hn, Hp, Hs, Hl. simpl. unfold try_write.
  unfold blocked in Hnb. destruct (write_map (ch s) n) as [c' w] eqn:E. simpl in Hnb.
  pose proof (nth_some_lt _ _ _ Hn) as Hlt.
  assert (Hth : forall r, exists th', nth_error (thrs (complete s 0 c' rest r)) 0 = Some th' /\ tscript th' = rest).
  { intros r. unfold complete; cbn [thrs].
    destruct (notifies r).
    - rewrite nth_error_map, nth_set_same by exact Hlt. simpl. eexists. split; [reflexivity|]. rewrite wake_script. reflexivity.
    - rewrite nth_set_same by exact Hlt. eexists. split; reflexivity. }
  destruct w; try contradiction; unfold relabel; simpl;
    eexists; eexists; (split; [reflexivity|]); (split; [discriminate|]); apply Hth.
Qed.

(* refusal: with writes refused the writer is never asleep un-notified nor about to sleep *)
Lemma refused_not_asleep s th :
  J s -> nth_error (thrs s) 0 = Some th -> accepting (ch s) = false -> status_ok (ch s) ->
  tpc th <> PPrewait /\ tpc th <> PParked false /\ lk s = None.
Proof.
  intros Hj Hn Ha Hok.
  assert (P1 : tpc th <> PPrewait).
  { intros Hp. destruct (j_pre s Hj th Hn Hp) as (_ & n & rest & _ & Hb). apply blocked_accepting in Hb. congruence. }
  split; auto. split.
  - intros Hp. destruct (j_park s Hj th false Hn Hp) as (n & rest & _ & Hb).
    specialize (Hb eq_refl Hok). apply blocked_accepting in Hb. congruence.
  - destruct (lk s) as [t|] eqn:Hl; auto. destruct (j_lock s Hj t Hl) as (_ & th0 & H0 & Hp0).
    rewrite Hn in H0. inversion H0; subst. contradiction.
Qed.

Lemma refused_not_blocked c n : accepting c = false -> ~ blocked c n.
Proof. intros Ha Hb. apply blocked_accepting in Hb. congruence. Qed.

(* space: a request below the capacity can only wait on readers, never on itself *)
Lemma drained_min r0 l k : (forall r, In r (r0 :: l) -> key r = k) -> key (reader_min r0 l) = k.
Proof. intros H. apply H. destruct (reader_min_spec l r0) as (Hin & _). exact Hin. Qed.

Lemma space_when_drained c n :
  0 <= n < cap c -> (forall r, In r (rds c) -> hpos r = head c /\ hcyc r = cyc c) ->
  ~ blocked c n.
Proof.
  intros Hn Hd. unfold blocked, write_map.
  destruct (Z.leb_spec (cap c) n); [lia|].
  destruct (rds c) as [|r0 rest] eqn:E.
  - destruct (cap c <=? head c + n); simpl; discriminate.
  - destruct (accepting c) eqn:Ha; simpl; [|discriminate].
    unfold next_write. rewrite Ha, E. simpl.
    assert (K : key (reader_min r0 rest) = (head c, cyc c)).
    { apply drained_min. intros r Hr. unfold key. destruct (Hd r Hr) as (-> & ->). reflexivity. }
    unfold key in K. inversion K as [[K1 K2]]. rewrite K1, K2.
    rewrite Z.ltb_irrefl, Z.eqb_refl.
    replace (cyc c =? cyc c + 1) with false by (symmetry; apply Z.eqb_neq; lia). simpl.
    destruct (n <=? cap c - head c); [simpl; discriminate|].
    destruct (n <=? head c); [simpl; discriminate|].
    replace (n <? cap c) with true by (symmetry; apply Z.ltb_lt; lia). simpl. discriminate.
Qed.
