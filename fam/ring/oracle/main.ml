(* Line-protocol driver around the extracted ring model (same protocol as harness/h_channel.c). *)
open Ringmodel

let rec pos_of_int n = if n = 1 then XH else if n land 1 = 0 then XO (pos_of_int (n lsr 1)) else XI (pos_of_int (n lsr 1))
let z_of_int n = if n = 0 then Z0 else if n > 0 then Zpos (pos_of_int n) else Zneg (pos_of_int (-n))
let rec int_of_pos = function XH -> 1 | XO p -> 2 * int_of_pos p | XI p -> 2 * int_of_pos p + 1
let int_of_z = function Z0 -> 0 | Zpos p -> int_of_pos p | Zneg p -> - (int_of_pos p)
let rec nat_of_int n = if n <= 0 then O else S (nat_of_int (n - 1))
let rec int_of_nat = function O -> 0 | S n -> 1 + int_of_nat n

let dump (g : gst) =
  let s = g.cs in
  let b = Buffer.create 64 in
  Buffer.add_string b (Printf.sprintf " | S %d %d %d %d %d %d" (int_of_z s.head) (int_of_z s.high) (int_of_z s.cyc)
                         (int_of_z s.mapped) (if s.accepting then 1 else 0) (List.length s.rds));
  List.iter (fun r ->
      Buffer.add_string b (Printf.sprintf " [%d %d %d %d" (int_of_z r.hpos) (int_of_z r.hcyc) (if r.rmapped then 1 else 0) (int_of_z r.rstatus));
      if r.rmapped then Buffer.add_string b (Printf.sprintf " %d %d" (int_of_z r.rpos) (int_of_z r.rcyc));
      Buffer.add_string b "]") s.rds;
  Buffer.contents b


(* ---------------------------------------------------------------- ChanSync mode (same input as harness/h_chansync.c) *)
let dump_chan (s : chan) =
  let b = Buffer.create 64 in
  Buffer.add_string b (Printf.sprintf " | S %d %d %d %d %d %d" (int_of_z s.head) (int_of_z s.high) (int_of_z s.cyc)
                         (int_of_z s.mapped) (if s.accepting then 1 else 0) (List.length s.rds));
  List.iter (fun r ->
      Buffer.add_string b (Printf.sprintf " [%d %d %d %d" (int_of_z r.hpos) (int_of_z r.hcyc) (if r.rmapped then 1 else 0) (int_of_z r.rstatus));
      if r.rmapped then Buffer.add_string b (Printf.sprintf " %d %d" (int_of_z r.rpos) (int_of_z r.rcyc));
      Buffer.add_string b "]") s.rds;
  Buffer.contents b

let parse_op (str : string) : op option =
  match String.split_on_char ' ' (String.trim str) |> List.filter (fun x -> x <> "") with
  | ["w"; n] -> Some (OWriteMap (z_of_int (int_of_string n)))
  | ["c"] -> Some OCommit
  | ["a"] -> Some OAbort
  | ["acc"; b] -> Some (OAccept (int_of_string b <> 0))
  | ["r"; i] -> Some (OReadMap (nat_of_int (int_of_string i)))
  | ["u"; i; k] -> Some (OReadUnmap (nat_of_int (int_of_string i), z_of_int (int_of_string k)))
  | _ -> None

let sync_mode (first : string) =
  let cap = ref 8 and nreaders = ref 0 and scripts = ref [] and sched = ref [] and spurious = ref false
  and locked = ref true in
  let handle line =
    let line = String.trim line in
    let w = String.split_on_char ' ' line |> List.filter (fun x -> x <> "") in
    match w with
    | ["CAP"; c] -> cap := int_of_string c
    | ["READERS"; k] -> nreaders := int_of_string k
    | ["SPURIOUS"; k] -> spurious := (int_of_string k <> 0)
    | ["ACCEPT_LOCKED"; k] -> locked := (int_of_string k <> 0)
    | "SCHED" :: rest -> sched := List.map int_of_string rest
    | "T" :: _ ->
      let body = String.sub line 1 (String.length line - 1) in
      let ops = String.split_on_char ';' body |> List.filter_map parse_op in
      scripts := !scripts @ [ops]
    | _ -> () in
  handle first;
  (try while true do handle (input_line stdin) done with End_of_file -> ());
  let s = ref (sinit (z_of_int !cap) (nat_of_int !nreaders) !scripts) in
  let kname = function KCreate -> "create" | KDev -> "dev" | KLock -> "lock" | KPrewait -> "prewait" | KWait -> "wait" | KExit -> "exit" in
  let stop = ref false in
  List.iter (fun tid ->
      if tid > 0 && not !stop then begin
        match sstep !locked !spurious !s (nat_of_int (tid - 1)) with
        | None -> Printf.printf "MODEL-DISABLED %d\n" tid; stop := true
        | Some (s', l) ->
          s := s';
          Printf.printf "S %d %s\n" tid (kname l.lkind);
          (match l.lres with
           | None -> ()
           | Some r ->
             let txt = match r with
               | ResW WTooBig -> "W toobig" | ResW WRefused -> "W refused" | ResW WBlocked -> "W blocked"
               | ResW (WRegion b) -> Printf.sprintf "W region %d" (int_of_z b)
               | ResUnit _ -> "U"
               | ResR rr -> if int_of_z rr.rlen > 0 then Printf.sprintf "R %d %d" (int_of_z rr.roff) (int_of_z rr.rlen) else "R - 0" in
             Printf.printf "E %d %s%s\n" tid txt (dump_chan s'.ch))
      end) !sched;
  let n = List.length !s.thrs in
  let en = List.filter (fun t -> enabledb !locked false !s (nat_of_int t)) (List.init n (fun i -> i)) in
  if all_done !s then print_string "END\n"
  else if en = [] then print_string "DEADLOCK\n"
  else print_string "UNFINISHED\n"

let () =
  let g = ref (ginit (z_of_int 1)) in
  (try
     while true do
       let line = input_line stdin in
       let w = String.split_on_char ' ' (String.trim line) in
       match w with
       | "CAP" :: _ -> sync_mode line; raise End_of_file
       | ["new"; c] -> g := ginit (z_of_int (int_of_string c)); Printf.printf "NEW %s\n" c
       | [] | [""] -> ()
       | _ ->
         let o = match w with
           | ["w"; n] -> Some (OWriteMap (z_of_int (int_of_string n)))
           | ["c"] -> Some OCommit
           | ["a"] -> Some OAbort
           | ["acc"; b] -> Some (OAccept (int_of_string b <> 0))
           | ["r"; i] -> Some (OReadMap (nat_of_int (int_of_string i)))
           | ["u"; i; k] -> Some (OReadUnmap (nat_of_int (int_of_string i), z_of_int (int_of_string k)))
           | _ -> None in
         (match o with
          | None -> Printf.printf "BADOP %s\n" line
          | Some o ->
            let g0 = !g in
            let wf = wf_opb g0 o in
            let (g1, r) = gstep g0 o in
            g := g1;
            let head = match o, r with
              | _, ResW WTooBig -> "W toobig"
              | _, ResW WRefused -> "W refused"
              | _, ResW WBlocked -> "W blocked"
              | _, ResW (WRegion b) -> Printf.sprintf "W region %d" (int_of_z b)
              | OReadUnmap _, ResUnit nt -> Printf.sprintf "U notify=%d stable=1" (if nt then 1 else 0)
              | _, ResUnit nt -> Printf.sprintf "U notify=%d" (if nt then 1 else 0)
              | OReadMap i, ResR rr ->
                let len = int_of_z rr.rlen in
                let nt = if rr.rnotified then 1 else 0 in
                if len > 0 then begin
                  (* the reader's hold is unchanged by a successful map: its log index is the first byte *)
                  let rd = List.nth g1.cs.rds (int_of_nat i) in
                  Printf.sprintf "R %d %d first=%d ok=1 notify=%d" (int_of_z rr.roff) len (int_of_z (idx g1 rd)) nt
                end else Printf.sprintf "R - 0 first=-1 ok=1 notify=%d" nt
              | _, ResR _ -> "R ?" in
            print_string head; print_string (dump g1);
            if not wf then print_string " NOTWF";
            print_newline ())
     done
   with End_of_file -> ())
