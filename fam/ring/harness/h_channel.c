/* h_channel.c -- sequential operation-sequence driver for the real channel.c (DESIGN 3(a), 6.1, 6.2).
   Reads histories from stdin, one op per line, prints one canonical result line per op.
     new <cap>            start a history on a fresh channel
     w <n> | c | a | acc <0|1> | r <i> | u <i> <k>
   The harness keeps, independently of channel.c's fields, a shadow array with the log index of the
   committed byte that currently occupies each ring cell (-1: scribbled), fills every mapped region
   with 0xEE at once, writes (index mod 251) bytes just before committing, and checks every slice. */
#include <setjmp.h>
#include <stdio.h>
#include <stdlib.h>
#include "channel.h"

static jmp_buf g_block;
static int g_can_block = 0;
static int g_notifies = 0, g_locks = 0, g_lock_depth = 0, g_lock_err = 0;

void lock_init(struct lock* self) { self->depth = 0; }
void lock_acquire(struct lock* self) { if (self->depth != 0) g_lock_err = 1; self->depth++; g_locks++; }
void lock_release(struct lock* self) { if (self->depth != 1) g_lock_err = 1; self->depth--; }
void condition_variable_init(struct condition_variable* self) { self->notified = 0; }
void condition_variable_wait(struct condition_variable* self, struct lock* lock)
{
    if (lock->depth != 1) g_lock_err = 1;
    lock->depth = 0; /* wait releases the lock */
    if (!g_can_block) { printf("FATAL wait outside write_map\n"); exit(3); }
    longjmp(g_block, 1);
}
void condition_variable_notify_all(struct condition_variable* self) { g_notifies++; }
void* memory_alloc(size_t n, enum AllocatorHint hint) { return malloc(n); }
void memory_free(void* p) { free(p); }
/* channel.c may log (a harmless change must not break the build of this harness) */
void aq_logger(int is_error, const char* file, int line, const char* function, const char* fmt, ...) { (void)is_error; (void)file; (void)line; (void)function; (void)fmt; }

#define MAXR 8
static struct channel ch;
static struct channel_reader rdr[MAXR + 1];
static int have = 0;
static long long* shadow = 0;    /* log index per cell */
static long long L = 0;          /* committed bytes so far */
static int accepting = 1;
static long long wbeg = -1, wn = 0; /* pending region */
static struct { long long off, len; unsigned char* copy; } held[MAXR + 1];

static void dump(void)
{
    printf(" | S %zu %zu %zu %zu %d %u", ch.head, ch.high, ch.cycle, ch.mapped, (int)ch.is_accepting_writes, ch.holds.n);
    for (unsigned i = 0; i < ch.holds.n && i < MAXR; ++i) {
        printf(" [%zu %zu %d %d", ch.holds.pos[i], ch.holds.cycles[i], (int)rdr[i].state, (int)rdr[i].status);
        if (rdr[i].state == ChannelState_Mapped) printf(" %zu %zu", rdr[i].pos, rdr[i].cycle);
        printf("]");
    }
    if (g_lock_err) printf(" LOCKERR");
    if (ch.lock.depth != 0 ) printf(" LOCKHELD");
    printf("\n");
}

int main(void)
{
    char line[256];
    setvbuf(stdout, 0, _IOFBF, 1 << 16);
    while (fgets(line, sizeof line, stdin)) {
        long long a = 0, b = 0;
        g_notifies = 0;
        if (sscanf(line, "new %lld", &a) == 1) {
            if (have) { for (int i = 0; i <= MAXR; ++i) { free(held[i].copy); held[i].copy = 0; } channel_release(&ch); free(shadow); }
            channel_new(&ch, (size_t)a);
            memset(rdr, 0, sizeof rdr);
            memset(held, 0, sizeof held);
            shadow = malloc(sizeof(long long) * (size_t)(a > 0 ? a : 1));
            for (long long i = 0; i < a; ++i) shadow[i] = -1;
            L = 0; accepting = 1; wbeg = -1; wn = 0; have = 1; g_lock_err = 0;
            printf("NEW %lld\n", a);
        } else if (sscanf(line, "w %lld", &a) == 1 && wbeg >= 0) {
            printf("W skip"); dump();            /* a region is still mapped: not a call a single writer makes */
        } else if (sscanf(line, "w %lld", &a) == 1) {
            void* p = 0;
            int blocked = 0;
            g_can_block = 1;
            if (setjmp(g_block) == 0) p = channel_write_map(&ch, (size_t)a);
            else blocked = 1;
            g_can_block = 0;
            if (blocked) printf("W blocked");
            else if (!p) printf("W %s", (size_t)a >= ch.capacity ? "toobig" : "refused");
            else {
                long long off = (unsigned char*)p - ch.data;
                printf("W region %lld", off);
                if (off < 0 || off + a > (long long)ch.capacity) { printf(" OUTSIDE\n"); fflush(stdout); exit(5); }
                wbeg = off; wn = a;
                memset(p, 0xEE, (size_t)a);               /* the writer may write at once */
                for (long long i = 0; i < a; ++i) if (off + i >= 0 && off + i < (long long)ch.capacity) shadow[off + i] = -1;
            }
            dump();
        } else if ((line[0] == 'c' || (line[0] == 'a' && line[1] != 'c')) && wbeg < 0) {
            printf("U skip"); dump();            /* nothing is mapped: a writer does not commit or abort here */
        } else if (line[0] == 'c') {
            if (wbeg >= 0) {
                for (long long i = 0; i < wn; ++i) ch.data[wbeg + i] = (unsigned char)((L + i) % 251);
                if (accepting) { for (long long i = 0; i < wn; ++i) shadow[wbeg + i] = L + i; L += wn; }
            }
            channel_write_unmap(&ch);
            wbeg = -1;
            printf("U notify=%d", g_notifies); dump();
        } else if (line[0] == 'a' && line[1] != 'c') {
            channel_abort_write(&ch);
            wbeg = -1;
            printf("U notify=%d", g_notifies); dump();
        } else if (sscanf(line, "acc %lld", &a) == 1) {
            channel_accept_writes(&ch, (uint32_t)a);
            accepting = a != 0;
            printf("U notify=%d", g_notifies); dump();
        } else if (sscanf(line, "r %lld", &a) == 1 && a >= 0 && a < MAXR && rdr[a].state == ChannelState_Mapped) {
            printf("R skip"); dump();            /* mapping a mapped reader is misuse (C06's concern), not part of these histories */
        } else if (sscanf(line, "r %lld", &a) == 1 && a >= 0 && a < MAXR) {
            struct slice s = channel_read_map(&ch, &rdr[a]);
            long long len = s.end - s.beg;
            if (len > 0) {
                long long off = s.beg - ch.data;
                int ok = off >= 0 && off + len <= (long long)ch.capacity;
                long long first = ok ? shadow[off] : -1;
                for (long long j = 0; ok && j < len; ++j)
                    if (shadow[off + j] < 0 || shadow[off + j] != first + j || s.beg[j] != (unsigned char)(shadow[off + j] % 251)) ok = 0;
                printf("R %lld %lld first=%lld ok=%d notify=%d", off, len, first, ok, g_notifies);
                if (ok && !held[a].copy) {
                    held[a].off = off; held[a].len = len; held[a].copy = malloc((size_t)len);
                    memcpy(held[a].copy, s.beg, (size_t)len);
                }
            } else {
                printf("R - 0 first=-1 ok=1 notify=%d", g_notifies);
            }
            dump();
        } else if (sscanf(line, "u %lld %lld", &a, &b) == 2 && a >= 0 && a < MAXR) {
            int stable = 1;
            if (held[a].copy) {
                stable = memcmp(held[a].copy, ch.data + held[a].off, (size_t)held[a].len) == 0;
                free(held[a].copy); held[a].copy = 0;
            }
            channel_read_unmap(&ch, &rdr[a], (size_t)b);
            printf("U notify=%d stable=%d", g_notifies, stable); dump();
        } else if (line[0] == '\n' || line[0] == '#') {
        } else {
            printf("BADOP %s", line);
        }
    }
    fflush(stdout);
    return 0;
}
