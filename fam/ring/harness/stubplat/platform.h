/* Stub platform.h for the sequential ring harness (placed first on the include path).
   Locks are counted, condition_variable_wait escapes to the harness ("the call would block"),
   notify_all is counted.  channel.c itself is compiled unmodified from /repo's working tree. */
#ifndef H_ACQUIRE_PLATFORM_V0
#define H_ACQUIRE_PLATFORM_V0
#include <stdint.h>
#include <stddef.h>
#include <string.h>
#include <stdarg.h>
#ifdef __cplusplus
extern "C" {
#endif
struct lock { int depth; };
struct condition_variable { int notified; };
enum AllocatorHint { AllocatorHint_Default, AllocatorHint_LargePage };
struct clock { uint64_t origin; };
void lock_init(struct lock* self);
void lock_acquire(struct lock* self);
void lock_release(struct lock* self);
void condition_variable_init(struct condition_variable* self);
void condition_variable_wait(struct condition_variable* self, struct lock* lock);
void condition_variable_notify_all(struct condition_variable* self);
void* memory_alloc(size_t capacity_bytes, enum AllocatorHint hint);
void memory_free(void* address);
#ifdef __cplusplus
}
#endif
#endif
