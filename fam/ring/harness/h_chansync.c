/* h_chansync.c -- the real channel.c under the deterministic scheduler (DESIGN 3(b), 6.3).
   stdin:   CAP <n>            channel capacity
            READERS <k>        k readers, registered (first read_map) by the main thread before the threads start
            T <ops>            one line per thread; ops separated by ';' :  w <n> | c | a | acc <0|1> | r <i> | u <i> <k>
            SCHED <t0 t1 ...>  explicit thread-id schedule (mode 1)   |   SEED <s>   random schedule   |  PREFIX c0 c1.. (mode 0 choices, then seed)
            SPURIOUS 1         allow spurious wake-ups
   stdout:  the vsched trace (S/E lines), then END or DEADLOCK ... and the SCHEDULE actually taken. */
#include <stdio.h>
#include <stdlib.h>
#include "platform.h"
#include "vsched.h"
#include "channel.h"

#define MAXR 8
#define MAXT 8
#define MAXOPS 64
static struct channel ch;
static struct channel_reader rdr[MAXR];
static int nreaders = 0;
struct opx { char k; long long a, b; };
static struct opx script[MAXT][MAXOPS];
static int nops[MAXT];
static int nthr = 0;
static struct thread th[MAXT];

static void dump(char* buf, size_t n)
{
    int o = snprintf(buf, n, " | S %zu %zu %zu %zu %d %u", ch.head, ch.high, ch.cycle, ch.mapped, (int)ch.is_accepting_writes, ch.holds.n);
    for (unsigned i = 0; i < ch.holds.n && i < MAXR; ++i) {
        o += snprintf(buf + o, n - o, " [%zu %zu %d %d", ch.holds.pos[i], ch.holds.cycles[i], (int)rdr[i].state, (int)rdr[i].status);
        if (rdr[i].state == ChannelState_Mapped) o += snprintf(buf + o, n - o, " %zu %zu", rdr[i].pos, rdr[i].cycle);
        o += snprintf(buf + o, n - o, "]");
    }
}

static void run_script(void* arg)
{
    int t = (int)(intptr_t)arg;
    char d[512];
    for (int i = 0; i < nops[t]; ++i) {
        struct opx* o = &script[t][i];
        vs_point("op");
        switch (o->k) {
            case 'w': {
                void* p = channel_write_map(&ch, (size_t)o->a);
                dump(d, sizeof d);
                if (p) vs_log("W region %lld%s", (long long)((unsigned char*)p - ch.data), d);
                else vs_log("W %s%s", (size_t)o->a >= ch.capacity ? "toobig" : "refused", d);
                break;
            }
            case 'c': channel_write_unmap(&ch); dump(d, sizeof d); vs_log("U%s", d); break;
            case 'a': channel_abort_write(&ch); dump(d, sizeof d); vs_log("U%s", d); break;
            case 'A': channel_accept_writes(&ch, (uint32_t)o->a); dump(d, sizeof d); vs_log("U%s", d); break;
            case 'r': {
                struct slice s = channel_read_map(&ch, &rdr[o->a]);
                long long len = s.end - s.beg;
                dump(d, sizeof d);
                if (len > 0) vs_log("R %lld %lld%s", (long long)(s.beg - ch.data), len, d);
                else vs_log("R - 0%s", d);
                break;
            }
            case 'u': channel_read_unmap(&ch, &rdr[o->a], (size_t)o->b); dump(d, sizeof d); vs_log("U%s", d); break;
        }
    }
}

static int probes = 0;
static int on_stuck(const char* why)
{
    /* Oracle probe: was the sleep legitimate?  Deliver one spurious wake-up to every parked thread.  A thread that
       then returns from channel_write_map had missed a notification (its wait condition was already false). */
    if (why[0] != 'D' || probes++ > 0) { printf("STUCK-FINAL\n"); return 0; }
    printf("DEADLOCK-PROBE\n");
    return vs_wake_all() > 0;
}

int main(void)
{
    char line[4096];
    static int sched[65536];
    size_t nsched = 0;
    long long cap = 8, seed = 1;
    int mode = 1, spurious = 0, trace = 1;
    while (fgets(line, sizeof line, stdin)) {
        if (sscanf(line, "CAP %lld", &cap) == 1) continue;
        if (sscanf(line, "READERS %d", &nreaders) == 1) continue;
        if (sscanf(line, "SEED %lld", &seed) == 1) continue;
        if (sscanf(line, "SPURIOUS %d", &spurious) == 1) continue;
        if (sscanf(line, "TRACE %d", &trace) == 1) continue;
        if (!strncmp(line, "SCHED", 5) || !strncmp(line, "PREFIX", 6)) {
            mode = line[0] == 'S' ? 1 : 0;
            char* p = strchr(line, ' ');
            while (p && *p) {
                char* e;
                long v = strtol(p, &e, 10);
                if (e == p) break;
                sched[nsched++] = (int)v;
                p = e;
            }
            continue;
        }
        if (line[0] == 'T' && line[1] == ' ') {
            int t = nthr++;
            char* p = line + 2;
            nops[t] = 0;
            while (*p) {
                while (*p == ' ' || *p == ';') ++p;
                if (!*p || *p == '\n') break;
                struct opx o = { 0, 0, 0 };
                if (!strncmp(p, "acc", 3)) { o.k = 'A'; sscanf(p + 3, "%lld", &o.a); }
                else if (*p == 'w') { o.k = 'w'; sscanf(p + 1, "%lld", &o.a); }
                else if (*p == 'c') o.k = 'c';
                else if (*p == 'a') o.k = 'a';
                else if (*p == 'r') { o.k = 'r'; sscanf(p + 1, "%lld", &o.a); }
                else if (*p == 'u') { o.k = 'u'; sscanf(p + 1, "%lld %lld", &o.a, &o.b); }
                script[t][nops[t]++] = o;
                while (*p && *p != ';' && *p != '\n') ++p;
            }
        }
    }
    struct vs_config c = { 0 };
    c.seed = (uint64_t)seed; c.trace = trace; c.schedule = sched; c.nschedule = nsched; c.mode = mode;
    c.allow_spurious = spurious; c.max_steps = 20000;
    vs_init(&c);
    vs_on_stuck(on_stuck);
    channel_new(&ch, (size_t)cap);
    memset(rdr, 0, sizeof rdr);
    for (int i = 0; i < nreaders; ++i) { struct slice s = channel_read_map(&ch, &rdr[i]); (void)s; }
    for (int t = 0; t < nthr; ++t) { thread_init(&th[t]); thread_create(&th[t], run_script, (void*)(intptr_t)t); }
    for (int t = 0; t < nthr; ++t) thread_join(&th[t]);
    printf("END\n");
    vs_dump_schedule();
    return 0;
}
