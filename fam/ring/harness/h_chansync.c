/* h_chansync.c -- the real channel.c under the deterministic scheduler (DESIGN 3(b), 6.3).
   stdin:   CAP <n>            channel capacity
            READERS <k>        k readers, registered (first read_map) by the main thread before the threads start
            T <ops>            one line per thread; ops separated by ';' :  w <n> | c | a | acc <0|1> | r <i> | u <i> <k>
            SCHED <t0 t1 ...>  explicit thread-id schedule (mode 1)   |   SEED <s>   random schedule   |  PREFIX c0 c1.. (mode 0 choices, then seed)
            SPURIOUS 1         allow spurious wake-ups
   stdout:  the vsched trace (S/E lines), then END or DEADLOCK ... and the SCHEDULE actually taken. */
#include <stdio.h>
#include <stdlib.h>
#include "platform.h"
#include "vsched.h"
#include "channel.h"

#define MAXR 8
#define MAXT 8
#define MAXOPS 64
static struct channel ch;
static struct channel_reader rdr[MAXR];
static int nreaders = 0;
struct opx { char k; long long a, b; };
static struct opx script[MAXT][MAXOPS];
static int nops[MAXT];
static int nthr = 0;
static struct thread th[MAXT];

/* channel.c may log (a harmless change must not break the build of this harness) */
void aq_logger(int is_error, const char* file, int line, const char* function, const char* fmt, ...) { (void)is_error; (void)file; (void)line; (void)function; (void)fmt; }

/* data-level bookkeeping, independent of channel.c's fields (as in h_channel.c): the log index of the committed byte in
   every ring cell, the pending write, a copy of every mapped slice.  Reported on "X" lines (not part of the lock-step
   comparison) in h_channel's result format, so that the same C01/C02 oracle reads them. */
static long long* shadow = 0;
static long long L = 0;
static long long wbeg = -1, wn = 0;
static int g_wf = 0;   /* WF 1: keep the writer's script well formed -- skip commit/abort when the preceding write_map returned no region */
static struct { long long off, len; unsigned char* copy; } held[MAXR];

static void dump(char* buf, size_t n)
{
    int o = snprintf(buf, n, " | S %zu %zu %zu %zu %d %u", ch.head, ch.high, ch.cycle, ch.mapped, (int)ch.is_accepting_writes, ch.holds.n);
    for (unsigned i = 0; i < ch.holds.n && i < MAXR; ++i) {
        o += snprintf(buf + o, n - o, " [%zu %zu %d %d", ch.holds.pos[i], ch.holds.cycles[i], (int)rdr[i].state, (int)rdr[i].status);
        if (rdr[i].state == ChannelState_Mapped) o += snprintf(buf + o, n - o, " %zu %zu", rdr[i].pos, rdr[i].cycle);
        o += snprintf(buf + o, n - o, "]");
    }
}

static void run_script(void* arg)
{
    int t = (int)(intptr_t)arg;
    char d[512];
    for (int i = 0; i < nops[t]; ++i) {
        struct opx* o = &script[t][i];
        if (g_wf && (o->k == 'c' || o->k == 'a') && wbeg < 0)
            continue;
        vs_point("op");
        switch (o->k) {
            case 'w': {
                void* p = channel_write_map(&ch, (size_t)o->a);
                dump(d, sizeof d);
                if (p) vs_log("W region %lld%s", (long long)((unsigned char*)p - ch.data), d);
                else vs_log("W %s%s", (size_t)o->a >= ch.capacity ? "toobig" : "refused", d);
                if (p) {
                    long long off = (unsigned char*)p - ch.data;
                    if (off < 0 || off + o->a > (long long)ch.capacity) { printf("X %d w %lld => W region %lld OUTSIDE | S\n", t, o->a, off); fflush(stdout); exit(5); }
                    wbeg = off; wn = o->a;
                    memset(p, 0xEE, (size_t)o->a);   /* the writer may write at once */
                    for (long long i = 0; i < o->a; ++i) shadow[off + i] = -1;
                    printf("X %d w %lld => W region %lld | S\n", t, o->a, off);
                } else
                    printf("X %d w %lld => W %s | S\n", t, o->a, (size_t)o->a >= ch.capacity ? "toobig" : "refused");
                break;
            }
            case 'c': {
                size_t head0 = ch.head, mapped0 = ch.mapped;
                if (wbeg >= 0) for (long long i = 0; i < wn; ++i) ch.data[wbeg + i] = (unsigned char)((L + i) % 251);
                channel_write_unmap(&ch);
                int committed = wbeg >= 0 && wn > 0 && mapped0 != head0 && ch.head == mapped0;
                if (committed) { for (long long i = 0; i < wn; ++i) shadow[wbeg + i] = L + i; L += wn; }
                printf("X %d %s => U committed=%d | S\n", t, wbeg >= 0 ? "c" : "c-nomap", committed);
                wbeg = -1;
                dump(d, sizeof d); vs_log("U%s", d); break;
            }
            case 'a': channel_abort_write(&ch); printf("X %d a => U | S\n", t); wbeg = -1; dump(d, sizeof d); vs_log("U%s", d); break;
            case 'A': channel_accept_writes(&ch, (uint32_t)o->a); printf("X %d acc %lld => U | S\n", t, o->a); dump(d, sizeof d); vs_log("U%s", d); break;
            case 'r': {
                int was_mapped = rdr[o->a].state == ChannelState_Mapped;
                struct slice s = channel_read_map(&ch, &rdr[o->a]);
                long long len = s.end - s.beg;
                dump(d, sizeof d);
                if (len > 0) vs_log("R %lld %lld%s", (long long)(s.beg - ch.data), len, d);
                else vs_log("R - 0%s", d);
                if (was_mapped) printf("X %d r %lld => R skip | S\n", t, o->a);
                else if (len > 0) {
                    long long off = s.beg - ch.data;
                    int ok = off >= 0 && off + len <= (long long)ch.capacity;
                    long long first = ok ? shadow[off] : -1;
                    for (long long j = 0; ok && j < len; ++j)
                        if (shadow[off + j] < 0 || shadow[off + j] != first + j || s.beg[j] != (unsigned char)(shadow[off + j] % 251)) ok = 0;
                    printf("X %d r %lld => R %lld %lld first=%lld ok=%d notify=0 | S\n", t, o->a, off, len, first, ok);
                    if (ok && !held[o->a].copy) {
                        held[o->a].off = off; held[o->a].len = len; held[o->a].copy = malloc((size_t)len);
                        memcpy(held[o->a].copy, s.beg, (size_t)len);
                    }
                } else
                    printf("X %d r %lld => R - 0 first=-1 ok=1 notify=0 | S\n", t, o->a);
                break;
            }
            case 'u': {
                int stable = 1;
                if (held[o->a].copy) {
                    stable = memcmp(held[o->a].copy, ch.data + held[o->a].off, (size_t)held[o->a].len) == 0;
                    free(held[o->a].copy); held[o->a].copy = 0;
                }
                channel_read_unmap(&ch, &rdr[o->a], (size_t)o->b);
                printf("X %d u %lld %lld => U notify=0 stable=%d | S\n", t, o->a, o->b, stable);
                dump(d, sizeof d); vs_log("U%s", d); break;
            }
        }
    }
}

static int probes = 0;
static int on_stuck(const char* why)
{
    /* Oracle probe: was the sleep legitimate?  Deliver one spurious wake-up to every parked thread.  A thread that
       then returns from channel_write_map had missed a notification (its wait condition was already false). */
    if (why[0] != 'D' || probes++ > 0) { printf("STUCK-FINAL\n"); return 0; }
    printf("DEADLOCK-PROBE\n");
    return vs_wake_all() > 0;
}

int main(void)
{
    char line[4096];
    static int sched[65536];
    size_t nsched = 0;
    long long cap = 8, seed = 1;
    int mode = 1, spurious = 0, trace = 1;
    while (fgets(line, sizeof line, stdin)) {
        if (sscanf(line, "CAP %lld", &cap) == 1) continue;
        if (sscanf(line, "READERS %d", &nreaders) == 1) continue;
        if (sscanf(line, "SEED %lld", &seed) == 1) continue;
        if (sscanf(line, "SPURIOUS %d", &spurious) == 1) continue;
        if (sscanf(line, "TRACE %d", &trace) == 1) continue;
        if (sscanf(line, "WF %d", &g_wf) == 1) continue;
        if (!strncmp(line, "SCHED", 5) || !strncmp(line, "PREFIX", 6)) {
            mode = line[0] == 'S' ? 1 : 0;
            char* p = strchr(line, ' ');
            while (p && *p) {
                char* e;
                long v = strtol(p, &e, 10);
                if (e == p) break;
                sched[nsched++] = (int)v;
                p = e;
            }
            continue;
        }
        if (line[0] == 'T' && line[1] == ' ') {
            int t = nthr++;
            char* p = line + 2;
            nops[t] = 0;
            while (*p) {
                while (*p == ' ' || *p == ';') ++p;
                if (!*p || *p == '\n') break;
                struct opx o = { 0, 0, 0 };
                if (!strncmp(p, "acc", 3)) { o.k = 'A'; sscanf(p + 3, "%lld", &o.a); }
                else if (*p == 'w') { o.k = 'w'; sscanf(p + 1, "%lld", &o.a); }
                else if (*p == 'c') o.k = 'c';
                else if (*p == 'a') o.k = 'a';
                else if (*p == 'r') { o.k = 'r'; sscanf(p + 1, "%lld", &o.a); }
                else if (*p == 'u') { o.k = 'u'; sscanf(p + 1, "%lld %lld", &o.a, &o.b); }
                script[t][nops[t]++] = o;
                while (*p && *p != ';' && *p != '\n') ++p;
            }
        }
    }
    struct vs_config c = { 0 };
    c.seed = (uint64_t)seed; c.trace = trace; c.schedule = sched; c.nschedule = nsched; c.mode = mode;
    c.allow_spurious = spurious; c.max_steps = 20000;
    vs_init(&c);
    vs_on_stuck(on_stuck);
    channel_new(&ch, (size_t)cap);
    memset(rdr, 0, sizeof rdr);
    shadow = malloc(sizeof(long long) * (size_t)(cap > 0 ? cap : 1));
    for (long long i = 0; i < cap; ++i) shadow[i] = -1;
    printf("X 0 new %lld => NEW\n", cap);
    for (int i = 0; i < nreaders; ++i) { struct slice s = channel_read_map(&ch, &rdr[i]); (void)s; printf("X 0 r %d => R - 0 first=-1 ok=1 notify=0 | S\n", i); }
    for (int t = 0; t < nthr; ++t) { thread_init(&th[t]); thread_create(&th[t], run_script, (void*)(intptr_t)t); }
    for (int t = 0; t < nthr; ++t) thread_join(&th[t]);
    printf("END\n");
    vs_dump_schedule();
    return 0;
}
