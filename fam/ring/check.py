"""Ring family: C01 (exact delivery), C02 (no overlap / stable slices).  DESIGN 6.1, 6.2."""
import os
import re
import sys

import vlib

RT = "acquire-video-runtime/src/runtime"
LOGGER = "acquire-core-libs/src/acquire-core-logger"


# ----------------------------------------------------------------------------- generator
def gen_history(rng, cap, nops, nreaders, ctx=None):
    """A well-formed single-writer history (text ops). Tracks just enough to stay well-formed and to aim
    write sizes at the case-split boundaries of next_write."""
    ops = ["new %d" % cap]
    pend = False
    joined = 0
    mapped = [False] * 8
    lastlen = [0] * 8
    accepting = True
    sizes_small = rng.random() < 0.5
    for _ in range(nops):
        x = rng.random()
        if pend:
            if x < 0.8:
                ops.append("c"); pend = None
            elif x < 0.9:
                ops.append("a"); pend = None
            if pend is None:
                pend = False
                continue
        if x < 0.40 and not pend:
            r = rng.random()
            if r < 0.15:
                n = cap - 1
            elif r < 0.3:
                n = rng.randint(max(1, cap // 2), cap - 1) if cap > 2 else 1
            elif r < 0.35:
                n = rng.choice([0, cap, cap + 1])
            elif sizes_small:
                n = rng.randint(1, max(1, cap // 4))
            else:
                n = rng.randint(1, max(1, cap - 1))
            ops.append("w %d" % n)
            pend = "maybe"   # the harness/model decide whether a region was handed out
        elif x < 0.45:
            accepting = not accepting if rng.random() < 0.5 else accepting
            ops.append("acc %d" % (1 if accepting else 0))
        elif x < 0.75:
            cand = list(range(joined)) + ([joined] if joined < nreaders else [])
            if not cand:
                continue
            i = rng.choice(cand)
            if i == joined:
                joined += 1
            ops.append("r %d" % i)
        else:
            if joined == 0:
                continue
            i = rng.randrange(joined)
            r = rng.random()
            k = 1 << 40 if r < 0.6 else rng.choice([0, 1, 2, 3, rng.randint(0, cap)])
            ops.append("u %d %d" % (i, k))
    return ops


def gen_raw_history(rng, cap, nops, nreaders):
    """An unfiltered operation sequence for the implementation-only search (the harness skips what a single writer /
    well-behaved reader would not call).  Aimed at several readers spread over two laps and a writer that keeps the
    ring nearly full."""
    ops = ["new %d" % cap]
    lag = rng.randrange(nreaders)            # one reader that consumes little
    for _ in range(nops):
        x = rng.random()
        if x < 0.40:
            r = rng.random()
            n = cap - 1 if r < 0.1 else rng.randint(max(1, cap // 2), cap - 1) if r < 0.3 else rng.randint(1, max(1, cap // 3))
            ops.append("w %d" % n)
            ops.append("c" if rng.random() < 0.9 else "a")
        elif x < 0.43:
            ops.append("acc %d" % rng.randint(0, 1))
        else:
            i = rng.randrange(nreaders)
            if i == lag and rng.random() < 0.6:
                continue
            ops.append("r %d" % i)
            k = rng.random()
            ops.append("u %d %d" % (i, 1 << 40 if k < 0.6 else rng.randint(0, cap)))
    return ops


def search_raw(ctx, prop, impl, n):
    """Implementation-only search with the property oracle on unfiltered histories (turns a broken tie into a concrete
    failing history; also run, smaller, on every check)."""
    hs = []
    for _ in range(n):
        cap = ctx.rng.randint(3, 12) if ctx.rng.random() < 0.7 else ctx.rng.randint(3, 40)
        hs.append(gen_raw_history(ctx.rng, cap, ctx.rng.randint(30, 160), ctx.rng.randint(1, 5)))
    shards = vlib.shard(hs, vlib.NPROC)

    def runimpl(sh):
        flat = [o for h in sh for o in h]
        return run_lines(impl, flat)

    for sh, (rc, out, err) in zip(shards, vlib.parallel(runimpl, shards)):
        pos = 0
        for h in sh:
            o = out[pos:pos + len(h)]
            pos += len(h)
            if len(o) < len(h):
                rc1, o, e1 = run_lines(impl, h, timeout=60)
                if len(o) < len(h):
                    if not ctx.has_violation("crash"):
                        ctx.violation("implementation aborted (sanitizer report or crash) during a history: " + (e1 or "")[-300:],
                                      {"history": h, "impl_output": o, "stderr": (e1 or "")[-3000:]}, key="crash")
                    continue
            ctx.count("search:raw-histories")
            for (p, key, msg, k) in oracle(h, o, tolerant=True):
                if p == prop and not ctx.has_violation(key):
                    def fails(cand, key=key, h0=h[0]):
                        ops = [h0] + cand
                        rc2, out2, _ = run_lines(impl, ops, timeout=20)
                        return len(out2) == len(ops) and any(kk == key for (_, kk, _, _) in oracle(ops, out2, tolerant=True))
                    try:
                        hh = [h[0]] + vlib.ddmin(h[1:k + 1], fails, max_tests=300)
                    except Exception:
                        hh = h[:k + 1]
                    ctx.violation(msg + "  [found by the implementation-only search; history minimised]",
                                  {"history": hh, "impl_output": run_lines(impl, hh)[1],
                                   "how": "feed the history, one op per line, to .build/%s/h_channel (built by this check from /repo)" % prop}, key=key)


def fix_wellformed(ops, run_model):
    """The generator does not know whether a write_map handed out a region (pend) or whether a reader is mapped;
    the model does: drop the ops it flags NOTWF and re-run until none is left."""
    while True:
        out = run_model(ops)
        bad = [i for i, l in enumerate(out) if l.endswith("NOTWF")]
        if not bad:
            return ops, out
        ops = ops[:bad[0]] + ops[bad[0] + 1:]


# ----------------------------------------------------------------------------- independent property oracle
def oracle(ops, out, tolerant=False):
    """Direct statement of C01/C02 over the implementation's own outputs (never through the model).
    Returns list of (property, key, message, index).  tolerant: the history was not filtered through the model; ops the
    harness skipped ('W skip', 'R skip') or that have no effect (commit with nothing mapped) are ignored, and the walk goes
    on after a violation (re-synchronised) so that violations of several clauses are all seen."""
    v = []
    cap = 0
    L = 0
    accepting = True
    bounds = {0}
    pend = None             # (off, n)
    shadow = []
    rd = {}                 # i -> dict(start, consumed, ljoin, held=(off,len))
    for k, (o, line) in enumerate(zip(ops, out)):
        w = o.split()
        res = line.split(" | ")[0].split()
        if w[0] == "new":
            cap = int(w[1]); L = 0; accepting = True; bounds = {0}; pend = None; shadow = [-1] * cap; rd = {}
            continue
        if "LOCKERR" in line or "LOCKHELD" in line:
            v.append(("C03", "lock-discipline", "lock not released / acquired twice at op %d: %s" % (k, line), k))
        if len(res) > 1 and res[1] == "skip":
            continue
        if w[0] == "w":
            n = int(w[1])
            if pend is not None:
                v.append(("-", "history-not-wf-for-impl", "write_map while a region is mapped", k)); return v
            if res[1] == "region":
                off = int(res[2])
                if off < 0 or off + n > cap:
                    v.append(("C02", "region-outside", "write region [%d,%d) outside the buffer of %d bytes" % (off, off + n, cap), k))
                    return v
                # bytes some reader has not consumed or has mapped
                hit = False
                for i, r in rd.items():
                    lo = r["start"] + r["consumed"]
                    for j in range(off, off + n):
                        if shadow[j] >= lo and not hit:
                            v.append(("C02", "region-overlaps-unread",
                                      "write region [%d,%d) covers ring offset %d which holds log byte %d not yet consumed by reader %d (consumed up to %d)"
                                      % (off, off + n, j, shadow[j], i, lo), k))
                            hit = True
                if hit and not tolerant:
                    return v
                for j in range(off, off + n):
                    shadow[j] = -1
                pend = (off, n)
            elif res[1] == "toobig" and n < cap:
                v.append(("C03", "toobig-below-capacity", "request of %d < capacity %d rejected" % (n, cap), k))
        elif w[0] in ("c", "a") and pend is None:
            if tolerant:
                continue
            v.append(("-", "history-not-wf-for-impl", "commit/abort with no region mapped", k)); return v
        elif w[0] == "c":
            if pend and accepting:
                off, n = pend
                for j in range(n):
                    shadow[off + j] = L + j
                L += n
                bounds.add(L)
            pend = None
        elif w[0] == "a":
            pend = None
        elif w[0] == "acc":
            accepting = w[1] != "0"
        elif w[0] == "r":
            i = int(w[1])
            if ((i in rd and rd[i]["held"]) or i > len(rd)) and not tolerant:
                v.append(("-", "history-not-wf-for-impl", "read_map on a mapped reader", k)); return v
            if res[1] == "-":
                if i not in rd:
                    rd[i] = {"start": L, "consumed": 0, "ljoin": L, "held": None}
                r = rd[i]
                if r["held"] is None and r["start"] + r["consumed"] != L:
                    v.append(("C01", "empty-not-drained",
                              "reader %d got an empty region at op %d although committed bytes %d..%d have not been delivered to it"
                              % (i, k, r["start"] + r["consumed"], L - 1), k))
                    if not tolerant:
                        return v
                    r["consumed"] = L - r["start"]
            else:
                off, ln = int(res[1]), int(res[2])
                first = int(res[3].split("=")[1]); ok = res[4] == "ok=1"
                if not ok:
                    v.append(("C02", "slice-not-committed", "slice [%d,%d) handed to reader %d is not a run of consecutive committed bytes (first=%d)"
                              % (off, off + ln, i, first), k))
                    if not tolerant:
                        return v
                    continue
                if i not in rd:
                    rd[i] = {"start": first, "consumed": 0, "ljoin": L, "held": None}
                    if first not in bounds or first > L:
                        v.append(("C01", "start-not-boundary", "reader %d starts at log byte %d which is not a write boundary <= %d" % (i, first, L), k))
                        if not tolerant:
                            return v
                r = rd[i]
                if first != r["start"] + r["consumed"]:
                    v.append(("C01", "lost-dup-reordered",
                              "reader %d was handed log bytes %d.. at op %d but the next byte it has not consumed is %d" % (i, first, k, r["start"] + r["consumed"]), k))
                    if not tolerant:
                        return v
                    r["consumed"] = first - r["start"]
                r["held"] = (off, ln)
        elif w[0] == "u":
            i = int(w[1]); kk = int(w[2])
            if "stable=0" in line:
                v.append(("C02", "slice-modified", "the slice held by reader %d changed between map and unmap (op %d)" % (i, k), k))
                if not tolerant:
                    return v
            if i in rd and rd[i]["held"]:
                off, ln = rd[i]["held"]
                rd[i]["consumed"] += min(kk, ln)
                rd[i]["held"] = None
    return v


# ----------------------------------------------------------------------------- runners
def run_lines(exe, ops, timeout=120):
    rc, o, e = vlib.sh([exe], inp="\n".join(ops) + "\n", timeout=timeout)
    lines = o.split("\n")
    if lines and lines[-1] == "":
        lines.pop()
    return rc, lines, e


def build(ctx):
    orac = ctx.oracle_build()
    here = os.path.join(ctx.famdir, "harness")
    impl = ctx.cc([os.path.join(here, "h_channel.c"), RT + "/channel.c"], "h_channel",
                  flags=["-I" + os.path.join(here, "stubplat"), "-I" + os.path.join(vlib.REPO, RT), "-I" + os.path.join(vlib.REPO, LOGGER)])
    return orac, impl


def split_histories(ops):
    hs = []
    for o in ops:
        if o.startswith("new"):
            hs.append([o])
        else:
            hs[-1].append(o)
    return hs


def minimise(ctx, impl, h, key):
    def fails(cand):
        ops = [h[0]] + cand
        rc, out, _ = run_lines(impl, ops, timeout=20)
        if len(out) != len(ops):
            return key == "crash"
        return any(k == key for (_, k, _, _) in oracle(ops, out))
    try:
        return [h[0]] + vlib.ddmin(h[1:], fails, max_tests=300)
    except Exception:
        return h


def run(ctx):
    prop = ctx.prop
    ctx.coq_prove(["Properties_" + prop])
    orac, impl = build(ctx)
    thorough = ctx.tier == "thorough"
    ctx.rule = ("well-formed single-writer histories over the real channel.c (stub platform: a blocking write_map is observed as "
                "'blocked'); capacities 2..64 (quick) / 2..4096 (thorough), write sizes aimed at cap-1, cap/2.., tail boundaries, 1..8 readers "
                "joining at any time, partial consumption; non-trivial = the writer wrapped at least once and at least one non-empty read; "
                "distinct = distinct op text")
    ctx.assumptions = ["one writer thread at a time (map, then commit or abort)", "64-bit wrap of the lap counter is not modelled",
                       "readers are numbered in join order; at most 8",
                       "the stub platform.h replaces locks/condition variables in this sequential harness (the blocking protocol is C03's)"]

    def run_model(ops):
        return run_lines(orac, ops)[1]

    # corpus first
    cdir = os.path.join(vlib.VERIF, "corpus", "ring")
    corpus = []
    if os.path.isdir(cdir):
        for fn in sorted(os.listdir(cdir)):
            ops = [l.strip() for l in open(os.path.join(cdir, fn)) if l.strip() and not l.startswith("#")]
            corpus.append(ops)
    nh = 40000 if thorough else 3000
    maxcap = 4096 if thorough else 64
    batch = []
    for k in range(nh):
        r = ctx.rng.random()
        cap = ctx.rng.randint(2, 12) if r < 0.5 else ctx.rng.randint(2, 64) if r < 0.9 else ctx.rng.randint(2, maxcap)
        ops = gen_history(ctx.rng, cap, ctx.rng.randint(20, 200 if not thorough else 400), ctx.rng.randint(1, 8))
        batch.append(ops)
        ctx.count("cap<=12" if cap <= 12 else "cap<=64" if cap <= 64 else "cap>64")
    shards = vlib.shard(batch, vlib.NPROC)

    def fix(sh):
        flat = [o for h in sh for o in h]
        out = run_model(flat)
        while True:   # drop the ops the model flags as not well-formed at their point, to a fixpoint
            bad = {i for i, l in enumerate(out) if l.endswith("NOTWF")}
            if not bad:
                break
            flat = [o for i, o in enumerate(flat) if i not in bad]
            out = run_model(flat)
        return split_histories(flat)

    fixed = vlib.parallel(fix, shards)
    if corpus:
        fixed = [corpus] + fixed
    for hs in fixed[1:3]:
        for h in hs[:1]:
            ctx.sample(h[:40])
    for hs in fixed:
        for h in hs:
            for o in h:
                ctx.count("op:" + o.split()[0])

    def runpair(hs):
        flat = [o for h in hs for o in h]
        return run_lines(orac, flat), run_lines(impl, flat)

    results = vlib.parallel(runpair, fixed)
    for hs, ((rcm, mo, em), (rci, io, ei)) in zip(fixed, results):
        fold(ctx, prop, impl, hs, rcm, mo, em, rci, io, ei)
    # search: the property oracle on unfiltered histories, implementation only; deeper when a tie is broken
    concrete = any(v["found"] for v in ctx.violations)
    search_raw(ctx, prop, impl, (60000 if thorough else 4000) if (not ctx.broken or concrete) else (200000 if thorough else 60000))
    # the blocking paths: the same oracle over runs of the real channel.c under the scheduler (blocked writers re-evaluate)
    sync_data_stage(ctx, prop, (20000 if thorough else 1500) if not ctx.broken else (60000 if thorough else 12000))


def fold(ctx, prop, impl, histories, rcm, mo, em, rci, io, ei):
    allops = sum(len(h) for h in histories)
    if rcm != 0 or len(mo) != allops:
        ctx.broken_tie("model oracle failed", (em or "")[-500:])
        return
    pos = 0
    for h in histories:
        m = mo[pos:pos + len(h)]
        i = io[pos:pos + len(h)]
        start = pos
        pos += len(h)
        if len(i) < len(h):
            # the implementation process died in this batch: re-run this history alone to attribute the crash
            rc1, i1, e1 = run_lines(impl, h, timeout=60)
            if len(i1) == len(h):
                i = i1
            else:
                vs = oracle(h[:len(i1)], i1)
                hit = False
                for (p, key, msg, k) in vs:
                    if key != "history-not-wf-for-impl" and p == prop and not ctx.has_violation(key):
                        ctx.violation(msg, {"history": h[:len(i1)], "impl_output": i1}, key=key)
                        hit = True
                if not vs and not hit:
                    m1 = re.search(r"ERROR: (\w+): ([\w-]+)", e1 or "")
                    ctx.violation("implementation aborted (sanitizer report or crash) during a history: " + (m1.group(0) if m1 else (e1 or "")[-300:]),
                                  {"history": h, "impl_output": i1, "stderr": (e1 or "")[-3000:]}, key="crash")
                ctx.broken_tie("model/implementation disagreement on a channel history (implementation died)",
                               {"history": h[:len(i1) + 1]})
                continue
        nontriv = any(" region 0 | S 0 " in l and not l.startswith("W region 0 | S 0 0 0") for l in m) and \
            any(l.startswith("R ") and not l.startswith("R -") for l in m)
        ctx.case("\n".join(h), nontrivial=nontriv)
        for l in m:
            if l.startswith("W blocked"):
                ctx.count("res:blocked")
            elif l.startswith("W refused"):
                ctx.count("res:refused")
            elif l.startswith("R -"):
                ctx.count("res:empty-read")
            if l.startswith("R ") and "notify=1" in l:
                ctx.count("res:lap-hop")
        for (p, key, msg, k) in oracle(h, i):
            if key == "history-not-wf-for-impl":
                continue
            if p == prop and not ctx.has_violation(key):
                hh = minimise(ctx, impl, h, key)
                ctx.violation(msg, {"history": hh, "impl_output": run_lines(impl, hh)[1],
                                    "how": "feed the history, one op per line, to .build/%s/h_channel (built by this check from /repo)" % prop}, key=key)
        if m != i:
            d = next(k for k in range(len(h)) if m[k] != i[k])
            ctx.broken_tie("model/implementation disagreement on a channel history",
                           {"history": h[:d + 1], "op": h[d], "model": m[d], "impl": i[d]})
        else:
            ctx.traces_validated += 1


# ============================================================================= C03: blocking protocol under the scheduler
def gen_sync_case(rng, data=False):
    cap = rng.randint(3, 10)
    nreaders = rng.randint(1, 3) if not data else rng.randint(2, 4)
    lines = ["CAP %d" % cap, "READERS %d" % nreaders]
    w = []
    for _ in range(rng.randint(2, 7)):
        r = rng.random()
        n = cap - 1 if r < 0.25 else rng.randint(max(1, cap // 2), cap - 1) if r < 0.6 else rng.randint(1, cap - 1) if r < 0.95 else cap
        w.append("w %d" % n)
        w.append("c" if rng.random() < 0.85 else "a")
    lines.append("T " + ";".join(w))
    for i in range(nreaders):
        ops = []
        for _ in range(rng.randint(2, 8)):
            ops.append("r %d" % i)
            ops.append("u %d %d" % (i, 1 << 40 if rng.random() < 0.7 else rng.randint(0, cap)))
        lines.append("T " + ";".join(ops))
    if rng.random() < 0.6:
        k = []
        for _ in range(rng.randint(1, 3)):
            k.append("acc %d" % (0 if rng.random() < 0.6 else 1))
        lines.append("T " + ";".join(k))
    return lines


def x_history(lines):
    """The data-level view of a scheduler run: (ops, results) in the order the operations completed (the "X" lines)."""
    ops, out = [], []
    for l in lines:
        if l.startswith("X "):
            body = l.split(" ", 2)[2]
            op, _, res = body.partition(" => ")
            if op == "c-nomap":
                continue
            ops.append(op)
            out.append(res)
    return ops, out


def build_sync(ctx):
    here = os.path.join(ctx.famdir, "harness")
    vp = os.path.join(vlib.VERIF, "harness", "vplatform")
    return ctx.cc([os.path.join(here, "h_chansync.c"), os.path.join(vp, "vsched.c"), RT + "/channel.c"], "h_chansync",
                  flags=["-I" + vp, "-I" + os.path.join(vlib.REPO, RT), "-I" + os.path.join(vlib.REPO, LOGGER)])


def sync_data_stage(ctx, prop, n, impl=None, cases=None):
    """C01/C02 over runs of the real channel.c under the deterministic scheduler (blocked writers that wake up and
    re-evaluate, readers moving while the writer sleeps): implementation + property oracle only."""
    impl = impl or build_sync(ctx)
    if cases is None:
        cases = []
        for k in range(n):
            c = gen_sync_case(ctx.rng, data=True)
            c.append("WF 1")
            c.append("SEED %d" % ctx.rng.randint(1, 1 << 30))
            cases.append(c)

    def one(case):
        rc, o, e = vlib.sh([impl], inp="\n".join(case) + "\n", timeout=60)
        return rc, o.split("\n"), e

    for case, (rc, lines, err) in zip(cases, vlib.parallel(one, cases)):
        ops, out = x_history(lines)
        ctx.count("search:sync-runs")
        if rc not in (0, 42, 5):
            if ("AddressSanitizer" in (err or "") or "runtime error" in (err or "")) and not ctx.has_violation("crash"):
                ctx.violation("sanitizer report in a scheduler run of channel.c: " + (err or "")[-400:], {"case": case, "stderr": (err or "")[-2000:]}, key="crash")
            continue
        for (p, key, msg, k) in oracle(ops, out, tolerant=True):
            if p == prop and not ctx.has_violation(key):
                sched = next((l.split()[1:] for l in lines if l.startswith("SCHEDULE")), [])
                ctx.violation(msg + "  [run of channel.c under the scheduler: the writer blocks and re-evaluates]",
                              {"case": case, "schedule": sched, "data_history": list(zip(ops[:k + 1], out[:k + 1]))[-30:],
                               "how": "feed `case` with the line 'SCHED <schedule>' to .build/%s/h_chansync" % ctx.prop}, key=key)


def canon_trace(lines):
    """Keep what the model predicts: (tid, kind) per step, op results; drop the main thread and label text."""
    out = []
    for l in lines:
        if l.startswith("S "):
            w = l.split()
            if w[1] != "0":
                out.append("S %s %s" % (w[1], w[2]))
        elif l.startswith("E "):
            out.append(l)
        elif l.startswith(("DEADLOCK", "END", "STEPLIMIT", "UNFINISHED", "MODEL-DISABLED")):
            out.append(l.split()[0])
            break
    return out


def sync_oracle(case, lines):
    """C03 over the implementation's own trace: a sleeping writer that proceeds after a mere spurious wake-up had
    missed a notification (release of space or refusal)."""
    v = []
    if any(l.startswith("STEPLIMIT") for l in lines):
        v.append(("steplimit", "the run did not finish within the step limit (livelock)"))
    if "DEADLOCK-PROBE" in lines:
        k = lines.index("DEADLOCK-PROBE")
        before = [l for l in lines[:k] if l.startswith("E ")]
        acc = before[-1].split(" | S ")[1].split()[4] if before else "1"
        for l in lines[k:]:
            if l.startswith("E ") and l.split()[2] == "W":
                what = "refusal" if acc == "0" else "released space"
                v.append(("lost-wakeup-" + ("refuse" if acc == "0" else "space"),
                          "the writer slept forever although its request could proceed (%s): after one spurious wake-up it returned '%s'"
                          % (what, " ".join(l.split(" | ")[0].split()[2:]))))
                break
    for l in lines:
        if l.startswith("FATAL"):
            v.append(("lock-discipline", l))
    return v


def run_c03(ctx):
    ctx.coq_prove(["Properties_C03"])
    orac = ctx.oracle_build()
    impl = build_sync(ctx)
    thorough = ctx.tier == "thorough"
    ctx.rule = ("threads W (map/commit/abort), 1..3 readers (map/unmap, partial), K (accept 0/1) running scripts on the real channel.c under "
                "the deterministic scheduler; one random schedule per case (seed), capacities 3..10; lock-step comparison of every step "
                "(thread, scheduling-point kind) and every result/state with the extracted ChanSync model; non-trivial = the writer parked "
                "at least once; distinct = script text + schedule")
    ctx.assumptions = ["pthread mutex/condvar semantics are those of harness/vplatform (mutual exclusion, atomic release-and-wait, broadcast wakes all waiters)",
                       "OS fairness (an enabled thread is eventually scheduled)", "sequential consistency at block granularity",
                       "one writer thread; readers registered before the concurrent phase; no double map"]
    cases = []
    cdir = os.path.join(vlib.VERIF, "corpus", "C03")
    if os.path.isdir(cdir):
        for fn in sorted(os.listdir(cdir)):
            cases.append([l.strip() for l in open(os.path.join(cdir, fn)) if l.strip() and not l.startswith("#")])
    n = 40000 if thorough else 2500
    for k in range(n):
        c = gen_sync_case(ctx.rng)
        c.append("SEED %d" % ctx.rng.randint(1, 1 << 30))
        if ctx.rng.random() < 0.15:
            c.append("SPURIOUS 1")
        cases.append(c)

    def one(case):
        rc, o, e = vlib.sh([impl], inp="\n".join(case) + "\n", timeout=60)
        lines = o.split("\n")
        sched = None
        for l in lines:
            if l.startswith("SCHEDULE"):
                sched = l.split()[1:]
                break
        mcase = [l for l in case if not l.startswith(("SEED", "SCHED", "PREFIX"))] + ["SCHED " + " ".join(sched or [])]
        rcm, mo, em = vlib.sh([orac], inp="\n".join(mcase) + "\n", timeout=60)
        return rc, lines, e, mo.split("\n"), sched

    results = vlib.parallel(one, cases)
    for case, (rc, lines, err, mlines, sched) in zip(cases, results):
        ci = canon_trace(lines)
        cm = canon_trace(mlines)
        parked = any(l.endswith(" prewait") for l in ci)
        ctx.case("\n".join(case) + " ".join(sched or []), nontrivial=parked)
        ctx.count("parked" if parked else "never-parked")
        if "DEADLOCK-PROBE" in lines:
            ctx.count("blocked-at-end")
        if rc not in (0, 42) or sched is None:
            if "AddressSanitizer" in (err or "") or "runtime error" in (err or ""):
                ctx.violation("sanitizer report in the scheduler run: " + (err or "")[-400:], {"case": case, "stderr": (err or "")[-2000:]}, key="crash")
            else:
                ctx.broken_tie("scheduler harness failed", {"case": case, "rc": rc, "tail": lines[-5:], "stderr": (err or "")[-500:]})
            continue
        for key, msg in sync_oracle(case, lines):
            if not ctx.has_violation(key):
                ctx.violation(msg, {"case": case, "schedule": sched, "trace_tail": lines[-25:],
                                    "how": "feed `case` with the line 'SCHED <schedule>' to .build/C03/h_chansync"}, key=key)
        if ci != cm:
            d = next((k for k in range(min(len(ci), len(cm))) if ci[k] != cm[k]), min(len(ci), len(cm)))
            ctx.broken_tie("lock-step disagreement between ChanSync and channel.c under the scheduler",
                           {"case": case, "schedule": sched, "step": d, "impl": ci[d:d + 2], "model": cm[d:d + 2]})
        else:
            ctx.traces_validated += 1
        if len(ctx.samples) < 2 and parked:
            ctx.sample({"case": case, "schedule": " ".join(sched)})
    # search: a broken lock-step with no deadlock seen yet -- re-run the disagreeing scripts under many more schedules and
    # a fresh, larger batch aimed at several readers on different laps, implementation + oracle only
    if ctx.broken and not any(v["found"] for v in ctx.violations):
        bad = [c for c, (rc, lines, err, mlines, sched) in zip(cases, results) if canon_trace(lines) != canon_trace(mlines)][:40]
        extra = []
        for c in bad:
            base = [l for l in c if not l.startswith(("SEED", "SPURIOUS"))]
            for _ in range(150):
                extra.append(base + ["SEED %d" % ctx.rng.randint(1, 1 << 30)])
        for _ in range(20000 if thorough else 6000):
            c = gen_sync_case(ctx.rng, data=True)
            extra.append(c + ["WF 1", "SEED %d" % ctx.rng.randint(1, 1 << 30)])

        def oneimpl(case):
            rc, o, e = vlib.sh([impl], inp="\n".join(case) + "\n", timeout=60)
            return rc, o.split("\n")

        for case, (rc, lines) in zip(extra, vlib.parallel(oneimpl, extra)):
            ctx.count("search:extra-schedules")
            # third clause of C03 ("readers that keep reading always reach the drained state"): a reader that is handed an EMPTY region
            # while committed bytes have not been delivered to it can read for ever without reaching it (data-level view of the run)
            xo, xr = x_history(lines)
            for (p_, key_, msg_, k_) in (oracle(xo, xr, tolerant=True) if xo else []):
                if key_ == "empty-not-drained" and not ctx.has_violation("reader-never-drains"):
                    sched = next((l.split()[1:] for l in lines if l.startswith("SCHEDULE")), [])
                    ctx.violation(msg_ + ": a reader that keeps reading gets empty regions although it is not drained (and a writer waiting for "
                                  "that reader's space is never released)  [found by the implementation-only schedule search]",
                                  {"case": case, "schedule": sched, "data_history": list(zip(xo[:k_ + 1], xr[:k_ + 1]))[-30:],
                                   "how": "feed `case` with the line 'SCHED <schedule>' to .build/C03/h_chansync"}, key="reader-never-drains")
            for key, msg in sync_oracle(case, lines):
                if not ctx.has_violation(key):
                    sched = next((l.split()[1:] for l in lines if l.startswith("SCHEDULE")), [])
                    ctx.violation(msg + "  [found by the implementation-only schedule search]",
                                  {"case": case, "schedule": sched, "trace_tail": lines[-25:],
                                   "how": "feed `case` with the line 'SCHED <schedule>' to .build/C03/h_chansync"}, key=key)


_run_ring = run


def runtime_single_writer_stage(ctx):
    """C02's theorems are about a channel with ONE writer (the ring has one write cursor).  This stage checks that precondition on the
    WHOLE runtime (acquire.c + source/filter/sink + channel.c compiled from the working tree against the deterministic scheduler and the
    mock driver of fam/pipe): in every run -- plain, aborted, with a monitor, with frame averaging, and with averaging switched off / on
    by acquire_configure while the acquisition is running (the source then changes queues under the await_filter_reset handshake) --
    no queue ever has two threads holding a write mapping at once (harness: V ... two-writers), and no region a reader has mapped
    changes before that reader unmaps it (the harness hashes every mapped region at map and at unmap: V ... region-changed-while-mapped)."""
    import sys as _sys
    pdir = os.path.join(vlib.VERIF, "fam", "pipe")
    if pdir not in _sys.path:
        _sys.path.insert(0, pdir)
    import pipelib
    exe = pipelib.build(ctx, name="h_pipe_c02")
    n = 3000 if ctx.tier == "thorough" else 320
    kinds = ["avgswitch", "avgswitch", "avgswitch", "avg", "abort", "monitor", "api", "busyrestart", "busyrestart", "busyrestart"]
    cases = []
    import glob as _glob
    for f in sorted(_glob.glob(os.path.join(vlib.VERIF, "corpus", "pipe", "*.prog"))):      # former failures of this stage first
        if "expect-unfixed: C02" in open(f).read():
            prog, _ = pipelib.load_prog(f)
            meta = pipelib.meta_from_prog(prog)
            meta["kind"] = "corpus"
            cases.append((prog, meta))
    ctx.extra["runtime_stage_corpus"] = len(cases)
    cases += [pipelib.scenario(ctx.rng, ctx.rng.choice(kinds)) for _ in range(n)]
    results = vlib.parallel(lambda c: pipelib.run_prog(exe, c[0]), cases)
    nsw = 0
    for (prog, meta), (rc, lines, err) in zip(cases, results):
        ctx.case("runtime\n" + "\n".join(prog), nontrivial=any(" wmap ok " in l for l in lines))
        ctx.count("runtime:kind:" + meta["kind"])
        nw = sum(1 for l in lines if " wmap ok " in l)
        ctx.count("runtime:write mappings checked", nw)
        if meta["kind"] == "avgswitch" and any(l.startswith("W ") and " sink.in wmap ok" in l for l in lines) and any(" filter.in wmap ok" in l or " filt.in wmap ok" in l for l in lines):
            nsw += 1
        for l in lines:
            if l.startswith("V s") and "region-changed-while-mapped" in l:
                ctx.violation("[runtime] a region a reader (sink thread, filter thread or monitoring client) had mapped was modified before the reader "
                              "unmapped it: " + l[:200],
                              {"program": prog, "log_line": l, "how": "python3 fam/pipe/tryprog.py <this file> .build/%s/h_pipe_c02" % ctx.prop},
                              key="runtime-region-changed-while-mapped")
                break
        for l in lines:
            if l.startswith("V s") and "two-writers" in l:
                ctx.violation("[runtime] two threads hold a write mapping of the same queue at once (the channel has one write cursor: both are handed "
                              "the same bytes; the first unmap commits the other's unfinished region, which a reader may then be given): " + l[:200],
                              {"program": prog, "log_line": l, "how": "python3 fam/pipe/tryprog.py <this file> .build/%s/h_pipe_c02" % ctx.prop},
                              key="runtime-two-writers-on-one-queue")
                break
        ctx.traces_validated += 1
    ctx.count("runtime:runs in which the source wrote to both queues (averaging switched while running)", nsw)
    ctx.notes.append("runtime stage: %d whole-runtime runs; the single-writer precondition of the ring theorems held in every one" % n)


def run(ctx):
    if ctx.prop == "C03":
        return run_c03(ctx)
    r = _run_ring(ctx)
    if ctx.prop == "C02":
        runtime_single_writer_stage(ctx)
    return r
