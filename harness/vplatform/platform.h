/* vplatform/platform.h -- drop-in replacement of acquire-core-platform/<os>/platform.h (same API) for the
   deterministic scheduler builds (DESIGN 3(b), Appendix A).  Put this directory FIRST on the include path.
   Threads are coroutines (ucontext) serialised by vsched.c: exactly one runs at a time and control changes
   hands only at scheduling points.  Time is a virtual clock. */
#ifndef H_ACQUIRE_PLATFORM_V0
#define H_ACQUIRE_PLATFORM_V0

#include <stdint.h>
#include <stddef.h>
#include <string.h>
#include <stdarg.h>

#ifdef __cplusplus
extern "C"
{
#endif

    struct thread { int tid_; uint8_t is_live_; };
    struct event { uint8_t state_; int id_; };
    struct lock { int owner_; int id_; };
    struct condition_variable { int id_; };
    struct clock { uint64_t origin; };
    enum AllocatorHint { AllocatorHint_Default, AllocatorHint_LargePage };
    struct file { int fid; };
    struct lib { void* inner; };

    int lib_open(struct lib* self, const char* absolute_path);
    int lib_open_by_name(struct lib* self, const char* name);
    void lib_close(struct lib* self);
    void* lib_load(struct lib* self, const char* name);

    int file_create(struct file* file, const char* filename, size_t bytes_of_filename);
    void file_close(struct file* file);
    int file_write(const struct file* file, uint64_t offset, const uint8_t* beg, const uint8_t* end);
    int file_exists(const char* filename, size_t nbytes);
    int file_is_writable(const char* filename, size_t nbytes);

    void* memory_alloc(size_t capacity_bytes, enum AllocatorHint hint);
    void memory_free(void* address);

    void clock_init(struct clock* clock);
    void clock_shift_ms(struct clock* clock, double ms);
    uint64_t clock_tic(struct clock* clock);
    int64_t clock_toc(struct clock* clock);
    double clock_toc_ms(struct clock* clock);
    int8_t clock_cmp_now(struct clock* clock);
    int8_t clock_cmp(struct clock* clock, uint64_t timestamp);
    void clock_sleep_ms(struct clock* clock, float delay_ms);

    void lock_init(struct lock* self);
    void lock_acquire(struct lock* self);
    int try_lock_acquire(struct lock* self);
    void lock_release(struct lock* self);

    void condition_variable_init(struct condition_variable* self);
    void condition_variable_wait(struct condition_variable* __restrict self, struct lock* __restrict lock);
    void condition_variable_notify_all(struct condition_variable* self);

    void event_init(struct event* self);
    void event_destroy(struct event* self);
    void event_set(struct event* self);
    void event_wait(struct event* self);
    void event_notify_all(struct event* self);

    void thread_init(struct thread* self);
    uint8_t thread_create(struct thread* self, void (*proc)(void*), void* args);
    void thread_join(struct thread* self);

#ifdef __cplusplus
}
#endif

#endif // H_ACQUIRE_PLATFORM_V0
