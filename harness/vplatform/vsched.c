/* vsched.c -- deterministic cooperative scheduler + virtual clock implementing platform.h (DESIGN 3(b)).
   Threads are ucontext coroutines.  Exactly one runs at a time; control changes hands only at scheduling
   points.  An execution is a deterministic function of the schedule (list of choices) and the PRNG seed.
   Deadlock is detected (no enabled thread while some thread has not finished), not timed out. */
#define _GNU_SOURCE
#include "platform.h"
#include "vsched.h"

#include <fcntl.h>
#include <stdio.h>
#include <stdlib.h>
#include <sys/stat.h>
#include <pthread.h>
#include <ucontext.h>
#include <unistd.h>

#if defined(__SANITIZE_ADDRESS__)
void __sanitizer_start_switch_fiber(void** fake_stack_save, const void* bottom, size_t size);
void __sanitizer_finish_switch_fiber(void* fake_stack_save, const void** bottom_old, size_t* size_old);
#define VS_ASAN 1
#else
#define VS_ASAN 0
#endif

#define MAXT 96
#define STACK_SIZE (1u << 19)

struct vthread
{
    ucontext_t ctx;
    void* stack;
    size_t stack_size;
    const void* asan_bottom;
    size_t asan_size;
    void* fake;
    int used, finished, started;
    void (*proc)(void*);
    void* arg;
    int kind; /* where it is parked: enum vs_kind */
    struct lock* lk;
    int cv_id;
    struct event* ev;
    int join_tid;
    int notified;
    int (*pred)(void*);
    void* pred_arg;
    char label[48];
    char name[24];
};

static struct vthread T[MAXT];
static int nthreads = 0;
static int cur = 0;
static struct vs_config cfg;
static size_t steps = 0, sched_pos = 0;
static uint64_t now_ticks = 1000;
static uint64_t rng_state;
static int* trace_tids = 0;
static size_t trace_n = 0, trace_cap = 0;
static int (*stuck_hook)(const char*) = 0;
static int next_obj_id = 1;
static int pct_prio[MAXT];
static size_t pct_change[16];
static int pct_n = 0, pct_low = 0;

static const char* KN[VS_NKINDS] = { "lock", "prewait", "wait", "notify", "evwait", "evset",
                                     "create", "join", "sleep", "dev", "release", "exit" };

static uint64_t
rnd(void)
{
    uint64_t x = rng_state;
    x ^= x << 13;
    x ^= x >> 7;
    x ^= x << 17;
    rng_state = x;
    return x * 0x2545F4914F6CDD1DULL;
}

void
vs_init(const struct vs_config* c)
{
    memset(T, 0, sizeof T);
    cfg = *c;
    if (!cfg.yield_mask)
        cfg.yield_mask = VS_DEFAULT_MASK;
    if (!cfg.max_steps)
        cfg.max_steps = 2000000;
    rng_state = cfg.seed * 0x9E3779B97F4A7C15ULL + 0x1234567ULL;
    if (!rng_state)
        rng_state = 1;
    nthreads = 1;
    cur = 0;
    T[0].used = 1;
    T[0].started = 1;
    T[0].kind = -1;
    snprintf(T[0].name, sizeof T[0].name, "main");
#if VS_ASAN
    {
        pthread_attr_t a;
        void* sp = 0;
        size_t sz = 0;
        if (pthread_getattr_np(pthread_self(), &a) == 0) {
            pthread_attr_getstack(&a, &sp, &sz);
            pthread_attr_destroy(&a);
        }
        T[0].asan_bottom = sp;
        T[0].asan_size = sz;
    }
#endif
    steps = 0;
    sched_pos = 0;
    trace_n = 0;
    now_ticks = 1000;
    for (int i = 0; i < MAXT; ++i)
        pct_prio[i] = (int)(rnd() % 1000) + 100;
    pct_n = cfg.pct_depth > 16 ? 16 : cfg.pct_depth;
    for (int i = 0; i < pct_n; ++i)
        pct_change[i] = (size_t)(rnd() % (cfg.max_steps < 4096 ? cfg.max_steps : 4096));
    pct_low = 0;
}

int vs_self(void) { return cur; }
size_t vs_steps(void) { return steps; }
uint64_t vs_now(void) { return now_ticks; }
void vs_advance(uint64_t t) { now_ticks += t; }
void vs_on_stuck(int (*hook)(const char*)) { stuck_hook = hook; }
int vs_thread_finished(int tid) { return tid >= 0 && tid < nthreads && T[tid].finished; }
int vs_nthreads(void) { return nthreads; }
const char* vs_thread_name(int tid) { return (tid >= 0 && tid < nthreads) ? T[tid].name : "?"; }

void
vs_name(const char* name)
{
    snprintf(T[cur].name, sizeof T[cur].name, "%s", name);
}

void
vs_log(const char* fmt, ...)
{
    if (!cfg.trace)
        return;
    va_list ap;
    va_start(ap, fmt);
    printf("E %d ", cur);
    vprintf(fmt, ap);
    printf("\n");
    va_end(ap);
}

int
vs_wake_all(void)
{
    int n = 0;
    for (int i = 0; i < nthreads; ++i)
        if (T[i].used && !T[i].finished && T[i].kind == VS_WAIT && !T[i].notified) {
            T[i].notified = 1;
            n++;
        }
    return n;
}

void
vs_dump_schedule(void)
{
    printf("SCHEDULE");
    for (size_t i = 0; i < trace_n; ++i)
        printf(" %d", trace_tids[i]);
    printf("\n");
}

static int
enabled(const struct vthread* t)
{
    if (!t->used || t->finished)
        return 0;
    switch (t->kind) {
        case VS_LOCK:
            return t->lk->owner_ < 0;
        case VS_WAIT:
            return (t->notified || cfg.allow_spurious) && t->lk->owner_ < 0;
        case VS_EVWAIT:
            return t->ev->state_ != 0;
        case VS_JOIN:
            return t->join_tid < 0 || T[t->join_tid].finished;
        case VS_DEV:
            return t->pred ? t->pred(t->pred_arg) : 1;
        default:
            return 1;
    }
}

static void
stuck(const char* why)
{
    fflush(stdout);
    printf("%s steps=%zu\n", why, steps);
    for (int i = 0; i < nthreads; ++i) {
        if (!T[i].used)
            continue;
        printf("  T%d %-10s %s at %s %s%s\n", i, T[i].name,
               T[i].finished ? "finished" : (enabled(&T[i]) ? "enabled" : "BLOCKED"),
               T[i].kind >= 0 ? KN[T[i].kind] : "-", T[i].label,
               (T[i].kind == VS_WAIT && !T[i].notified) ? " (not notified)" : "");
    }
    vs_dump_schedule();
    if (stuck_hook && stuck_hook(why)) {
        fflush(stdout);
        return; /* the hook changed something (e.g. vs_wake_all): try again */
    }
    fflush(stdout);
    _exit(why[0] == 'D' ? 42 : 43);
}

static void
record(int tid)
{
    if (trace_n == trace_cap) {
        trace_cap = trace_cap ? trace_cap * 2 : 4096;
        trace_tids = (int*)realloc(trace_tids, trace_cap * sizeof(int));
    }
    trace_tids[trace_n++] = tid;
}

static int
choose(void)
{
    int en[MAXT], n = 0;
    for (int attempt = 0; attempt < 2; ++attempt) {
        int real = 0; /* enabled for a reason other than a spurious wake-up */
        n = 0;
        for (int i = 0; i < nthreads; ++i)
            if (enabled(&T[i])) {
                en[n++] = i;
                if (!(T[i].kind == VS_WAIT && !T[i].notified))
                    real++;
            }
        if (real > 0)
            break;
        /* nobody can make progress except by waking spuriously and finding its condition unchanged */
        int unfinished = 0;
        for (int i = 0; i < nthreads; ++i)
            if (T[i].used && !T[i].finished)
                unfinished++;
        if (attempt == 1)
            stuck_hook = 0;
        stuck(unfinished ? "DEADLOCK" : "ALLDONE");
    }
    if (++steps > cfg.max_steps)
        stuck("STEPLIMIT");
    int pick;
    if (sched_pos < cfg.nschedule) {
        int c = cfg.schedule[sched_pos++];
        if (cfg.mode == 1) {
            pick = -1;
            for (int i = 0; i < n; ++i)
                if (en[i] == c)
                    pick = c;
            if (pick < 0) {
                printf("REPLAY-DIVERGED step=%zu wanted=T%d\n", steps, c);
                stuck("DIVERGED");
            }
        } else {
            pick = en[(unsigned)c % (unsigned)n];
        }
    } else if (pct_n > 0) {
        for (int i = 0; i < pct_n; ++i)
            if (pct_change[i] == steps && enabled(&T[cur]))
                pct_prio[cur] = pct_low--;
        if (cfg.pct_aging && steps % cfg.pct_aging == 0 && enabled(&T[cur]))
            pct_prio[cur] = pct_low--;
        pick = en[0];
        for (int i = 1; i < n; ++i)
            if (pct_prio[en[i]] > pct_prio[pick])
                pick = en[i];
    } else {
        pick = en[rnd() % (uint64_t)n];
    }
    record(pick);
    if (cfg.trace >= 2)
        printf("N %d\n", n); /* number of enabled threads at this step (for exhaustive exploration) */
    if (cfg.trace) {
        struct vthread* t = &T[pick];
        printf("S %d %s %s%s\n", pick, t->kind >= 0 ? KN[t->kind] : "start", t->label,
               (t->kind == VS_WAIT && !t->notified) ? " spurious" : "");
    }
    return pick;
}

static void
switch_to(int next, int dying)
{
    int prev = cur;
    if (next == prev)
        return;
    cur = next;
#if VS_ASAN
    __sanitizer_start_switch_fiber(dying ? 0 : &T[prev].fake, T[next].asan_bottom, T[next].asan_size);
#endif
    if (dying)
        setcontext(&T[next].ctx);
    else
        swapcontext(&T[prev].ctx, &T[next].ctx);
#if VS_ASAN
    {
        const void* ob;
        size_t os;
        __sanitizer_finish_switch_fiber(T[cur].fake, &ob, &os);
    }
#endif
}

/* Park the running thread at a scheduling point of the given kind and let the scheduler choose. */
static void
point(int kind, const char* label)
{
    struct vthread* t = &T[cur];
    t->kind = kind;
    snprintf(t->label, sizeof t->label, "%s", label ? label : "");
    if (!(cfg.yield_mask & (1u << kind)) && enabled(t)) {
        t->kind = -1;
        return; /* not a scheduling point in this configuration and no need to block */
    }
    int next = choose();
    switch_to(next, 0);
    T[cur].kind = -1;
}

static void
tramp(void)
{
#if VS_ASAN
    {
        const void* ob;
        size_t os;
        __sanitizer_finish_switch_fiber(0, &ob, &os);
    }
#endif
    struct vthread* t = &T[cur];
    t->kind = -1;
    t->proc(t->arg);
    point(VS_EXIT, "");
    if (cfg.events)
        printf("T %d exit\n", cur);
    T[cur].finished = 1;
    int next = choose();
    switch_to(next, 1);
    abort();
}

/* ------------------------------------------------------------------ platform.h: threads */
void
thread_init(struct thread* self)
{
    self->tid_ = -1;
    self->is_live_ = 0;
}

uint8_t
thread_create(struct thread* self, void (*proc)(void*), void* args)
{
    if (nthreads >= MAXT) {
        printf("FATAL too many threads\n");
        _exit(44);
    }
    int id = nthreads++;
    struct vthread* t = &T[id];
    memset(t, 0, sizeof *t);
    t->used = 1;
    t->proc = proc;
    t->arg = args;
    t->kind = VS_CREATE; /* a created thread is parked at its start: always enabled */
    t->stack_size = STACK_SIZE;
    t->stack = malloc(STACK_SIZE);
    t->asan_bottom = t->stack;
    t->asan_size = STACK_SIZE;
    snprintf(t->name, sizeof t->name, "t%d", id);
    snprintf(t->label, sizeof t->label, "start");
    getcontext(&t->ctx);
    t->ctx.uc_stack.ss_sp = t->stack;
    t->ctx.uc_stack.ss_size = STACK_SIZE;
    t->ctx.uc_link = 0;
    makecontext(&t->ctx, tramp, 0);
    self->tid_ = id;
    self->is_live_ = 1;
    if (cfg.events)
        printf("T %d create %d\n", cur, id);
    return 1;
}

void
thread_join(struct thread* self)
{
    if (self->is_live_) {
        struct vthread* t = &T[cur];
        t->join_tid = self->tid_;
        point(VS_JOIN, T[self->tid_].name);
        if (cfg.events)
            printf("T %d joined %d\n", cur, self->tid_);
        self->is_live_ = 0;
    }
}

/* ------------------------------------------------------------------ locks and conditions */
void
lock_init(struct lock* self)
{
    self->owner_ = -1;
    self->id_ = next_obj_id++;
}

void
lock_acquire(struct lock* self)
{
    char lb[24];
    snprintf(lb, sizeof lb, "L%d", self->id_);
    T[cur].lk = self;
    point(VS_LOCK, lb);
    if (self->owner_ >= 0) {
        printf("FATAL lock L%d taken while owned by T%d\n", self->id_, self->owner_);
        _exit(45);
    }
    self->owner_ = cur;
}

int
try_lock_acquire(struct lock* self)
{
    if (self->owner_ >= 0)
        return 0;
    self->owner_ = cur;
    return 1;
}

void
lock_release(struct lock* self)
{
    if (self->owner_ != cur) {
        printf("FATAL lock L%d released by T%d but owned by T%d\n", self->id_, cur, self->owner_);
        _exit(46);
    }
    self->owner_ = -1;
    point(VS_RELEASE, "");
}

void
condition_variable_init(struct condition_variable* self)
{
    self->id_ = next_obj_id++;
}

void
condition_variable_wait(struct condition_variable* __restrict self, struct lock* __restrict lock)
{
    char lb[24];
    snprintf(lb, sizeof lb, "C%d", self->id_);
    point(VS_PREWAIT, lb); /* the caller still holds the lock here */
    if (lock->owner_ != cur) {
        printf("FATAL condition wait without holding the lock\n");
        _exit(47);
    }
    lock->owner_ = -1; /* atomic release-and-wait */
    T[cur].lk = lock;
    T[cur].cv_id = self->id_;
    T[cur].notified = 0;
    point(VS_WAIT, lb);
    T[cur].cv_id = 0;
    lock->owner_ = cur;
}

void
condition_variable_notify_all(struct condition_variable* self)
{
    char lb[24];
    snprintf(lb, sizeof lb, "C%d", self->id_);
    point(VS_NOTIFY, lb);
    for (int i = 0; i < nthreads; ++i)
        if (T[i].used && !T[i].finished && T[i].kind == VS_WAIT && T[i].cv_id == self->id_)
            T[i].notified = 1;
}

/* ------------------------------------------------------------------ events */
void
event_init(struct event* self)
{
    self->state_ = 0;
    self->id_ = next_obj_id++;
}
void event_destroy(struct event* self) { (void)self; }

void
event_notify_all(struct event* self)
{
    char lb[24];
    snprintf(lb, sizeof lb, "E%d", self->id_);
    point(VS_EVSET, lb);
    self->state_ = 1;
}
void event_set(struct event* self) { event_notify_all(self); }

void
event_wait(struct event* self)
{
    char lb[24];
    snprintf(lb, sizeof lb, "E%d", self->id_);
    T[cur].ev = self;
    point(VS_EVWAIT, lb);
    self->state_ = 0;
}

/* ------------------------------------------------------------------ explicit points */
void
vs_point(const char* label)
{
    T[cur].pred = 0;
    point(VS_DEV, label);
}

void
vs_block_until(int (*pred)(void*), void* arg, const char* label)
{
    T[cur].pred = pred;
    T[cur].pred_arg = arg;
    point(VS_DEV, label);
    T[cur].pred = 0;
}

/* ------------------------------------------------------------------ virtual clock (1 tick = 1 us) */
#define TICK() (now_ticks += (cfg.clock_step ? cfg.clock_step : 1))
void clock_init(struct clock* c) { c->origin = TICK(); }
void clock_shift_ms(struct clock* c, double ms) { c->origin = (uint64_t)((int64_t)c->origin + (int64_t)(ms * 1000.0)); }
uint64_t
clock_tic(struct clock* c)
{
    uint64_t t = TICK();
    if (c)
        c->origin = t;
    return t;
}
int64_t clock_toc(struct clock* c) { return (int64_t)(TICK()) - (int64_t)c->origin; }
double clock_toc_ms(struct clock* c) { return (double)clock_toc(c) / 1000.0; }
int8_t
clock_cmp(struct clock* c, uint64_t ts)
{
    return ts < c->origin ? -1 : ts > c->origin ? 1 : 0;
}
int8_t clock_cmp_now(struct clock* c) { return clock_cmp(c, TICK()); }
void
clock_sleep_ms(struct clock* c, float delay_ms)
{
    char lb[24];
    snprintf(lb, sizeof lb, "%g", (double)delay_ms);
    if (pct_n > 0)
        pct_prio[cur] = pct_low--; /* a polling thread must not starve the others under priority scheduling */
    point(VS_SLEEP, lb);
    uint64_t d = (uint64_t)(delay_ms > 0 ? delay_ms * 1000.0f : 0);
    if (c) {
        uint64_t target = c->origin + d;
        if (now_ticks < target)
            now_ticks = target;
        c->origin = ++now_ticks;
    } else {
        now_ticks += d + 1;
    }
}

/* ------------------------------------------------------------------ memory, files, libraries */
void* memory_alloc(size_t n, enum AllocatorHint hint) { (void)hint; return malloc(n); }
void memory_free(void* p) { free(p); }

int
file_create(struct file* file, const char* filename, size_t bytes_of_filename)
{
    (void)bytes_of_filename;
    file->fid = open(filename, O_RDWR | O_CREAT, 0666);
    return file->fid >= 0;
}
void file_close(struct file* file) { close(file->fid); }
int
file_write(const struct file* file, uint64_t offset, const uint8_t* beg, const uint8_t* end)
{
    while (beg < end) {
        ssize_t n = pwrite(file->fid, beg, (size_t)(end - beg), (off_t)offset);
        if (n <= 0)
            return 0;
        beg += n;
        offset += (uint64_t)n;
    }
    return 1;
}
int file_exists(const char* filename, size_t nbytes) { (void)nbytes; return access(filename, F_OK) == 0; }
int file_is_writable(const char* filename, size_t nbytes) { (void)nbytes; return access(filename, W_OK) == 0; }

struct vlib_entry { char name[64]; void* (*load)(const char*); };
static struct vlib_entry libs[16];
static int nlibs = 0;
void
vs_register_lib(const char* name, void* (*load)(const char* symbol))
{
    snprintf(libs[nlibs].name, sizeof libs[nlibs].name, "%s", name);
    libs[nlibs++].load = load;
}
int
lib_open_by_name(struct lib* self, const char* name)
{
    for (int i = 0; i < nlibs; ++i)
        if (strcmp(libs[i].name, name) == 0) {
            self->inner = (void*)&libs[i];
            return 1;
        }
    self->inner = 0;
    return 0;
}
int lib_open(struct lib* self, const char* path) { (void)path; self->inner = 0; return 0; }
void lib_close(struct lib* self) { if (self) self->inner = 0; }
void*
lib_load(struct lib* self, const char* name)
{
    if (!self || !self->inner || !name)
        return 0;
    return ((struct vlib_entry*)self->inner)->load(name);
}
