/* vsched.h -- harness-side API of the deterministic cooperative scheduler. */
#ifndef VSCHED_H
#define VSCHED_H
#include <stdint.h>
#include <stddef.h>
#ifdef __cplusplus
extern "C" {
#endif

enum vs_kind {            /* scheduling-point kinds (Appendix A of DESIGN.md) */
    VS_LOCK = 0,          /* lock_acquire: enabled when the lock is free */
    VS_PREWAIT,           /* entry of condition_variable_wait, lock still held */
    VS_WAIT,              /* parked on a condition; enabled when notified (or spuriously, if allowed) and the lock is free */
    VS_NOTIFY,            /* condition_variable_notify_all */
    VS_EVWAIT,            /* event_wait: enabled when the event is set */
    VS_EVSET,             /* event_set / event_notify_all */
    VS_CREATE,            /* thread_create */
    VS_JOIN,              /* thread_join: enabled when the target finished */
    VS_SLEEP,             /* clock_sleep_ms: always enabled; advances the virtual clock */
    VS_DEV,               /* explicit point (mock devices, harness): vs_point / vs_block_until */
    VS_RELEASE,           /* lock_release (off by default) */
    VS_EXIT,
    VS_NKINDS
};

struct vs_config {
    uint32_t yield_mask;        /* bit k set: kind k is a scheduling point at which another thread may be chosen */
    int allow_spurious;         /* condition waits may wake without a notify */
    uint64_t seed;              /* PRNG for choices beyond the explicit schedule */
    const int* schedule;        /* explicit choices (see mode) */
    size_t nschedule;
    int mode;                   /* 0: choice c picks enabled[c % nenabled];  1: choice is a thread id (replay; must be enabled) */
    size_t max_steps;           /* livelock guard */
    int trace;                  /* 1: print one line per step to the trace stream */
    int pct_depth;              /* >0: PCT priorities with this many change points (over max_steps/16 steps) */
    int events;                 /* 1: print "T <tid> create <new>" / "T <tid> exit" / "T <tid> joined <target>" lines (stdout) */
    uint64_t clock_step;        /* ticks the virtual clock advances per clock read (0 = 1): larger steps shorten busy-wait delay loops */
    size_t pct_aging;           /* >0: under PCT the running thread drops to the lowest priority every pct_aging steps, so that no
                                   enabled thread is starved for ever (PCT alone is unfair; a starved thread is not a hang of the code) */
};

#define VS_DEFAULT_MASK ((1u<<VS_LOCK)|(1u<<VS_PREWAIT)|(1u<<VS_WAIT)|(1u<<VS_EVWAIT)|(1u<<VS_CREATE)|(1u<<VS_JOIN)|(1u<<VS_SLEEP)|(1u<<VS_DEV)|(1u<<VS_EXIT))

void vs_init(const struct vs_config* cfg);
int vs_self(void);                        /* id of the running thread (0 = the harness' main thread) */
void vs_name(const char* name);           /* name the running thread (for traces) */
const char* vs_thread_name(int tid);
void vs_point(const char* label);         /* explicit scheduling point (kind VS_DEV) */
void vs_block_until(int (*pred)(void*), void* arg, const char* label); /* VS_DEV point, enabled only when pred(arg) */
void vs_log(const char* fmt, ...);        /* append an event line "E <tid> <text>" to the trace */
uint64_t vs_now(void);                    /* virtual clock, ticks (1 tick = 1 microsecond) */
void vs_advance(uint64_t ticks);
size_t vs_steps(void);
/* outcome reporting: on deadlock / step limit the scheduler prints "DEADLOCK ..." / "STEPLIMIT ..." with the
   state of every thread and the thread-id schedule so far, then calls the hook (if any) and exits with code 42/43 */
void vs_on_stuck(int (*hook)(const char* why)); /* return non-zero to resume scheduling (after vs_wake_all) */
int vs_wake_all(void);                    /* probe: deliver a (spurious) wake-up to every parked thread; returns how many */
void vs_dump_schedule(void);              /* print "SCHEDULE t0 t1 ..." (thread ids, replayable with mode 1) */
int vs_thread_finished(int tid);
int vs_nthreads(void);
/* library injection: lib_open_by_name(name) succeeds iff a table was registered under that name */
void vs_register_lib(const char* name, void* (*load)(const char* symbol));

#ifdef __cplusplus
}
#endif
#endif
