#!/usr/bin/env python3
"""Run every seeded change (seeded/<id>/patch.diff) against the quick check of its property and write seeded/MATRIX.md.
Applies the patch to /repo, runs the check, undoes the patch straight afterwards.  Nothing else may use /repo meanwhile.
usage: python3 tools/seeded_matrix.py [id ...]"""
import json
import os
import re
import subprocess
import sys
import time

V = os.path.dirname(os.path.dirname(os.path.abspath(__file__)))
R = "/repo"


def sh(cmd, **kw):
    return subprocess.run(cmd, shell=isinstance(cmd, str), stdout=subprocess.PIPE, stderr=subprocess.STDOUT, text=True, **kw)


def main():
    ids = sys.argv[1:] or sorted(d for d in os.listdir(os.path.join(V, "seeded")) if os.path.isdir(os.path.join(V, "seeded", d)))
    rows = []
    if sh(["git", "-C", R, "status", "--porcelain", "--untracked-files=no"]).stdout.strip():
        sys.exit("tracked files of /repo are modified: refusing to run")
    for sid in ids:
        d = os.path.join(V, "seeded", sid)
        meta = json.load(open(os.path.join(d, "meta.json")))
        prop = meta.get("property", sid.split("-")[0])
        t0 = time.time()
        a = sh(["git", "-C", R, "apply", os.path.join(d, "patch.diff")])
        if a.returncode != 0:
            rows.append((sid, prop, "patch does not apply: " + a.stdout[-200:], "", 0))
            continue
        try:
            r = sh(["python3", "tools/check.py", "--property", prop, "--tier", "quick"], cwd=V, timeout=3000)
            out = r.stdout
        except subprocess.TimeoutExpired:
            out = "TIMEOUT"
        finally:
            sh(["git", "-C", R, "checkout", "--", "."])
        viol = [l for l in out.split("\n") if l.startswith("VIOLATION")]
        what = [l.strip()[3:].strip() for l in out.split("\n") if l.startswith("  -> ")]
        concrete = [v for v in viol if "no-failing-input-found" not in v]
        verdict = "caught, concrete replay" if concrete else ("caught, no failing input found (proof/tie broken)" if viol else "MISSED")
        rows.append((sid, prop, verdict, "; ".join(w[:260] for w in what[:3]), time.time() - t0))
        print("%-7s %-4s %-50s %.0fs" % (sid, prop, verdict, time.time() - t0), flush=True)
        meta["check_result"] = {"verdict": verdict, "violation_lines": len(viol), "first_messages": what[:3],
                                "command": "git -C /repo apply seeded/%s/patch.diff; python3 tools/check.py --property %s --tier quick; git -C /repo checkout -- ." % (sid, prop)}
        json.dump(meta, open(os.path.join(d, "meta.json"), "w"), indent=1)
    old = {}
    mp = os.path.join(V, "seeded", "MATRIX.md")
    if os.path.exists(mp) and sys.argv[1:]:
        for l in open(mp):
            m = re.match(r"\| (\S+) \|", l)
            if m and m.group(1) not in ("id", "---"):
                old[m.group(1)] = l
    with open(mp, "w") as f:
        f.write("# Seeded changes against the quick checks (written by tools/seeded_matrix.py)\n\n")
        f.write("Each row: the change is applied to /repo (`git -C /repo apply seeded/<id>/patch.diff`), the property's quick check is run, the change is undone.\n\n")
        f.write("| id | property | result | what the check reports (first messages) |\n|---|---|---|---|\n")
        new = {r[0]: "| %s | %s | %s | %s |\n" % (r[0], r[1], r[2], r[3].replace("|", "/")) for r in rows}
        old.update(new)
        for k in sorted(old):
            f.write(old[k])


if __name__ == "__main__":
    main()
