#!/usr/bin/env python3
"""Run every seeded change (seeded/<id>/patch.diff) against the quick check of its property and write seeded/MATRIX.md.
By default the patch is applied in a scratch worktree of /repo's HEAD (outside /repo and /verif, removed afterwards) and the
check is pointed at it with VERIF_REPO, so that /repo is never touched and other runs are not disturbed; with --in-repo the
patch is applied to /repo itself, the check run, and the patch undone straight afterwards (nothing else may use /repo meanwhile).
usage: python3 tools/seeded_matrix.py [--in-repo] [id ...]"""
import json
import os
import re
import subprocess
import sys
import time

V = os.path.dirname(os.path.dirname(os.path.abspath(__file__)))
R = "/repo"


def sh(cmd, **kw):
    return subprocess.run(cmd, shell=isinstance(cmd, str), stdout=subprocess.PIPE, stderr=subprocess.STDOUT, text=True, **kw)


def main():
    in_repo = "--in-repo" in sys.argv
    sys.argv = [a for a in sys.argv if a != "--in-repo"]
    global R
    wt = None
    if not in_repo:
        wt = "/tmp/seeded-matrix-wt"
        sh(["git", "-C", "/repo", "worktree", "remove", "--force", wt])
        if sh(["git", "-C", "/repo", "worktree", "add", "--detach", wt]).returncode != 0:
            sys.exit("cannot create the scratch worktree")
        R = wt
    try:
        run(in_repo)
    finally:
        if wt:
            sh(["git", "-C", "/repo", "worktree", "remove", "--force", wt])


def run(in_repo):
    ids = sys.argv[1:] or sorted(d for d in os.listdir(os.path.join(V, "seeded")) if os.path.isfile(os.path.join(V, "seeded", d, "meta.json")))
    rows = []
    if sh(["git", "-C", R, "status", "--porcelain", "--untracked-files=no"]).stdout.strip():
        sys.exit("tracked files of %s are modified: refusing to run" % R)
    for sid in ids:
        d = os.path.join(V, "seeded", sid)
        meta = json.load(open(os.path.join(d, "meta.json")))
        prop = meta.get("property", sid.split("-")[0])
        t0 = time.time()
        a = sh(["git", "-C", R, "apply", os.path.join(d, "patch.diff")])
        if a.returncode != 0:
            rows.append((sid, prop, "patch does not apply: " + a.stdout[-200:], "", 0))
            continue
        try:
            env = dict(os.environ)
            if not in_repo:
                env["VERIF_REPO"] = R
            r = sh(["python3", "tools/check.py", "--property", prop, "--tier", "quick"], cwd=V, timeout=3000, env=env)
            out = r.stdout
        except subprocess.TimeoutExpired:
            out = "TIMEOUT"
        finally:
            sh(["git", "-C", R, "checkout", "--", "."])
        viol = [l for l in out.split("\n") if l.startswith("VIOLATION")]
        what = [l.strip()[3:].strip() for l in out.split("\n") if l.startswith("  -> ")]
        concrete = [v for v in viol if "no-failing-input-found" not in v]
        verdict = "caught, concrete replay" if concrete else ("caught, no failing input found (proof/tie broken)" if viol else "MISSED")
        rows.append((sid, prop, verdict, "; ".join(w[:260] for w in what[:3]), time.time() - t0))
        print("%-7s %-4s %-50s %.0fs" % (sid, prop, verdict, time.time() - t0), flush=True)
        meta["check_result"] = {"verdict": verdict, "violation_lines": len(viol), "first_messages": what[:3],
                                "command": "git -C /repo apply seeded/%s/patch.diff; python3 tools/check.py --property %s --tier quick; git -C /repo checkout -- ." % (sid, prop)}
        json.dump(meta, open(os.path.join(d, "meta.json"), "w"), indent=1)
    old = {}
    mp = os.path.join(V, "seeded", "MATRIX.md")
    if os.path.exists(mp) and sys.argv[1:]:
        for l in open(mp):
            m = re.match(r"\| (\S+) \|", l)
            if m and m.group(1) not in ("id", "---"):
                old[m.group(1)] = l
    with open(mp, "w") as f:
        f.write("# Seeded changes against the quick checks (written by tools/seeded_matrix.py)\n\n")
        f.write("Each row: the change is applied (`git apply seeded/<id>/patch.diff`) to /repo's HEAD -- in a scratch worktree the check is pointed at with VERIF_REPO, or, with --in-repo, to /repo itself and undone straight afterwards --, and the property's quick check is run.\n\n")
        f.write("| id | property | result | what the check reports (first messages) |\n|---|---|---|---|\n")
        new = {r[0]: "| %s | %s | %s | %s |\n" % (r[0], r[1], r[2], r[3].replace("|", "/")) for r in rows}
        old.update(new)
        for k in sorted(old):
            f.write(old[k])


if __name__ == "__main__":
    main()
