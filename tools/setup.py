#!/usr/bin/env python3
"""MANIFEST.setup_cmd: build every family's Coq project (full .vo build), gate it, extract and compile the oracles."""
import json
import os
import sys
import time

sys.path.insert(0, os.path.dirname(os.path.abspath(__file__)))
import vlib  # noqa: E402


def main():
    reg = json.load(open(os.path.join(vlib.VERIF, "tools", "families.json")))
    only = sys.argv[1:]
    bad = 0

    def build(item):
        fam, props = item
        t0 = time.time()
        ctx = vlib.Ctx("_setup_" + fam, fam)
        cd = ctx.coqdir
        targets = sorted(f[:-2] for f in os.listdir(cd) if f.startswith("Properties_") and f.endswith(".v"))
        ok = ctx.coq_prove(targets, timeout=3000)
        try:
            if os.path.exists(os.path.join(ctx.famdir, "oracle", "main.ml")):
                ctx.oracle_build()
        except vlib.BuildError as e:
            ok = False
            ctx.broken.append(("oracle build", str(e)))
        return fam, ok, ctx, time.time() - t0

    # the slowest families first; four at a time (each make runs its own files in parallel)
    order = sorted(((f, p) for f, p in reg.items() if not only or f in only), key=lambda x: {"pipe": 0, "simsync": 1, "hal": 2}.get(x[0], 9))
    from concurrent.futures import ThreadPoolExecutor
    with ThreadPoolExecutor(max_workers=4) as ex:
        for fam, ok, ctx, dt in ex.map(build, order):
            print("[setup] %-10s %s  %d/%d obligations  %.1fs" % (fam, "ok" if ok else "FAILED", ctx.discharged, ctx.obligations, dt), flush=True)
            for w, d in ctx.broken:
                print("   broken: %s :: %s" % (w, d[:1500]))
                bad += 1
    sys.exit(1 if bad else 0)


if __name__ == "__main__":
    main()
