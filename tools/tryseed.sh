#!/bin/bash
# usage: tools/tryseed.sh <patch.diff> <property> [tier]   -- apply a seeded change to /repo, run the property's check, undo the change
set -u
P=$1; PROP=$2; TIER=${3:-quick}
cd /verif
git -C /repo apply "$P" || { echo "patch does not apply"; exit 2; }
timeout 3000 python3 tools/check.py --property $PROP --tier $TIER 2>&1 | grep -v '^WARNING' | tail -${TAIL:-12}
git -C /repo checkout -- .
git -C /repo status --short | grep -v _build
