#!/usr/bin/env python3
"""Regenerates MANIFEST.json from the table below (kept here so the manifest stays valid and uniform)."""
import json
import os

V = os.path.dirname(os.path.dirname(os.path.abspath(__file__)))

TB = ("Trusted: Coq 8.16.1 kernel + vm_compute (no native_compute); extraction (ExtrOcamlBasic/ExtrOcamlString) and OCaml 4.13.1; "
      "the hand-written oracle driver, C harness, gcc/ASan and Python glue of the correspondence check, which is bounded differential "
      "testing of the model against the code compiled from /repo's working tree, not proof. ")

CHECKS = {
    "C01": dict(
        family="ring", design="6.1",
        text="Machine-checked proof (Coq, induction over arbitrary well-formed operation histories, any capacity, up to 8 readers) that the "
             "ring model delivers to every reader exactly the committed log from its join boundary on (stream_exact), that a read hands out "
             "the next unread bytes and that an empty read means drained; the model (ChanModel.v, channel.c field by field) is tied to the "
             "code on every run by executing the extracted model and the real channel.c on thousands of generated histories and comparing "
             "every result, every field and the buffer contents; an independent oracle over the implementation's outputs turns a broken tie "
             "into a concrete failing history.",
        note=TB + "Modelled, not verified: one writer at a time; locks/condition variables (stub platform.h in this sequential harness); "
             "size_t arithmetic as unbounded Z (64-bit wrap of the lap counter not modelled). Axioms: none (all theorems closed under the global context).",
        technique="Coq proof of a ring invariant + log-refinement by induction over histories; extracted-model vs real channel.c differential"),
    "C02": dict(
        family="ring", design="6.2",
        text="Machine-checked proof that in every reachable state the writer's mapped region is contiguous, inside the buffer and disjoint from "
             "every byte any reader has mapped or not yet consumed (including exactly-full and empty-at-wrap states), that a mapped slice is "
             "committed data and that no operation changes an unread cell (slice_stable over any op sequence); tied to the code by the same "
             "differential run as C01 with a scribbling writer (0xEE over every region at once), slice copies compared at unmap, and ASan.",
        note=TB + "Same modelling assumptions as C01. A consumer reading after its unmap is out of scope. Axioms: none.",
        technique="Coq invariant proof (region/unread disjointness, cell stability); differential with scribbling writer + ASan"),
    "C03": dict(
        family="ring", design="6.3",
        text="Machine-checked proof over an interleaving model of channel.c's blocking protocol (one transition per block between "
             "scheduling points; every schedule of any length, with or without spurious wake-ups): no lost wake-up (a writer asleep "
             "without a pending notification still has a true wait condition), a parked writer whose request can proceed has been "
             "notified and returns on its next own step, refusal never leaves the writer asleep, the lock is always released, a request "
             "below capacity fits once readers are drained, and readers drain within two rounds. Tied to the code on every run by "
             "executing the real channel.c under a deterministic coroutine scheduler (harness/vplatform) and the extracted model in "
             "lock-step on thousands of scripts x schedules; the oracle probes every deadlock with a spurious wake-up.",
        note=TB + "Modelled, not verified: pthread mutex/condvar semantics (vplatform replaces platform.c: mutual exclusion, atomic "
             "release-and-wait, broadcast wakes all waiters), OS fairness (eventual scheduling of an enabled thread), sequential consistency at "
             "block granularity (C11 races / x86-TSO not modelled), one writer thread, readers registered before the concurrent phase. Axioms: none.",
        technique="Coq invariant over an interleaving system (all schedules) + bounded-progress lemmas; lock-step replay of the real code under a deterministic scheduler"),
    "C11": dict(
        family="hal", design="6.11",
        text="Machine-checked proof (Coq, induction over every finite HAL call sequence and every driver response sequence incl. unknown "
             "status codes and NULL function pointers) over an executable model of all exported functions of hal/camera.c, hal/storage.c and "
             "driver.c that emits driver calls and every read/write of the device object: stop/get_frame/append only in Running, exactly "
             "one close per successful open and no event on the object afterwards (not even a memory write), reported state = fold of a "
             "table over the driver's responses. Tied to the code on every run by running the real HAL against a scripted mock driver "
             "whose close frees the object (ASan) on 30k random + all length-4 sequences and comparing call logs, return codes and states "
             "with the extracted model; an independent protocol automaton over the mock's log finds concrete failing sequences.",
        note=TB + "Modelled, not verified: one client handle at a time; concurrency on the state field; device.manager.cpp/loader.c are "
             "replaced by a stub handing out the mock driver. Stated reading for storage: 'started' = the state the driver last returned. Axioms: none.",
        technique="Coq proof by induction over call/response histories of a HAL model; differential vs the real HAL with a freeing mock driver under ASan"),
}

NOT_APPLICABLE = []


def main():
    man = {
        "version": 1,
        "setup_cmd": "python3 tools/setup.py",
        "hooks": {
            "guard": "ACQUIRE_VERIF_HOOKS",
            "enable": "no hook is needed: checks compile the unmodified sources of /repo's working tree against substituted platform headers (harness/vplatform, fam/*/harness/stubplat), renamed allocator symbols and --wrap'ed system calls",
            "baseline_off_cmd": "cmake -G Ninja -B /repo/_build -S /repo && cmake --build /repo/_build && ctest --test-dir /repo/_build -j8 --timeout 900",
            "source_commits": [],
            "add_only": True,
        },
        "engines": [],
        "checks": [],
        "notes": "Every check: python3 tools/check.py --property <id> --tier quick|thorough (prove -> build from /repo -> corpus -> correspond -> oracle search -> known findings -> evidence). See DESIGN.md.",
        "not_applicable": NOT_APPLICABLE,
    }
    fams = {}
    for pid, c in sorted(CHECKS.items()):
        fams.setdefault(c["family"], []).append(pid)
        man["checks"].append({
            "property_id": pid,
            "quick_cmd": "python3 tools/check.py --property %s --tier quick" % pid,
            "thorough_cmd": "python3 tools/check.py --property %s --tier thorough" % pid,
            "evidence_file": "evidence/%s.json" % pid,
            "replay_cmd_template": "python3 tools/check.py --property %s --replay {path}" % pid,
            "engine": c["family"],
            "level_claimed": {"category": "proof", "text": c["text"], "design_ref": "DESIGN.md section " + c["design"]},
            "level_note": c["note"],
            "technique": c["technique"],
        })
    for f, ps in sorted(fams.items()):
        man["engines"].append({"name": f, "path": "fam/" + f, "serves_properties": ps,
                               "kind_free_text": "Coq model + theorems (fam/%s/coq), extracted OCaml oracle, C harness over the real sources, Python driver" % f})
    with open(os.path.join(V, "MANIFEST.json"), "w") as fh:
        json.dump(man, fh, indent=1)
    print("MANIFEST.json: %d checks" % len(man["checks"]))


if __name__ == "__main__":
    main()
