#!/usr/bin/env python3
"""Regenerates MANIFEST.json from the table below (kept here so the manifest stays valid and uniform)."""
import json
import os

V = os.path.dirname(os.path.dirname(os.path.abspath(__file__)))

TB = ("Trusted: Coq 8.16.1 kernel + vm_compute (no native_compute); extraction (ExtrOcamlBasic/ExtrOcamlString) and OCaml 4.13.1; "
      "the hand-written oracle driver, C harness, gcc/ASan and Python glue of the correspondence check, which is bounded differential "
      "testing of the model against the code compiled from /repo's working tree, not proof. ")

CHECKS = {
    "C01": dict(
        family="ring", design="6.1",
        text="Machine-checked proof (Coq, induction over arbitrary well-formed operation histories, any capacity, up to 8 readers) that the "
             "ring model delivers to every reader exactly the committed log from its join boundary on (stream_exact), that a read hands out "
             "the next unread bytes and that an empty read means drained; the model (ChanModel.v, channel.c field by field) is tied to the "
             "code on every run by executing the extracted model and the real channel.c on thousands of generated histories and comparing "
             "every result, every field and the buffer contents; an independent oracle over the implementation's outputs turns a broken tie "
             "into a concrete failing history.",
        note=TB + "Modelled, not verified: one writer at a time; locks/condition variables (stub platform.h in this sequential harness); "
             "size_t arithmetic as unbounded Z (64-bit wrap of the lap counter not modelled). Axioms: none (all theorems closed under the global context).",
        technique="Coq proof of a ring invariant + log-refinement by induction over histories; extracted-model vs real channel.c differential"),
    "C02": dict(
        family="ring", design="6.2",
        text="Machine-checked proof that in every reachable state the writer's mapped region is contiguous, inside the buffer and disjoint from "
             "every byte any reader has mapped or not yet consumed (including exactly-full and empty-at-wrap states), that a mapped slice is "
             "committed data and that no operation changes an unread cell (slice_stable over any op sequence); tied to the code by the same "
             "differential run as C01 with a scribbling writer (0xEE over every region at once), slice copies compared at unmap, and ASan. "
             "The theorems' precondition - ONE writer per channel - is checked at the runtime level by a second stage: the whole runtime "
             "(acquire.c, source/filter/sink, channel.c from the working tree) under the deterministic scheduler, plain / aborted / monitored / "
             "averaged runs and runs in which frame averaging is switched by acquire_configure while running; no queue may ever have two threads "
             "holding a write mapping (this stage found defect D30, repaired in /repo a5ce3b0).",
        note=TB + "Same modelling assumptions as C01. A consumer reading after its unmap is out of scope. Axioms: none.",
        technique="Coq invariant proof (region/unread disjointness, cell stability); differential with scribbling writer + ASan"),
    "C03": dict(
        family="ring", design="6.3",
        text="Machine-checked proof over an interleaving model of channel.c's blocking protocol (one transition per block between "
             "scheduling points; every schedule of any length, with or without spurious wake-ups): no lost wake-up (a writer asleep "
             "without a pending notification still has a true wait condition), a parked writer whose request can proceed has been "
             "notified and returns on its next own step, refusal never leaves the writer asleep, the lock is always released, a request "
             "below capacity fits once readers are drained, and readers drain within two rounds. Tied to the code on every run by "
             "executing the real channel.c under a deterministic coroutine scheduler (harness/vplatform) and the extracted model in "
             "lock-step on thousands of scripts x schedules; the oracle probes every deadlock with a spurious wake-up.",
        note=TB + "Modelled, not verified: pthread mutex/condvar semantics (vplatform replaces platform.c: mutual exclusion, atomic "
             "release-and-wait, broadcast wakes all waiters), OS fairness (eventual scheduling of an enabled thread), sequential consistency at "
             "block granularity (C11 races / x86-TSO not modelled), one writer thread, readers registered before the concurrent phase. Axioms: none.",
        technique="Coq invariant over an interleaving system (all schedules) + bounded-progress lemmas; lock-step replay of the real code under a deterministic scheduler"),
    "C04": dict(
        family="pipe", design="6.4",
        text="Machine-checked proof over an event-labelled transition system of the runtime (Pipe.PipeModel: one transition per block between "
             "scheduling points of acquire.c start/stop/abort/map_read/unmap_read, source.c, sink.c, filter.c over the abstract multi-reader queue "
             "and the HAL device states; two streams; camera and storage faults; any write delay = any non-empty frame-boundary prefix is a legal "
             "append), for every accepted trace of any length (invariant YInv, 4 groups, preserved by every event; induction over traces): in every "
             "reachable state what storage received since its start is a prefix, in order, of the frames the camera delivered in this run and the "
             "n-th delivered frame carries frame id n, hardware id n and this run's payload tag (C04_prefix_always); when acquire_stop returns for "
             "an acquisition that was started, not aborted and not hit by a fault, storage holds exactly the delivered frames and there are "
             "max_frame_count of them (C04_complete_after_stop); an event of one stream never changes the other stream's queue, storage or camera "
             "log (C04_streams_independent, C04_streams_data_independent); monitor activity changes nothing but the monitor reader "
             "(C04_monitor_independent); the ghost flags and logs these statements use (stored, delivered, seen, aborted, ...) are folds over the "
             "observable events (C04_ghost_flags_are_events, C04_logs_are_events). Tied to the code on every run: the whole runtime is compiled unmodified from /repo's working tree against "
             "the deterministic scheduler and a mock driver, every channel operation, device call, callback, thread event and API call is logged "
             "with the acting thread, translated to model events, and the extracted model must ACCEPT every logged trace (implementation traces "
             "are then among the traces the theorems quantify over); an independent oracle over the log (storage appends vs camera frames, pixel "
             "hashes, ids) finds concrete failing schedules.",
        note=TB + "Modelled, not verified: OS fairness (an enabled thread is eventually scheduled); pthread mutex/condvar/event semantics "
             "(harness/vplatform replaces platform.c); sequential consistency at the granularity of the blocks between scheduling points (the C11 "
             "races on the unsynchronised stop/running flags are not modelled); the shipped devices are replaced by a mock driver (they are C14-C18); "
             "the queue sink.in is the abstract multi-reader log that the ring family (C01-C03) proves channel.c to implement; model scope G1 "
             "(frame averaging off - the averaging data path is C10's -, the two streams never share a device, configure/start between acquisitions): logs "
             "outside G1 are checked by the independent oracle only. Axioms: none (all theorems closed under the global context).",
        technique="Coq invariant proof over an event-labelled transition system of the runtime (all schedules, by induction over traces); trace-acceptance check of the real runtime under a deterministic scheduler + independent storage/camera oracle"),
    "C06": dict(
        family="pipe", design="6.6",
        text="Machine-checked proof over the same transition system as C04: for a monitor reader that was registered and drained when the "
             "acquisition's storage was started, the frames the client has consumed are a run of consecutive frames of this acquisition's camera "
             "run - consecutive ids, this run's payload, no gap, repeat, reordering or stale frame (C06_consecutive_fresh); monitor activity never "
             "changes what reaches storage (C06_no_effect_on_storage); when stop or abort returns a registered monitor reader is drained and holds "
             "nothing (C06_flushed_at_return) and it stays drained, whatever the client does in between, until the next acquisition's storage is "
             "started, where it is therefore fresh (C06_fresh_in_next_acquisition, a trace theorem over every continuation); acquire_map_read has "
             "no failing transition (C06_map_never_fails). "
             "Tied to the code by the trace-acceptance check of C04 with client scripts (poll patterns, partial consumption, long holds, monitor "
             "thread concurrent with stop/abort, up to 3 acquisitions); the oracle compares ids and pixel hashes (acquisition-tagged) of every "
             "frame the client consumed. Known finding (recorded, not repaired): a reader that registers for the first time in a later "
             "acquisition joins at offset 0 of the current lap and sees earlier acquisitions' frames (the model admits it: mon_fresh = false).",
        note=TB + "Modelled, not verified: OS fairness (an enabled thread is eventually scheduled); pthread mutex/condvar/event semantics "
             "(harness/vplatform replaces platform.c); sequential consistency at the granularity of the blocks between scheduling points (the C11 "
             "races on the unsynchronised stop/running flags are not modelled); the shipped devices are replaced by a mock driver (they are C14-C18); "
             "the queue sink.in is the abstract multi-reader log that the ring family (C01-C03) proves channel.c to implement; model scope G1 "
             "(frame averaging off - the averaging data path is C10's -, the two streams never share a device, configure/start between acquisitions): logs "
             "outside G1 are checked by the independent oracle only. Axioms: none (all theorems closed under the global context).",
        technique="Coq invariant proof (monitor cursor/consumption log as a segment of the delivered frames) over all traces; trace-acceptance check with monitoring clients + pixel-hash oracle"),
    "C07": dict(
        family="pipe", design="6.7",
        text="Machine-checked proof over the same transition system as C04, for every accepted trace (abort or stop injected at any point of any "
             "schedule: trigger wait, full queue, client holding a region, already finished): when acquire_abort or acquire_stop returns the runtime "
             "is Armed, no call is in progress, all three workers of every configured stream have exited with their running flags clear and "
             "neither camera nor storage is in the running state (C07_armed_after_return); storage holds a gap-free prefix of the delivered frames "
             "at every moment (C07_prefix_at_abort); a later start/stop is complete and contains only its own frames whatever was aborted before "
             "(C07_clean_restart). 'Returns after finitely many steps': a progress certificate for the wind-down phase that the refusal of writes "
             "by abort / shutdown / a failed start begins (C07_abort_enters_phase, C07_winddown_phase_stable): a natural-number measure that every "
             "event of a worker thread strictly decreases, except the sink's polls of its queue while it has not been told to stop or nothing "
             "mapped is old enough, and a join marker (C07_winddown_progress; a poll adds at most 2, client events add nothing: "
             "C07_winddown_poll_bound, C07_winddown_client_neutral), and while a worker is alive some worker event that decreases the measure "
             "is enabled - no deadlock (C07_winddown_no_deadlock; invariant group 5 relates the stop flags to the program counters); the same "
             "certificate, with a measure that also counts the frames the source may still deliver, for the whole time acquire_stop waits for "
             "the workers, plain stop of a finite acquisition included (C07_stop_progress, C07_stop_poll_bound - there a poll, which includes a "
             "camera frame call that returns no frame, adds at most 20 -, C07_stop_no_deadlock). Fairness "
             "of the OS scheduler, the wake-up of a blocked writer (C03) and the passing of time remain assumptions; the deterministic "
             "scheduler's deadlock / step-limit detector checks the real runtime on every run. Tied to the code by the trace-acceptance check of "
             "C04 with abort/stop at random scheduling points, triggers, unbounded acquisitions, averaging on/off, followed by further acquisitions.",
        note=TB + "Modelled, not verified: OS fairness (an enabled thread is eventually scheduled); pthread mutex/condvar/event semantics "
             "(harness/vplatform replaces platform.c); sequential consistency at the granularity of the blocks between scheduling points (the C11 "
             "races on the unsynchronised stop/running flags are not modelled); the shipped devices are replaced by a mock driver (they are C14-C18); "
             "the queue sink.in is the abstract multi-reader log that the ring family (C01-C03) proves channel.c to implement; model scope G1 "
             "(frame averaging off - the averaging data path is C10's -, the two streams never share a device, configure/start between acquisitions): logs "
             "outside G1 are checked by the independent oracle only. Axioms: none (all theorems closed under the global context).",
        technique="Coq invariant proof of the post-state of stop/abort over all traces; trace-acceptance check with aborts at arbitrary scheduling points + deadlock detector"),
    "C08": dict(
        family="pipe", design="6.8",
        text="Machine-checked proof over the same transition system as C04 and an independent device life-cycle monitor (PipeLife.lc_step: per "
             "device instance new -> open -> (running -> open)* -> closed; open once; configured, started and closed only while open and not "
             "running; stopped only while running, i.e. exactly once per successful start, a failing append counting as the device stopping "
             "itself; frame/append/trigger calls only while running; nothing after close): every accepted trace of any length whose open calls "
             "hand out distinct instances drives the monitor without error, by a simulation between the model's four device slots and the "
             "monitor (C08_discipline_partial); when shutdown returns every instance ever opened is closed, exactly once "
             "(C08_closed_by_shutdown); Running is reported only while a worker of a configured stream is alive and the state is Armed with all "
             "workers gone and no device running once stop or abort has returned (C08_running_report_means_alive, "
             "C08_armed_after_stop_or_abort). PARTIAL: the theorems cover grammar G1 (configure and start issued while no worker "
             "thread is alive; start with no valid stream, and start while running - which is refused before any device is touched, "
             "C08_start_while_running_touches_no_device, and then aborts the running acquisition - and start on a device that failed and was "
             "not configured since - a device start reaches the driver only in HAL state Armed, C08_started_only_when_armed; such a start is "
             "refused before the device is touched, C08_unarmed_start_refused - included); the full statement (any order, "
             "incl. configure while running) is false "
             "of the unchanged code: two known findings recorded with replays (configure while running re-arms a running storage / closes "
             "devices in use). Tied to the code by the trace-acceptance check of C04 plus generated arbitrary API programs (start while running, "
             "stop/abort when idle, re-configuration - also while running, also with the other device pair -, streams switched off and on, "
             "device faults in the middle of a session followed by start without a configure, "
             "monitor calls at any time); programs outside G1 are judged by the independent Python life-cycle automaton over the mock driver's "
             "call log and by ASan (the mock's close frees the device).",
        note=TB + "Modelled, not verified: OS fairness (an enabled thread is eventually scheduled); pthread mutex/condvar/event semantics "
             "(harness/vplatform replaces platform.c); sequential consistency at the granularity of the blocks between scheduling points (the C11 "
             "races on the unsynchronised stop/running flags are not modelled); the shipped devices are replaced by a mock driver (they are C14-C18); "
             "the queue sink.in is the abstract multi-reader log that the ring family (C01-C03) proves channel.c to implement; model scope G1 "
             "(frame averaging off - the averaging data path is C10's -, the two streams never share a device, configure/start between acquisitions): logs "
             "outside G1 are checked by the independent oracle only. Axioms: none (all theorems closed under the global context).",
        technique="Coq simulation proof between the runtime model and an independent device life-cycle monitor (all traces of grammar G1); trace-acceptance check + Python life-cycle automaton over arbitrary API programs"),
    "C09": dict(
        family="pipe", design="6.9",
        text="Machine-checked proof over the same transition system as C04 with device faults as events (a frame call that fails, an append that "
             "returns a non-running state, a failing device start), for every accepted trace: an append is only issued to a running storage that "
             "has not failed since its start and a failing append leaves the running state at once, so nothing is appended after a failure "
             "(C09_nothing_appended_after_failure, C09_failed_append_leaves_running); frames are requested only from a running camera "
             "(C09_frames_only_while_running); when stop or abort returns, with or without a fault, workers have exited, camera and storage are "
             "stopped and the state is Armed (C09_wound_down_at_return); Running is reported only while a worker is alive "
             "(C09_running_report_means_alive); a later fault-free acquisition is complete and correct (C09_next_run_correct); the wind-down after "
             "a failure terminates: the progress certificate of C07 (C09_winddown_progress, C09_winddown_no_deadlock). Tied to the code "
             "by the trace-acceptance check of C04 with the fault index swept over frame/append/start calls, ring capacities and schedules, and a "
             "following acquisition; the oracle checks call order after the failure, device stops, return of stop/abort (deadlock detector) and "
             "the next run's storage log.",
        note=TB + "Modelled, not verified: OS fairness (an enabled thread is eventually scheduled); pthread mutex/condvar/event semantics "
             "(harness/vplatform replaces platform.c); sequential consistency at the granularity of the blocks between scheduling points (the C11 "
             "races on the unsynchronised stop/running flags are not modelled); the shipped devices are replaced by a mock driver (they are C14-C18); "
             "the queue sink.in is the abstract multi-reader log that the ring family (C01-C03) proves channel.c to implement; model scope G1 "
             "(frame averaging off - the averaging data path is C10's -, the two streams never share a device, configure/start between acquisitions): logs "
             "outside G1 are checked by the independent oracle only. Axioms: none (all theorems closed under the global context).",
        technique="Coq invariant proof over a transition system with fault events (all schedules, all fault positions); trace-acceptance check with scripted device faults + oracle"),
    "C11": dict(
        family="hal", design="6.11",
        text="Machine-checked proof (Coq, induction over every finite HAL call sequence and every driver response sequence incl. unknown "
             "status codes and NULL function pointers) over an executable model of all exported functions of hal/camera.c, hal/storage.c and "
             "driver.c that emits driver calls and every read/write of the device object: stop/get_frame/append only in Running, exactly "
             "one close per successful open and no event on the object afterwards (not even a memory write), reported state = fold of a "
             "table over the driver's responses. Tied to the code on every run by running the real HAL against a scripted mock driver "
             "whose close frees the object (ASan) on 30k random + all length-4 sequences and comparing call logs, return codes and states "
             "with the extracted model; an independent protocol automaton over the mock's log finds concrete failing sequences.",
        note=TB + "Modelled, not verified: one client handle at a time; concurrency on the state field; device.manager.cpp/loader.c are "
             "replaced by a stub handing out the mock driver. Stated reading for storage: 'started' = the state the driver last returned. Axioms: none.",
        technique="Coq proof by induction over call/response histories of a HAL model; differential vs the real HAL with a freeing mock driver under ASan"),
    "C05": dict(
        family="layout", design="6.5",
        text="Machine-checked proof over an executable model of the frame layout (components.c: bytes_of_type/bytes_of_image; source.c / filter.c "
             "size rounding and header fill; frame_iterator_next; vfslice_split_at_delay_ms with the clock comparison as a parameter; the sink's "
             "consumed-byte count) joined to the ring model of channel.c (fam/ring): the size field is 96 + align8(image bytes), a multiple of 8, "
             "for every shape and type code (C05_size_field, C05_frame_sizes); over every capacity and every well-formed history with "
             "frame-sized writes, head, high, every hold, every region and slice offset and length are multiples of 8 (C05_offsets_aligned, "
             "induction over histories); every slice handed to a reader that consumes whole frames (the sink always: C05_split_boundary; the "
             "client when it consumes frame-boundary counts) is the concatenation of whole committed frames, stepping by the size field visits "
             "exactly their headers and lands exactly on the slice end, and a mapped packet stays whole until unmapped (C05_packet_whole, "
             "C05_packet_stays_whole, C05_holds_on_frame_boundaries). Tied to the code on every run by (i) a differential of the real "
             "components.c / frame_iterator.c / vfslice.c / channel.c against the extracted model for all type codes x shapes with every residue "
             "mod 8 x mixed packets x every split position, and (ii) runs of the real source.c, sink.c, filter.c under the deterministic scheduler "
             "with a recording storage and a monitor thread, every packet walked by an independent oracle.",
        note=TB + "Modelled, not verified: the ring base address is 8-aligned (allocator); the header fill (source.c:87, filter.c:121) is a model line "
             "exercised by the scheduler runs; a client that consumes a count that stops inside a frame is outside the statement (the property is "
             "read for frame-boundary consumption); C05's 'shape is the one the camera reported' is checked on every packet by the oracle and "
             "proved in the pipeline model (C04 theorems on frame identity). Axioms: none.",
        technique="Coq proof of size/alignment arithmetic and of a frame-boundary invariant over the ring model (induction over histories); differential of the layout functions + scheduler runs of source/sink/filter with a packet-walking oracle"),
    "C10": dict(
        family="average", design="6.10",
        text="Machine-checked proof (Coq + Flocq binary32) over an executable model of filter.c's accumulate/normalize and of the "
             "window bookkeeping of process_data/video_filter_thread as a fold over ANY packetisation of the input frames: with the "
             "accumulator zeroed and k*maxval < 2^24 every partial sum is exact (C10_sum_exact), the emitted pixel is "
             "round32(sum * round32(1/k)) (C10_mean_value), and for N frames the filter emits, in order, one f32 frame per complete "
             "window [ik,(i+1)k) with the id of its first frame, plus at most one frame for a trailing incomplete window, no input frame "
             "skipped or counted twice, independent of packet boundaries and of the end-of-stream flush meeting a lap boundary "
             "(C10_windows, C10_filter_emits_means). Tied to the code on every run by driving the real video_filter_thread/process_data "
             "(filter.c, channel.c, frame_iterator.c unmodified) on small rings pre-filled with non-zero bytes and comparing every output "
             "frame bit for bit with the extracted model; an independent exact-rational oracle states C10 over the implementation's output; and "
             "on the WHOLE runtime (acquire.c, source/filter/sink threads, channel, HAL from the working tree under the deterministic scheduler "
             "with the mock driver, averaging 2..4, rings of 2-6 output frames, random/PCT schedules, slow storage, a monitoring client) every "
             "averaged frame that reaches storage or the monitor is compared bit for bit with the recomputed binary32 mean, window ids and counts.",
        note=TB + "Modelled, not verified: in the model tie the filter thread runs single-threaded with the harness playing source and sink; the "
             "interleaving of source/filter/sink threads with averaging on is exercised by the whole-runtime stage (oracle only: the pipeline "
             "model's grammar has averaging off); k*maxval >= 2^24 (u16 with k > 256) is outside "
             "C10_sum_exact and reported; f32 input is rejected by the code. Axioms (Flocq/Reals, standard library): "
             "ClassicalDedekindReals.sig_forall_dec, sig_not_dec, FunctionalExtensionality.functional_extensionality_dep, Classical_Prop.classic "
             "where a theorem's Print Assumptions lists them (see evidence axioms_per_theorem).",
        technique="Coq/Flocq proof of exact binary32 accumulation + induction over packetisations of the window fold; bit-for-bit differential vs the real filter.c on dirty rings"),
    "C12": dict(
        family="select", design="6.12",
        text="Machine-checked proof over an executable model of device_manager_select/get/open (device.manager.cpp, loader.c, driver.c): "
             "for ANY regex engine (compile/exec as section variables) select returns the first enumerated identifier of the kind whose "
             "whole name matches (any for the empty pattern), NUL padding is irrelevant, opening an enumerated identifier yields that kind and "
             "name, and unknown kinds / no match / malformed patterns / bad indices / absent drivers give Err (the model is total); "
             "instantiated with a Brzozowski-derivative matcher proved equal to the denotational semantics (Regex_matchb_correct) with case "
             "folding, whole-name (not substring) matching and an ECMAScript-fragment parser. Tied to the code on every run by linking the "
             "real device.manager.cpp/loader.c/driver.c/platform.c against the real common driver .so plus stub drivers for the optional "
             "libraries, over presence subsets, with fragment patterns (exact prediction), mutated names, NUL padding, malformed and arbitrary "
             "byte patterns (no crash, no escaping exception, Err or an enumerated identifier of the kind).",
        note=TB + "Modelled, not verified: libstdc++ std::regex is an oracle in the theorems; its agreement with the verified matcher is tested on the "
             "generated fragment only; dlopen; catastrophic backtracking time. Axioms: none.",
        technique="Coq proof of first-match selection for any matcher + verified derivative regex matcher; differential vs the real device manager over driver-presence subsets"),
    "C13": dict(
        family="props", design="6.13",
        text="Machine-checked proof over a heap model (allocation ids with size, content, live/freed status; a free of a non-live id is an error "
             "event) and a statement-by-statement model of storage.c's init/set_uri/set_external_metadata/set_access_key_and_secret/"
             "set_dimension/set_enable_multiscale/copy/destroy: for every number of objects and every well-formed history of any length "
             "(induction): after copy every field of the destination equals the source's (strings by content, dimensions element-wise) "
             "(C13_copy_equal), the source is bit-identical afterwards (C13_src_untouched), no allocation is reachable through two different "
             "pointers, across objects or inside one (C13_separation), no free of a non-live id and nothing live after destroying every object "
             "(C13_free_once), every stored string is NULL or owned with 1 <= nbytes <= size and a terminating NUL (C13_terminated). Tied to "
             "the code on every run by compiling the real storage.c with the allocator renamed to logging wrappers under ASan/LSan and comparing, "
             "after every operation of thousands of generated histories over several objects, all fields, pointer identity classes, the allocator "
             "event log and the sanitizer verdict with the extracted model; an independent aliasing/equality/leak oracle in the harness.",
        note=TB + "Modelled, not verified: malloc/realloc succeed and hand out fresh blocks; self-copy and callers writing struct fields directly are "
             "outside the history grammar; dimension count < 256. Axioms: none.",
        technique="Coq proof by induction over histories of an allocation-id heap model of storage.c; differential vs the real storage.c with a logging allocator under ASan/LSan"),
    "C14": dict(
        family="fileio", design="6.14",
        text="Machine-checked proof over an executable model of linux/platform.c's file_create/file_write (the write-all loop as fuelled recursion "
             "over an arbitrary oracle of pwrite results) and of raw.c's set/start/append/stop/destroy: the loop returns success exactly for "
             "short-write patterns that deliver everything with fewer than three zero-length results and no error, and then the file holds the "
             "buffer in place and nothing else changed (Pwrite_all, Pwrite_fail, Pwrite_frame); for any list of set/start/append*/stop "
             "acquisitions on one raw device, any OS state, any packet grouping and any admissible short-write script, each acquisition's file "
             "is exactly the concatenation of its packets, also when an earlier acquisition wrote elsewhere or to the same path (C14_exact, "
             "C14_exact_any_idle_device, C14_exact_scripts), and file://p and p configure every kind identically (C14_uri). Tied to the code on "
             "every run by running the real raw.c + platform.c + HAL storage.c with open/pwrite/close/flock interposed at link time "
             "(short-write scripts, call log) against the extracted model on thousands of generated cycles, comparing the syscall log and "
             "the bytes of every file read back from disk; an independent oracle states 'file = concatenation of appended packets'.",
        note=TB + "Modelled, not verified: POSIX semantics of the interposed calls (a map from paths to byte lists, lowest-free descriptor numbers); "
             "errors other than short counts belong to C16. Axioms: none.",
        technique="Coq proof of the pwrite write-all loop against any short-count oracle + induction over acquisition cycles; syscall-interposed differential with files read back"),
    "C16": dict(
        family="fileio", design="6.16",
        text="Machine-checked proof over executable models of raw.c, tiff.cpp, side-by-side-tiff.cpp, trash.c and the HAL storage wrappers with a "
             "descriptor-table model of the process and an OS oracle that may fail any create or write, transiently or persistently: for every "
             "storage kind, every life-cycle history and every fault script, no call diverges (the write_/stop/terminate re-entrance has depth "
             "at most 4; fuel exhaustion is an explicit outcome that is proved unreachable) (C16_terminates), a start or append inside which a "
             "create/write failed answers Device_Err and leaves the device not Running (C16_reports), every flock/pwrite/close targets a "
             "descriptor the device holds at that moment and after destroy each opened descriptor has been closed exactly once and no foreign "
             "descriptor was closed (C16_owned_fds, C16_closed_once, C16_ledger). Tied to the code on every run by sweeping the fault index "
             "over every create/write of generated histories on the real drivers (syscalls interposed, each case in a child process so that a "
             "crash, unbounded recursion or hang is an observable) and comparing syscall logs and returned states with the extracted model; an "
             "independent descriptor ledger over the syscall log finds concrete failing histories.",
        note=TB + "Modelled, not verified: the kernel's descriptor allocation rule; the hypothesis that the runtime does not `set` a running device "
             "(C08's subject) for the ownership theorems; realloc failure. Axioms: none.",
        technique="Coq proof over driver models with a descriptor table and an arbitrary failing-OS oracle (termination by bounded re-entrance depth); fault-index sweep differential in child processes"),
    "C15": dict(
        family="tiff", design="6.15",
        text="Machine-checked proof over an executable byte-level model of tiff.cpp and side-by-side-tiff.cpp (header, 336-byte IFDs, strips, "
             "string sections, decimal printing of the JSON description, 32-bit truncations, termination write) and an independent BigTIFF "
             "decoder in Coq: for every device state, file system, valid cycle (any shapes/sample types/N>=1 frames/packet grouping/metadata/"
             "pixel scale/URI spelling) decode(file(encode fs)) returns every frame's width, height, bits, format, pixel bytes, ids and "
             "timestamps and the metadata on frame 0 (C15_roundtrip); the chain has exactly N directories and ends in a zero link (C15_chain); "
             "all regions are inside the file and pairwise disjoint (C15_in_bounds, C15_disjoint); the statements hold for each of any number "
             "of start/stop cycles on one device (C15_cycles), for tiff-json's data.tif and metadata.json (C15_side_by_side), and do not depend "
             "on packet grouping (C15_grouping). Tied to the code on every run by comparing the files the real writers produce, byte for byte, "
             "with the extracted model (syscalls on a real directory, pre-existing files included); an independent Python BigTIFF reader "
             "states C15 over the implementation's files.",
        note=TB + "Modelled, not verified: vsnprintf as decimal printing; POSIX open/pwrite/ftruncate as a map from paths to byte lists; realloc failure; "
             "JSON well-formedness of user metadata. 'Valid BigTIFF' = the structural clauses of the property (tag order / y-resolution quirk recorded in evidence). Axioms: none.",
        technique="Coq proof of encode/decode round-trip, chain termination, bounds and disjointness over a byte-level writer model; byte-for-byte file differential vs the real tiff writers"),
    "C17": dict(
        family="simgeom", design="6.17",
        text="Machine-checked proof over an executable geometry model of simulated.camera.c, bin2.avx2.c, bin2.plain.c, imfill.pattern.cpp: for "
             "every camera kind, both bin2 variants, all sample types, every binning byte, every requested shape/offset/exposure and every "
             "well-formed history of set/get/start/get_frame/stop (induction, unbounded): accepted iff binning is a power of two, reported "
             "dims = clamp, strides (1,1,w,w*h), get returns the values in effect (C17_shape), get_frame writes exactly bytes_of_image of the "
             "reported shape (C17_copy_exact), every access class of a frame (fill at full resolution, every bin pass, copy-out) stays inside "
             "the block it works on (C17_in_bounds), every access is aligned for a 16-aligned allocation (C17_aligned), all of it after any "
             "re-configuration (C17_reconfig). Tied to the code on every run by (i) extent-tightness probes: each real routine runs on an ASan "
             "buffer of exactly the model's extent (clean) and extent-1 (flagged), and at the model's alignment (clean) and half of it (UBSan), "
             "(ii) set/get histories with the allocation log compared, (iii) whole-camera histories under ASan/UBSan with sentinel-filled caller "
             "buffers, (iv) native runs.",
        note=TB + "Modelled, not verified: set while the streamer thread renders (a data race the sequential geometry model does not express; exercised "
             "only with size-preserving re-sets under ASan); allocation failure; sample-type codes outside the enum (rejected configurations are "
             "outside the property: the D23 double free is recorded in evidence as out of domain); pixel values. Axioms: none.",
        technique="Coq proof (lia/nia floor-ceil arithmetic, induction over histories) of access extents <= allocation; ASan/UBSan extent-tightness probes and whole-camera differential"),
    "C18": dict(
        family="simsync", design="6.18",
        text="Machine-checked proof over an interleaving model of simulated.camera.c (streamer thread, get_frame caller, controller doing "
             "start/stop/trigger/set; one transition per block between scheduling points; several runs of one device; ghost counters of "
             "external triggers and deliveries), for every script and every schedule of every length, with or without spurious wake-ups "
             "(invariant + induction): delivered hardware ids are strictly increasing within a run (C18_increasing) and equal the generation "
             "index of the frame, so a gap reveals dropped frames (C18_counts_all), the count restarts with each start (C18_restart), in a run "
             "gated from its start deliveries <= external triggers and none before the first (C18_gated), and after stop is invoked a pending "
             "get_frame is released through the shutdown exit and stop returns within a bounded number of steps of the designated threads "
             "(C18_stop_unblocks, C18_stop_releases_caller, bounded-progress rule of Sched.v) - also for the stop the HAL performs inside a "
             "camera_set that the device rejects while Running (C18_rejected_set, C18_stop_enter_step, C18_stop_kind_stable; afterwards the "
             "camera is AwaitingConfiguration and a start is refused until an accepted set re-arms it: C18_restart_refused, "
             "C18_await_until_accepted_set). Tied to the code on every run by executing the "
             "real simulated.camera.c behind the real HAL camera.c under the deterministic scheduler on generated scripts x random and "
             "exhaustive-prefix schedules in lock-step with the extracted model; an independent oracle over the implementation's trace "
             "(ids increasing, deliveries vs triggers, deadlock) finds concrete failing schedules.",
        note=TB + "Modelled, not verified: OS fairness; pthread condvar semantics (vplatform); sequential consistency at block granularity (the streamer's "
             "unlocked read of frame_wanted is a block-level read); one controller and one caller thread; get_frame is not entered while stop is in "
             "progress; exposure time is virtual. Axioms: none.",
        technique="Coq invariant over an interleaving system (all schedules) + bounded-progress measure; lock-step replay of the real simulated camera under a deterministic scheduler"),
}

PENDING = "not claimed at this commit: the Coq model, theorems and correspondence check for this property are under construction in fam/ (see DESIGN.md section 9); machine-checked proof does apply to it"
NOT_APPLICABLE = [{"property_id": p, "reason": PENDING} for p in ["C%02d" % i for i in range(1, 19)] if p not in CHECKS]


def main():
    man = {
        "version": 1,
        "setup_cmd": "python3 tools/setup.py",
        "hooks": {
            "guard": "ACQUIRE_VERIF_HOOKS",
            "enable": "no hook is needed: checks compile the unmodified sources of /repo's working tree against substituted platform headers (harness/vplatform, fam/*/harness/stubplat), renamed allocator symbols and --wrap'ed system calls",
            "baseline_off_cmd": "cmake -G Ninja -B /repo/_build -S /repo && cmake --build /repo/_build && ctest --test-dir /repo/_build -j8 --timeout 900",
            "source_commits": [],
            "add_only": True,
        },
        "engines": [],
        "checks": [],
        "notes": "Every check: python3 tools/check.py --property <id> --tier quick|thorough (prove -> build from /repo -> corpus -> correspond -> oracle search -> known findings -> evidence). See DESIGN.md.",
        "not_applicable": NOT_APPLICABLE,
    }
    fams = {}
    for pid, c in sorted(CHECKS.items()):
        fams.setdefault(c["family"], []).append(pid)
        man["checks"].append({
            "property_id": pid,
            "quick_cmd": "python3 tools/check.py --property %s --tier quick" % pid,
            "thorough_cmd": "python3 tools/check.py --property %s --tier thorough" % pid,
            "evidence_file": "evidence/%s.json" % pid,
            "replay_cmd_template": "python3 tools/check.py --property %s --replay {path}" % pid,
            "engine": c["family"],
            "level_claimed": {"category": "proof", "text": c["text"], "design_ref": "DESIGN.md section " + c["design"]},
            "level_note": c["note"],
            "technique": c["technique"],
        })
    for f, ps in sorted(fams.items()):
        man["engines"].append({"name": f, "path": "fam/" + f, "serves_properties": ps,
                               "kind_free_text": "Coq model + theorems (fam/%s/coq), extracted OCaml oracle, C harness over the real sources, Python driver" % f})
    with open(os.path.join(V, "MANIFEST.json"), "w") as fh:
        json.dump(man, fh, indent=1)
    print("MANIFEST.json: %d checks" % len(man["checks"]))


if __name__ == "__main__":
    main()
