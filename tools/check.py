#!/usr/bin/env python3
"""Single entry point:  python3 tools/check.py --property Cxx [--tier quick|thorough] [--replay file]"""
import argparse
import importlib.util
import json
import os
import sys
import traceback

sys.path.insert(0, os.path.dirname(os.path.abspath(__file__)))
import vlib  # noqa: E402


def family_of(prop):
    reg = json.load(open(os.path.join(vlib.VERIF, "tools", "families.json")))
    for fam, props in reg.items():
        if prop in props:
            return fam
    raise SystemExit("no family serves " + prop)


def load_family(fam):
    path = os.path.join(vlib.VERIF, "fam", fam, "check.py")
    spec = importlib.util.spec_from_file_location("fam_" + fam, path)
    mod = importlib.util.module_from_spec(spec)
    sys.path.insert(0, os.path.dirname(path))
    spec.loader.exec_module(mod)
    return mod


def main():
    ap = argparse.ArgumentParser()
    ap.add_argument("--property", required=True)
    ap.add_argument("--tier", default=None)
    ap.add_argument("--replay", default=None)
    a = ap.parse_args()
    fam = family_of(a.property)
    ctx = vlib.Ctx(a.property, fam, tier=a.tier)
    ctx.replay_file = a.replay
    try:
        mod = load_family(fam)
        mod.run(ctx)
        if ctx.tier == "thorough" and "coqchk" not in ctx.extra:
            # independent re-check of the property's compiled proofs (and everything they depend on) with coqchk
            pin = os.path.join(ctx.coqdir, "_CoqProject.in")
            ns = [l.split()[2] for l in open(pin) if l.startswith("-Q")][0]
            ctx.coqchk(ns, "Properties_" + a.property)
    except vlib.BuildError as e:
        ctx.broken_tie("harness/oracle build from /repo's working tree failed (the correspondence can no longer be run)", str(e)[-3000:])
    except Exception:
        ctx.broken_tie("the check itself raised an exception (internal error of the machinery)", traceback.format_exc()[-3000:])
    sys.exit(ctx.finish())


if __name__ == "__main__":
    main()
