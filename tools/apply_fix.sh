#!/bin/bash
# usage: apply_fix.sh <family> <NN-name>   -- applies fam/<family>/fixes/<NN-name>.patch to /repo and commits it with the .msg
set -e
fam=$1; n=$2
cd /repo
git apply --whitespace=nowarn /verif/fam/$fam/fixes/$n.patch
git add -u
git commit -q -F /verif/fam/$fam/fixes/$n.msg
git log --oneline | head -1
