#!/usr/bin/env python3
"""Common machinery of every check in /verif (see DESIGN.md section 2).

A family lives in /verif/fam/<family>/ and contains
    coq/       a self-contained Coq project (_CoqProject lists -Q . <Ns>; *.v; Properties_Cxx.v; Extract.v)
    oracle/    main.ml (hand-written line-protocol driver around the extracted model; extracted files go to oracle/gen/)
    harness/   C/C++ drivers that compile the REAL sources out of /repo's working tree
    check.py   defines  PROPS = {...}  and  run(ctx)  for each property it serves

Every check goes through Ctx:  prove -> build -> corpus -> correspond -> search -> known findings -> evidence.
"""
import hashlib
import json
import os
import random
import re
import shutil
import subprocess
import sys
import time

VERIF = os.path.dirname(os.path.dirname(os.path.abspath(__file__)))
REPO = os.environ.get("VERIF_REPO", "/repo")
BUILD = os.path.join(VERIF, ".build")
# a run pointed at another tree (VERIF_REPO=<scratch worktree>: seeded changes, experiments) gets its own build directory and
# writes its evidence under .build/: it can run beside a check of /repo and never overwrites the committed evidence
ALT = os.path.realpath(REPO) != "/repo"
ALT_TAG = ("@" + hashlib.sha1(os.path.realpath(REPO).encode()).hexdigest()[:8]) if ALT else ""
EVIDENCE = os.path.join(BUILD, "evidence" + ALT_TAG) if ALT else os.path.join(VERIF, "evidence")
NPROC = os.cpu_count() or 4

# Axioms that the standard library / installed libraries declare and that a theorem may depend on.
# Anything else in a Print Assumptions block is a gate failure.
ALLOWED_AXIOMS = {
    "Classical_Prop.classic",
    "ClassicalDedekindReals.sig_forall_dec",
    "ClassicalDedekindReals.sig_not_dec",
    "FunctionalExtensionality.functional_extensionality_dep",
    "Eqdep.Eq_rect_eq.eq_rect_eq",
    "ProofIrrelevance.proof_irrelevance",
    "JMeq.JMeq_eq",
    "PropExtensionality.propositional_extensionality",
}

FORBIDDEN_RE = re.compile(
    r"\b(Admitted|admit|Axiom|Axioms|Parameter|Parameters|Conjecture|Conjectures|Admit Obligations|"
    r"Unset Guard Checking|Unset Positivity Checking|Unset Universe Checking|bypass_check|"
    r"Hypothesis|Hypotheses|Variable|Variables)\b|type-in-type|impredicative-set|native_compute")


class BuildError(Exception):
    pass


def sh(cmd, cwd=None, timeout=600, inp=None, env=None):
    """Run a command, return (rc, stdout, stderr). rc = 124 on timeout."""
    e = dict(os.environ)
    if env:
        e.update(env)
    try:
        p = subprocess.run(cmd, cwd=cwd, input=inp, stdout=subprocess.PIPE, stderr=subprocess.PIPE,
                           timeout=timeout, env=e, shell=isinstance(cmd, str),
                           text=not isinstance(inp, (bytes, bytearray)))
        return p.returncode, p.stdout, p.stderr
    except subprocess.TimeoutExpired as ex:
        out = ex.stdout or ""
        err = ex.stderr or ""
        if isinstance(out, bytes) and not isinstance(inp, (bytes, bytearray)):
            out = out.decode("utf-8", "replace")
        if isinstance(err, bytes) and not isinstance(inp, (bytes, bytearray)):
            err = err.decode("utf-8", "replace")
        return 124, out, err


def strip_coq_comments(text):
    """Remove (* ... *) comments (nested) and string literals, so the gate does not trip on prose."""
    out = []
    depth = 0
    i = 0
    n = len(text)
    instr = False
    while i < n:
        if not instr and text.startswith("(*", i):
            depth += 1
            i += 2
            continue
        if not instr and depth > 0 and text.startswith("*)", i):
            depth -= 1
            i += 2
            continue
        c = text[i]
        if depth == 0:
            if c == '"':
                instr = not instr
                out.append(' ')
            elif not instr:
                out.append(c)
        i += 1
    return "".join(out)


def coq_gate(coqdir):
    """Scan every .v of a family for forbidden vernacular. Variable/Hypothesis are allowed only inside a Section."""
    problems = []
    for fn in sorted(os.listdir(coqdir)):
        if not fn.endswith(".v"):
            continue
        text = strip_coq_comments(open(os.path.join(coqdir, fn)).read())
        depth = 0
        for ln, line in enumerate(text.split("\n"), 1):
            if re.match(r"\s*(Section|Module)\s+\w+", line) and ":=" not in line:
                if re.match(r"\s*Section\b", line):
                    depth += 1
            if re.match(r"\s*End\s+\w+\s*\.", line) and depth > 0:
                depth -= 1
            for m in FORBIDDEN_RE.finditer(line):
                w = m.group(0)
                if w in ("Variable", "Variables", "Hypothesis", "Hypotheses"):
                    if depth > 0:
                        continue
                if w == "admit" and re.search(r"\badmit\w", line[m.start():m.start() + 8]):
                    continue
                problems.append("%s:%d: %s" % (fn, ln, w))
    return problems


def parse_assumptions(text):
    """Parse the output of a coqc run that contains Print Assumptions blocks.
    Returns a list of blocks; each block is [] for 'Closed under the global context' or a list of axiom names."""
    blocks = []
    cur = None
    for line in text.split("\n"):
        if line.startswith("Closed under the global context"):
            blocks.append([])
            cur = None
        elif line.startswith("Axioms:"):
            cur = []
            blocks.append(cur)
        elif cur is not None:
            m = re.match(r"^([A-Za-z_][\w.']*)\s*(:|$)", line)
            if m:
                cur.append(m.group(1))
            elif line.strip() == "" or not line.startswith(" "):
                if line.strip() and not line.startswith(" "):
                    cur = None
    return blocks


class Ctx:
    def __init__(self, prop, family, tier=None, seed=None, level="proof"):
        self.prop = prop
        self.family = family
        self.tier = tier or os.environ.get("VERIF_TIER", "quick")
        if self.tier not in ("quick", "thorough"):
            self.tier = "quick"
        self.seed = int(seed if seed is not None else os.environ.get("VERIF_SEED", "1"))
        self.level = level
        self.rng = random.Random((self.seed * 1000003) ^ int(hashlib.sha1(prop.encode()).hexdigest()[:8], 16))
        self.t0 = time.time()
        self.famdir = os.path.join(VERIF, "fam", family)
        self.coqdir = os.path.join(self.famdir, "coq")
        self.bdir = os.path.join(BUILD, prop + ALT_TAG)
        shutil.rmtree(self.bdir, ignore_errors=True)
        os.makedirs(self.bdir, exist_ok=True)
        os.makedirs(EVIDENCE, exist_ok=True)
        self.violations = []      # dicts: what, key, replay(obj), found(bool)
        self.broken = []          # ties / proofs that no longer check: (what, detail)
        self.dist = {}            # generator distribution counters
        self.samples = []
        self.evaluations = 0
        self.nontrivial = set()
        self.traces_validated = 0
        self.obligations = 0
        self.discharged = 0
        self.theorems = []
        self.axioms = {}
        self.checker_cmd = ""
        self.notes = []
        self.assumptions = []
        self.trusted = []
        self.rule = ""
        self.extra = {}
        self.known = load_known(prop)
        self.known_seen = set()

    # ---------------------------------------------------------------- logging / counting
    def log(self, *a):
        print("[%s %6.1fs]" % (self.prop, time.time() - self.t0), *a, flush=True)

    def count(self, key, n=1):
        self.dist[key] = self.dist.get(key, 0) + n

    def sample(self, obj, limit=4):
        if len(self.samples) < limit:
            self.samples.append(obj)

    def case(self, signature=None, nontrivial=True):
        """Count one evaluated case; signature identifies it for the distinct count."""
        self.evaluations += 1
        if nontrivial and signature is not None:
            if not isinstance(signature, (str, bytes)):
                signature = json.dumps(signature, sort_keys=True, default=str)
            if isinstance(signature, str):
                signature = signature.encode()
            self.nontrivial.add(hashlib.sha1(signature).digest()[:10])

    # ---------------------------------------------------------------- step 1: prove
    def coq_prove(self, targets, timeout=1500):
        """Build the family's Coq project up to the given Properties files; gate; collect assumptions.
        Returns True when every target compiled, the gate is clean and only allowed axioms are used."""
        ok = True
        cd = self.coqdir
        self.checker_cmd = "cd fam/%s/coq && coq_makefile -f _CoqProject -o Makefile && make -j%d %s" % (
            self.family, NPROC, " ".join(t + ".vo" for t in targets))
        vs = sorted(f for f in os.listdir(cd) if f.endswith(".v"))
        proj = open(os.path.join(cd, "_CoqProject.in")).read().strip() + "\n" + "\n".join(vs) + "\n"
        pj = os.path.join(cd, "_CoqProject")
        if not os.path.exists(pj) or open(pj).read() != proj:
            open(pj, "w").write(proj)
        mk = os.path.join(cd, "Makefile")
        if not os.path.exists(mk) or os.path.getmtime(mk) < os.path.getmtime(pj):
            rc, o, e = sh(["coq_makefile", "-f", "_CoqProject", "-o", "Makefile"], cwd=cd)
            if rc != 0:
                self.broken.append(("coq_makefile failed", (o + e)[-2000:]))
                return False
        gate = coq_gate(cd)
        if gate:
            ok = False
            self.broken.append(("forbidden vernacular in the Coq development", "; ".join(gate[:10])))
        rc, o, e = sh(["make", "-k", "-j%d" % NPROC] + [t + ".vo" for t in targets], cwd=cd, timeout=timeout)
        if rc != 0:
            ok = False
            errs = re.findall(r'File "\./([^"]+)", line (\d+)[^\n]*\n((?:.*\n){0,6})', e)
            detail = "; ".join("%s:%s %s" % (f, l, " ".join(t.split())[:300]) for f, l, t in errs[:5]) or (o + e)[-1500:]
            self.broken.append(("Coq build of %s failed (a proof obligation no longer closes)" % ",".join(targets), detail))
        # obligations = statements in the dependency cone of the targets
        cone = self._cone(targets)
        obl = 0
        dis = 0
        for f in cone:
            text = strip_coq_comments(open(os.path.join(cd, f + ".v")).read())
            n = len(re.findall(r"^\s*(?:Local\s+|Global\s+|Program\s+)?(?:Theorem|Lemma|Corollary|Example|Fact|Remark|Proposition)\s+[\w']+",
                               text, re.M))
            obl += n
            if os.path.exists(os.path.join(cd, f + ".vo")) and \
                    os.path.getmtime(os.path.join(cd, f + ".vo")) >= os.path.getmtime(os.path.join(cd, f + ".v")):
                dis += n
        self.obligations, self.discharged = obl, dis
        # assumptions: every Properties file prints them while compiling; re-run coqc on the property file only
        for t in targets:
            vo = os.path.join(cd, t + ".vo")
            if not os.path.exists(vo):
                continue
            text = strip_coq_comments(open(os.path.join(cd, t + ".v")).read())
            names = re.findall(r"Print\s+Assumptions\s+([\w'.]+)\s*\.", text)
            thms = re.findall(r"^\s*(?:Theorem|Corollary)\s+([\w']+)", text, re.M)
            missing = [x for x in thms if x not in names]
            if missing:
                ok = False
                self.broken.append(("theorems without Print Assumptions in %s.v" % t, ",".join(missing)))
            cache = os.path.join(cd, t + ".assumptions")
            if not os.path.exists(cache) or os.path.getmtime(cache) < os.path.getmtime(vo):
                args = coqproject_args(cd)
                rc, o, e = sh(["coqc"] + args + ["-o", os.path.join(self.bdir, t + ".vo"), t + ".v"], cwd=cd, timeout=timeout)
                if rc == 0:
                    open(cache, "w").write(o)
                else:
                    self.broken.append(("coqc %s.v" % t, e[-1500:]))
                    ok = False
                    continue
            blocks = parse_assumptions(open(cache).read())
            if len(blocks) != len(names):
                ok = False
                self.broken.append(("Print Assumptions output of %s.v not understood" % t, "%d blocks for %d commands" % (len(blocks), len(names))))
                continue
            for nm, ax in zip(names, blocks):
                self.theorems.append(nm)
                self.axioms[nm] = ax
                bad = [a for a in ax if a not in ALLOWED_AXIOMS]
                if bad:
                    ok = False
                    self.broken.append(("theorem %s depends on an axiom outside the allowed list" % nm, ",".join(bad)))
        return ok

    def _cone(self, targets):
        cd = self.coqdir
        args = coqproject_args(cd)
        seen = []
        todo = list(targets)
        allv = {f[:-2] for f in os.listdir(cd) if f.endswith(".v")}
        while todo:
            t = todo.pop()
            if t in seen or t not in allv:
                continue
            seen.append(t)
            text = strip_coq_comments(open(os.path.join(cd, t + ".v")).read())
            for m in re.finditer(r"(?:Require\s+(?:Import\s+|Export\s+)?|From\s+\w+\s+Require\s+(?:Import\s+|Export\s+)?)([^.]*(?:\.[A-Za-z_][^.\s]*)*)\s*\.", text):
                for w in m.group(1).split():
                    w = w.split(".")[-1]
                    if w in allv:
                        todo.append(w)
        return seen

    # ---- thorough tier: independent re-check of the compiled proofs with coqchk
    def coqchk(self, namespace, target, timeout=2400):
        """Re-check <namespace>.<target> and everything it depends on with coqchk -o; the axioms it lists must be allowed ones."""
        if not os.path.exists(os.path.join(self.coqdir, target + ".vo")):
            return
        rc, o, e = sh("timeout %d coqchk -o -silent -Q . %s %s.%s" % (timeout, namespace, namespace, target), cwd=self.coqdir, timeout=timeout + 60)
        txt = o + e
        axioms = []
        m = re.search(r"\* Axioms:(.*?)\n\s*\n\* ", txt, re.S)
        if m:
            body = m.group(1).strip()
            if body != "<none>":
                axioms = [l.strip() for l in body.split("\n") if l.strip()]
        bad = [a for a in axioms if not any(a.endswith(x.split(".")[-1]) or x in a for x in ALLOWED_AXIOMS)]
        ok = rc == 0 and m is not None and not bad and "type-in-type: <none>" in txt and "unsafe (co)fixpoints: <none>" in txt \
            and "positivity is assumed: <none>" in txt
        self.extra["coqchk"] = ("ok: axioms %s, no type-in-type, no unsafe fixpoints, no assumed positivity"
                                % (", ".join(axioms) if axioms else "<none>")) if ok else txt[-800:]
        if not ok:
            self.broken_tie("coqchk does not accept %s.%s" % (namespace, target), txt[-800:])

    # ---- oracle (extracted model)
    # ---------------------------------------------------------------- oracle (extracted model)
    def oracle_build(self, name="vorac", extract="Extract", mains=("main.ml",), timeout=600):
        """Extract the model (Extract.v, run from oracle/gen) and compile oracle/main.ml against it. Returns exe path."""
        od = os.path.join(self.famdir, "oracle")
        gen = os.path.join(od, "gen")
        os.makedirs(gen, exist_ok=True)
        exe = os.path.join(gen, name)
        srcs = [os.path.join(self.coqdir, f) for f in os.listdir(self.coqdir) if f.endswith(".v")] + \
               [os.path.join(od, m) for m in mains]
        if os.path.exists(exe) and all(os.path.getmtime(exe) >= os.path.getmtime(s) for s in srcs):
            return exe
        lock = os.path.join(gen, ".lock")
        import fcntl
        with open(lock, "w") as lf:
            fcntl.flock(lf, fcntl.LOCK_EX)
            if os.path.exists(exe) and all(os.path.getmtime(exe) >= os.path.getmtime(s) for s in srcs):
                return exe
            args = coqproject_args(self.coqdir, absolute=True)
            rc, o, e = sh(["coqc"] + args + ["-o", os.path.join(gen, extract + ".vo"),
                                             os.path.join(self.coqdir, extract + ".v")], cwd=gen, timeout=timeout)
            if rc != 0:
                raise BuildError("extraction failed: " + (o + e)[-2000:])
            mls = sorted(f for f in os.listdir(gen) if f.endswith(".ml"))
            mlis = sorted(f for f in os.listdir(gen) if f.endswith(".mli"))
            for m in mains:
                shutil.copy(os.path.join(od, m), os.path.join(gen, m))
            order = ocaml_order(gen, [f for f in mls if f not in mains]) + list(mains)
            files = []
            for f in order:
                if f[:-3] + ".mli" in mlis:
                    files.append(f[:-3] + ".mli")
                files.append(f)
            rc, o, e = sh(["ocamlfind", "ocamlopt", "-O3" if False else "-inline", "100", "-w", "-a", "-package", "str", "-linkpkg"] + files + ["-o", name],
                          cwd=gen, timeout=timeout)
            if rc != 0:
                raise BuildError("ocamlopt failed: " + (o + e)[-3000:])
        return exe

    # ---------------------------------------------------------------- harness build from /repo working tree
    def cc(self, sources, out, flags=(), cxx=False, asan=True, opt="-O1", timeout=600, cwd=None):
        """Compile+link sources (absolute, or relative to /repo) into .build/<prop>/<out>. Raises BuildError."""
        exe = os.path.join(self.bdir, out)
        srcs = [s if os.path.isabs(s) else os.path.join(REPO, s) for s in sources]
        std_c, std_cxx = "-std=gnu11", "-std=gnu++20"
        san = ["-fsanitize=address,undefined", "-fno-sanitize-recover=all", "-fno-omit-frame-pointer"] if asan else []
        objs = []
        jobs = []
        for i, s in enumerate(srcs):
            o = os.path.join(self.bdir, "%s.%d.o" % (out, i))
            iscxx = s.endswith((".cpp", ".cc", ".cxx"))
            cmd = (["g++", std_cxx] if iscxx else ["gcc", std_c]) + [opt, "-g", "-mavx2", "-w"] + san + list(flags) + ["-c", s, "-o", o]
            jobs.append((cmd, s))
            objs.append(o)
            cxx = cxx or iscxx
        procs = []
        for cmd, s in jobs:
            procs.append((subprocess.Popen(cmd, stdout=subprocess.PIPE, stderr=subprocess.PIPE, text=True, cwd=cwd), s))
        for p, s in procs:
            try:
                o, e = p.communicate(timeout=timeout)
            except subprocess.TimeoutExpired:
                p.kill()
                raise BuildError("compile timeout: " + s)
            if p.returncode != 0:
                raise BuildError("compiling %s failed:\n%s" % (s, (o + e)[-3000:]))
        link_flags = [f for f in flags if f.startswith(("-Wl,", "-l", "-L", "-pthread", "-rdynamic"))]
        cmd = ["g++" if cxx else "gcc"] + san + objs + ["-o", exe, "-lm", "-pthread", "-ldl"] + link_flags
        rc, o, e = sh(cmd, timeout=timeout)
        if rc != 0:
            raise BuildError("link failed:\n" + (o + e)[-3000:])
        return exe

    # ---------------------------------------------------------------- verdicts
    def broken_tie(self, what, detail=""):
        n = sum(1 for w, _ in self.broken if w == what)
        self.count("broken:" + what[:60])
        if n < 3:
            self.broken.append((what, detail))

    def has_violation(self, key):
        return any(v["key"] == key and key is not None for v in self.violations)

    def violation(self, what, replay, key=None, found=True):
        """Register a property violation seen on the implementation. `key` classifies the failing history for known_findings.txt."""
        for v in self.violations:
            if v["key"] == key and key is not None and v["found"] == found:
                v["more"] = v.get("more", 0) + 1
                return
        self.violations.append({"what": what, "key": key, "replay": replay, "found": found})

    def finish(self):
        wall = time.time() - self.t0
        rc = 0
        # a broken proof/tie with no concrete violation is still a violation (no-failing-input-found)
        concrete_unknown = [v for v in self.violations if v["found"] and not self._is_known(v)]
        if self.broken and not concrete_unknown:
            self.violations.append({"what": "; ".join(w for w, _ in self.broken), "key": None, "found": False,
                                    "replay": {"no_longer_checks": [{"what": w, "detail": d} for w, d in self.broken]}})
        os.makedirs(os.path.join(VERIF, "replays"), exist_ok=True)
        nviol = 0
        lines = []
        for v in self.violations:
            if v["found"] and self._is_known(v):
                self.known_seen.add(v["key"])
                continue
            nviol += 1
            n = 0
            while True:
                path = os.path.join(VERIF, "replays", "%s-%d.json" % (self.prop, n))
                if not os.path.exists(path):
                    break
                n += 1
            obj = {"property": self.prop, "what": v["what"], "key": v["key"], "seed": self.seed, "tier": self.tier,
                   "failing_input_found": v["found"], "replay": v["replay"], "also_broken": [w for w, _ in self.broken]}
            with open(path, "w") as f:
                json.dump(obj, f, indent=1, default=str)
            lines.append("VIOLATION property=%s replay=%s%s" % (self.prop, path, "" if v["found"] else " no-failing-input-found"))
            rc = 1
        for k in self.known:
            tag = "re-confirmed in this run" if k["key"] in self.known_seen else "listed; not exercised in this run"
            print("KNOWN-FINDING: property=%s %s [key=%s; %s]" % (self.prop, k["text"], k["key"], tag))
        for l in lines:
            print(l)
        for v in self.violations:
            if not (v["found"] and self._is_known(v)):
                print("  -> " + v["what"][:600])
        for w, d in self.broken:
            print("  broken: %s :: %s" % (w, str(d)[:600]))
        cov = {
            "obligations": self.obligations,
            "discharged": self.discharged,
            "checker_cmd": self.checker_cmd or "n/a",
            "trusted_base": self.trusted or default_trusted(),
            "theorems": self.theorems,
            "axioms_per_theorem": {k: (v or ["Closed under the global context"]) for k, v in self.axioms.items()},
            "evaluations": self.evaluations,
            "distinct_nontrivial": len(self.nontrivial),
            "traces_validated_against_impl": self.traces_validated,
            "rule": self.rule,
            "samples": self.samples or ["(no sample recorded)"],
            "generator_distribution": self.dist,
            "known_findings_reconfirmed": sorted(k for k in self.known_seen if k),
            "notes": self.notes,
        }
        cov.update(self.extra)
        # keep the keys the evidence schema knows well-typed whatever a family put into ctx.extra
        known = {"evaluations": int, "distinct_nontrivial": int, "rule": str, "samples": list, "states": int,
                 "transitions": int, "traces_validated_against_impl": int, "obligations": int, "discharged": int,
                 "checker_cmd": str, "trusted_base": list, "programs": int, "disagreements_checked": int,
                 "explanation": str, "exhaustive": bool}
        for k, t in known.items():
            if k in cov and (not isinstance(cov[k], t) or (t is int and isinstance(cov[k], bool))):
                cov[k + "_detail"] = cov.pop(k)
        cov["trusted_base"] = [str(x) for x in cov.get("trusted_base", [])]
        if not cov.get("samples"):
            cov["samples"] = ["(no sample recorded)"]
        ev = {"property_id": self.prop, "tier": self.tier, "seed": self.seed, "level": self.level,
              "coverage": cov, "assumptions": self.assumptions, "wall_s": round(wall, 2), "violations": nviol}
        with open(os.path.join(EVIDENCE, self.prop + ".json"), "w") as f:
            json.dump(ev, f, indent=1, default=str)
        self.log("done: %d evaluations, %d distinct non-trivial, %d/%d obligations, %d violation(s), %.1fs" % (
            self.evaluations, len(self.nontrivial), self.discharged, self.obligations, nviol, wall))
        return rc

    def _is_known(self, v):
        return v["key"] is not None and any(k["key"] == v["key"] for k in self.known)


def default_trusted():
    return ["Coq 8.16.1 kernel (coqc), vm_compute; no native_compute",
            "extraction (ExtrOcamlBasic, ExtrOcamlString only) + OCaml 4.13.1 + the family's oracle/main.ml",
            "the C/C++ harness, gcc/g++ 12, ASan/UBSan, the Python glue in tools/vlib.py and fam/*/check.py",
            "correspondence is differential testing (bounded), not proof"]


def coqproject_args(cd, absolute=False):
    args = []
    for line in open(os.path.join(cd, "_CoqProject.in")).read().split("\n"):
        w = line.split()
        if len(w) == 3 and w[0] in ("-Q", "-R"):
            d = w[1]
            if absolute:
                d = os.path.normpath(os.path.join(cd, d))
            args += [w[0], d, w[2]]
    return args


def ocaml_order(gen, mls):
    """Order extracted modules by dependency using ocamldep -sort."""
    if not mls:
        return []
    mlis = [f[:-3] + ".mli" for f in mls if os.path.exists(os.path.join(gen, f[:-3] + ".mli"))]
    rc, o, e = sh(["ocamlfind", "ocamldep", "-sort"] + mlis + mls, cwd=gen)
    if rc != 0:
        return mls
    return [f for f in o.split() if f.endswith(".ml")]


def load_known(prop):
    res = []
    path = os.path.join(VERIF, "known_findings.txt")
    if not os.path.exists(path):
        return res
    for line in open(path):
        line = line.strip()
        m = re.match(r"known:\s+property=(\S+)\s+key=(\S+)\s+(.*)$", line)
        if m and m.group(1) == prop:
            res.append({"key": m.group(2), "text": m.group(3)})
    return res


def shard(items, n):
    return [items[i::n] for i in range(n)]


def parallel(fn, jobs, workers=None):
    """Run fn(job) over jobs in a thread pool (jobs spawn subprocesses, so threads suffice)."""
    from concurrent.futures import ThreadPoolExecutor
    with ThreadPoolExecutor(max_workers=workers or NPROC) as ex:
        return list(ex.map(fn, jobs))


def ddmin(items, fails, max_tests=400):
    """Delta debugging: minimise the list `items` such that fails(items) stays True."""
    tests = 0
    n = 2
    cur = list(items)
    while len(cur) >= 2 and tests < max_tests:
        chunk = max(1, len(cur) // n)
        reduced = False
        for i in range(0, len(cur), chunk):
            cand = cur[:i] + cur[i + chunk:]
            tests += 1
            if cand and fails(cand):
                cur = cand
                n = max(n - 1, 2)
                reduced = True
                break
            if tests >= max_tests:
                break
        if not reduced:
            if chunk == 1:
                break
            n = min(len(cur), n * 2)
    return cur
